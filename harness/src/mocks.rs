//! Harness-side test contracts: a programmable adversarial flash-loan borrower, a purse that
//! pays out on request (proceeds for router loans), and an epoch-hook receiver that logs calls.

use cosmwasm_std::{
    coins, to_json_binary, Addr, BankMsg, Binary, CosmosMsg, Deps, DepsMut, Empty, Env, MessageInfo,
    Reply, Response, StdError, StdResult, SubMsg, Uint128, WasmMsg,
};
use cw_multi_test::{Contract, ContractWrapper};
use cw_storage_plus::Item;
use schemars::JsonSchema;
use serde::{Deserialize, Serialize};

use white_whale_std::pool_network::asset::AssetInfo;
use white_whale_std::vault_network::vault;

// ---------------------------------------------------------------------------------------------
// borrower
// ---------------------------------------------------------------------------------------------

#[derive(Serialize, Deserialize, Clone, Debug, PartialEq, JsonSchema)]
pub enum Repay {
    /// the amount quoted by GetPaybackAmount for this loan
    Exact,
    /// one unit less
    ExactMinus1,
    /// quoted + k
    ExactPlus(Uint128),
    /// only the principal
    Principal,
    /// k/65536 of the quoted amount
    Fraction(u16),
    /// an absolute amount
    Abs(Uint128),
}

#[derive(Serialize, Deserialize, Clone, Debug, PartialEq, JsonSchema)]
pub enum Step {
    Repay(Repay),
    /// deposit into the vault; `swallow`: issued as a reply-on-error sub-message, so that a
    /// rejection does not fail the transaction
    Deposit { amount: Uint128, swallow: bool },
    Withdraw { shares: Uint128 },
    Collect,
    NestedLoan { amount: Uint128, program: Vec<Step> },
    Fail,
    Noop,
    /// the borrower itself sends the vault its internal Callback(AfterTrade) message; issued as a
    /// reply-always sub-message, so a rejection does not fail the transaction and the reply records
    /// (event attribute `forged_callback`) whether the vault accepted it
    ForgeCallback { old_balance: Uint128, loan_amount: Uint128 },
}

#[derive(Serialize, Deserialize, Clone, Debug, PartialEq, JsonSchema)]
pub struct BorrowerInit {
    pub vault: String,
    pub asset: AssetInfo,
    pub lp_token: String,
}

#[derive(Serialize, Deserialize, Clone, Debug, PartialEq, JsonSchema)]
pub enum BorrowerMsg {
    /// entry point: take a loan of `amount` and run `program` in the callback
    Start { amount: Uint128, program: Vec<Step> },
    /// called back by the vault
    Callback { amount: Uint128, program: Vec<Step> },
}

const B_CFG: Item<BorrowerInit> = Item::new("cfg");

fn b_instantiate(deps: DepsMut, _e: Env, _i: MessageInfo, msg: BorrowerInit) -> StdResult<Response> {
    B_CFG.save(deps.storage, &msg)?;
    Ok(Response::new())
}

fn pay_vault(cfg: &BorrowerInit, amount: Uint128) -> Option<CosmosMsg> {
    if amount.is_zero() {
        return None;
    }
    Some(match &cfg.asset {
        AssetInfo::NativeToken { denom } => BankMsg::Send {
            to_address: cfg.vault.clone(),
            amount: coins(amount.u128(), denom),
        }
        .into(),
        AssetInfo::Token { contract_addr } => WasmMsg::Execute {
            contract_addr: contract_addr.clone(),
            msg: to_json_binary(&cw20::Cw20ExecuteMsg::Transfer {
                recipient: cfg.vault.clone(),
                amount,
            })
            .unwrap(),
            funds: vec![],
        }
        .into(),
    })
}

fn loan_msg(cfg: &BorrowerInit, amount: Uint128, program: Vec<Step>) -> StdResult<CosmosMsg> {
    Ok(WasmMsg::Execute {
        contract_addr: cfg.vault.clone(),
        msg: to_json_binary(&vault::ExecuteMsg::FlashLoan {
            amount,
            msg: to_json_binary(&BorrowerMsg::Callback { amount, program })?,
        })?,
        funds: vec![],
    }
    .into())
}

fn b_execute(deps: DepsMut, _env: Env, _info: MessageInfo, msg: BorrowerMsg) -> StdResult<Response> {
    let cfg = B_CFG.load(deps.storage)?;
    match msg {
        BorrowerMsg::Start { amount, program } => {
            Ok(Response::new().add_message(loan_msg(&cfg, amount, program)?))
        }
        BorrowerMsg::Callback { amount, program } => {
            let quote: vault::PaybackAmountResponse = deps
                .querier
                .query_wasm_smart(cfg.vault.clone(), &vault::QueryMsg::GetPaybackAmount { amount })?;
            let mut resp = Response::new();
            for step in program {
                match step {
                    Step::Repay(mode) => {
                        let q = quote.payback_amount;
                        let amt = match mode {
                            Repay::Exact => q,
                            Repay::ExactMinus1 => q.saturating_sub(Uint128::one()),
                            Repay::ExactPlus(k) => q.saturating_add(k),
                            Repay::Principal => amount,
                            Repay::Fraction(k) => q.multiply_ratio(k as u128, 65536u128),
                            Repay::Abs(a) => a,
                        };
                        if let Some(m) = pay_vault(&cfg, amt) {
                            resp = resp.add_message(m);
                        }
                    }
                    Step::Deposit { amount, swallow } => {
                        let mut msgs: Vec<CosmosMsg> = vec![];
                        let funds = match &cfg.asset {
                            AssetInfo::NativeToken { denom } => {
                                if amount.is_zero() {
                                    vec![]
                                } else {
                                    coins(amount.u128(), denom)
                                }
                            }
                            AssetInfo::Token { contract_addr } => {
                                msgs.push(
                                    WasmMsg::Execute {
                                        contract_addr: contract_addr.clone(),
                                        msg: to_json_binary(&cw20::Cw20ExecuteMsg::IncreaseAllowance {
                                            spender: cfg.vault.clone(),
                                            amount,
                                            expires: None,
                                        })?,
                                        funds: vec![],
                                    }
                                    .into(),
                                );
                                vec![]
                            }
                        };
                        let dep: CosmosMsg = WasmMsg::Execute {
                            contract_addr: cfg.vault.clone(),
                            msg: to_json_binary(&vault::ExecuteMsg::Deposit { amount })?,
                            funds,
                        }
                        .into();
                        for m in msgs {
                            resp = resp.add_message(m);
                        }
                        if swallow {
                            resp = resp.add_submessage(SubMsg::reply_on_error(dep, 7));
                        } else {
                            resp = resp.add_message(dep);
                        }
                    }
                    Step::Withdraw { shares } => {
                        resp = resp.add_message(WasmMsg::Execute {
                            contract_addr: cfg.lp_token.clone(),
                            msg: to_json_binary(&cw20::Cw20ExecuteMsg::Send {
                                contract: cfg.vault.clone(),
                                amount: shares,
                                msg: to_json_binary(&vault::Cw20HookMsg::Withdraw {})?,
                            })?,
                            funds: vec![],
                        });
                    }
                    Step::Collect => {
                        resp = resp.add_message(WasmMsg::Execute {
                            contract_addr: cfg.vault.clone(),
                            msg: to_json_binary(&vault::ExecuteMsg::CollectProtocolFees {})?,
                            funds: vec![],
                        });
                    }
                    Step::NestedLoan { amount, program } => {
                        resp = resp.add_message(loan_msg(&cfg, amount, program)?);
                    }
                    Step::Fail => return Err(StdError::generic_err("borrower fails on purpose")),
                    Step::Noop => {}
                    Step::ForgeCallback { old_balance, loan_amount } => {
                        resp = resp.add_submessage(SubMsg::reply_always(
                            WasmMsg::Execute {
                                contract_addr: cfg.vault.clone(),
                                msg: to_json_binary(&vault::ExecuteMsg::Callback(vault::CallbackMsg::AfterTrade {
                                    old_balance,
                                    loan_amount,
                                }))?,
                                funds: vec![],
                            },
                            8,
                        ));
                    }
                }
            }
            Ok(resp)
        }
    }
}

fn b_reply(_deps: DepsMut, _env: Env, msg: Reply) -> StdResult<Response> {
    if msg.id == 8 {
        let verdict = if msg.result.is_ok() { "accepted" } else { "rejected" };
        return Ok(Response::new().add_attribute("forged_callback", verdict));
    }
    // swallowed failure of a re-entrant deposit
    Ok(Response::new().add_attribute("swallowed", "true"))
}

fn b_query(_deps: Deps, _env: Env, _msg: Empty) -> StdResult<Binary> {
    to_json_binary(&Empty {})
}

pub fn borrower_contract() -> Box<dyn Contract<Empty>> {
    Box::new(ContractWrapper::new(b_execute, b_instantiate, b_query).with_reply(b_reply))
}

// ---------------------------------------------------------------------------------------------
// purse: pays `amount` of `asset` to `to` for anyone who asks (pre-funded by the harness)
// ---------------------------------------------------------------------------------------------

#[derive(Serialize, Deserialize, Clone, Debug, PartialEq, JsonSchema)]
pub enum PurseMsg {
    Pay {
        asset: AssetInfo,
        amount: Uint128,
        to: String,
    },
    Fail {},
}

fn p_instantiate(_d: DepsMut, _e: Env, _i: MessageInfo, _m: Empty) -> StdResult<Response> {
    Ok(Response::new())
}

fn p_execute(_deps: DepsMut, _env: Env, _info: MessageInfo, msg: PurseMsg) -> StdResult<Response> {
    match msg {
        PurseMsg::Pay { asset, amount, to } => {
            if amount.is_zero() {
                return Ok(Response::new());
            }
            let m: CosmosMsg = match asset {
                AssetInfo::NativeToken { denom } => BankMsg::Send {
                    to_address: to,
                    amount: coins(amount.u128(), denom),
                }
                .into(),
                AssetInfo::Token { contract_addr } => WasmMsg::Execute {
                    contract_addr,
                    msg: to_json_binary(&cw20::Cw20ExecuteMsg::Transfer {
                        recipient: to,
                        amount,
                    })?,
                    funds: vec![],
                }
                .into(),
            };
            Ok(Response::new().add_message(m))
        }
        PurseMsg::Fail {} => Err(StdError::generic_err("purse fails on purpose")),
    }
}

fn p_query(_deps: Deps, _env: Env, _msg: Empty) -> StdResult<Binary> {
    to_json_binary(&Empty {})
}

pub fn purse_contract() -> Box<dyn Contract<Empty>> {
    Box::new(ContractWrapper::new(p_execute, p_instantiate, p_query))
}

// ---------------------------------------------------------------------------------------------
// epoch hook receiver: logs every EpochChangedHook it receives
// ---------------------------------------------------------------------------------------------

#[derive(Serialize, Deserialize, Clone, Debug, PartialEq, JsonSchema)]
pub struct HookInit {
    /// fail on every call (to check that a failing hook fails the creation atomically)
    pub fail: bool,
}

#[derive(Serialize, Deserialize, Clone, Debug, PartialEq, JsonSchema)]
pub struct LoggedCall {
    pub sender: Addr,
    pub epoch_id: u64,
    pub start_time_ns: u64,
}

#[derive(Serialize, Deserialize, Clone, Debug, PartialEq, JsonSchema)]
pub enum HookQuery {
    Log {},
}

const H_CFG: Item<HookInit> = Item::new("cfg");
const H_LOG: Item<Vec<LoggedCall>> = Item::new("log");

fn h_instantiate(deps: DepsMut, _e: Env, _i: MessageInfo, msg: HookInit) -> StdResult<Response> {
    H_CFG.save(deps.storage, &msg)?;
    H_LOG.save(deps.storage, &vec![])?;
    Ok(Response::new())
}

#[derive(Serialize, Deserialize, Clone, Debug, PartialEq, JsonSchema)]
#[serde(rename_all = "snake_case")]
pub enum HookExec {
    EpochChangedHook(white_whale_std::epoch_manager::hooks::EpochChangedHookMsg),
}

fn h_execute(deps: DepsMut, _env: Env, info: MessageInfo, msg: HookExec) -> StdResult<Response> {
    if H_CFG.load(deps.storage)?.fail {
        return Err(StdError::generic_err("hook fails on purpose"));
    }
    let HookExec::EpochChangedHook(m) = msg;
    let mut log = H_LOG.load(deps.storage)?;
    log.push(LoggedCall {
        sender: info.sender,
        epoch_id: m.current_epoch.id,
        start_time_ns: m.current_epoch.start_time.nanos(),
    });
    H_LOG.save(deps.storage, &log)?;
    Ok(Response::new())
}

fn h_query(deps: Deps, _env: Env, _msg: HookQuery) -> StdResult<Binary> {
    to_json_binary(&H_LOG.load(deps.storage)?)
}

pub fn hook_contract() -> Box<dyn Contract<Empty>> {
    Box::new(ContractWrapper::new(h_execute, h_instantiate, h_query))
}
