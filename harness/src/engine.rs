//! Property-based testing engine: sharded proptest runners with deterministic seeds, shrinking,
//! replay files, known-finding matching and evidence output.

use std::cell::Cell;
use std::collections::{BTreeMap, HashSet};
use std::fmt::Debug;
use std::sync::atomic::{AtomicBool, AtomicU64, Ordering};
use std::sync::Mutex;
use std::time::Instant;

use proptest::strategy::{BoxedStrategy, Strategy};
use proptest::test_runner::{Config, RngAlgorithm, TestCaseError, TestError, TestRng, TestRunner};
use serde::de::DeserializeOwned;
use serde::Serialize;
use serde_json::{json, Value};
use sha2::{Digest, Sha256};

pub const VERIF_DIR: &str = "/verif";

#[derive(Clone, Copy, Debug, PartialEq, Eq)]
pub enum Tier {
    Quick,
    Thorough,
}

impl Tier {
    pub fn as_str(&self) -> &'static str {
        match self {
            Tier::Quick => "quick",
            Tier::Thorough => "thorough",
        }
    }
    pub fn pick<T>(&self, quick: T, thorough: T) -> T {
        match self {
            Tier::Quick => quick,
            Tier::Thorough => thorough,
        }
    }
}

/// A failed oracle. `sig` is the structural signature of the failure; when it is listed in
/// /verif/known_findings.json for this property, the failure is counted as a known finding
/// instead of a violation.
pub const UNOBSERVABLE: &str = "__unobservable__";

#[derive(Clone, Debug)]
pub struct Fail {
    pub msg: String,
    pub sig: Option<String>,
}

impl Fail {
    pub fn new(msg: impl Into<String>) -> Self {
        Fail {
            msg: msg.into(),
            sig: None,
        }
    }
    /// The harness could not make the observation the oracle needs (e.g. a response no longer
    /// carries the attribute a figure is read from). Not a verdict about the property: the run ends
    /// INCONCLUSIVE (exit 2), never with a violation.
    pub fn unobservable(msg: impl Into<String>) -> Self {
        Fail {
            msg: msg.into(),
            sig: Some(UNOBSERVABLE.to_string()),
        }
    }
    pub fn is_unobservable(&self) -> bool {
        self.sig.as_deref() == Some(UNOBSERVABLE)
    }
    pub fn sig(sig: impl Into<String>, msg: impl Into<String>) -> Self {
        Fail {
            msg: msg.into(),
            sig: Some(sig.into()),
        }
    }
}

pub type TResult = Result<(), Fail>;

#[macro_export]
macro_rules! ensure {
    ($cond:expr, $($arg:tt)*) => {
        if !($cond) {
            return Err($crate::engine::Fail::new(format!($($arg)*)));
        }
    };
}

#[macro_export]
macro_rules! ensure_sig {
    ($cond:expr, $sig:expr, $($arg:tt)*) => {
        if !($cond) {
            return Err($crate::engine::Fail::sig($sig, format!($($arg)*)));
        }
    };
}

/// Shared statistics of one sub-check.
#[derive(Default)]
pub struct Stats {
    pub evaluations: AtomicU64,
    pub classes: Mutex<BTreeMap<String, u64>>,
    pub nontrivial: Mutex<HashSet<u64>>,
    pub samples: Mutex<Vec<Value>>,
    pub known_hits: Mutex<BTreeMap<String, (u64, String)>>,
    pub maxima: Mutex<BTreeMap<String, f64>>,
}

/// Handle given to a test function to record what the case looked like. Recording stops for a
/// shard as soon as that shard has seen a failure (proptest re-runs the closure while shrinking).
pub struct Rec<'a> {
    stats: &'a Stats,
    frozen: &'a Cell<bool>,
    pub strict: bool,
    known: &'a [KnownFinding],
    /// number of known-finding hits recorded during the current case
    pub local_known: Cell<u64>,
}

impl<'a> Rec<'a> {
    /// A failure with signature `sig`: when the signature is a listed known finding the hit is
    /// counted and the case continues (Ok), otherwise the failure is returned.
    pub fn known_or_fail(&self, sig: &str, msg: String) -> TResult {
        if let Some(k) = self.known.iter().find(|k| k.signature == sig) {
            self.local_known.set(self.local_known.get() + 1);
            if !self.frozen.get() {
                let mut kh = self.stats.known_hits.lock().unwrap();
                let e = kh.entry(k.signature.clone()).or_insert((0, k.what.clone()));
                e.0 += 1;
            }
            if self.strict {
                println!("KNOWN-FINDING: property={} {} [{}]", k.property, k.what, k.signature);
            }
            Ok(())
        } else {
            Err(Fail::sig(sig, msg))
        }
    }
    pub fn class(&self, name: &str) {
        if self.frozen.get() {
            return;
        }
        *self
            .stats
            .classes
            .lock()
            .unwrap()
            .entry(name.to_string())
            .or_insert(0) += 1;
    }
    pub fn class_n(&self, name: &str, n: u64) {
        if self.frozen.get() || n == 0 {
            return;
        }
        *self
            .stats
            .classes
            .lock()
            .unwrap()
            .entry(name.to_string())
            .or_insert(0) += n;
    }
    /// Mark the current case as non-trivial; `key` identifies the case (hash of its content).
    pub fn nontrivial(&self, key: u64) {
        if self.frozen.get() {
            return;
        }
        self.stats.nontrivial.lock().unwrap().insert(key);
    }
    pub fn sample<T: Serialize>(&self, v: &T) {
        if self.frozen.get() {
            return;
        }
        let mut s = self.stats.samples.lock().unwrap();
        if s.len() < 4 {
            if let Ok(val) = serde_json::to_value(v) {
                s.push(val);
            }
        }
    }
    pub fn maximum(&self, name: &str, v: f64) {
        if self.frozen.get() {
            return;
        }
        let mut m = self.stats.maxima.lock().unwrap();
        let e = m.entry(name.to_string()).or_insert(f64::MIN);
        if v > *e {
            *e = v;
        }
    }
}

pub fn hash_of<T: Serialize>(v: &T) -> u64 {
    let s = serde_json::to_vec(v).unwrap_or_default();
    let d = Sha256::digest(&s);
    u64::from_le_bytes(d[..8].try_into().unwrap())
}

pub trait Check: Sync + Send {
    type Case: Debug + Clone + Serialize + DeserializeOwned;
    fn name(&self) -> &'static str;
    /// How cases are generated and which are non-trivial (goes into the evidence file).
    fn rule(&self) -> &'static str;
    fn strategy(&self, tier: Tier) -> BoxedStrategy<Self::Case>;
    /// Total number of cases (split over the shards).
    fn cases(&self, tier: Tier) -> u32;
    fn test(&self, case: &Self::Case, rec: &Rec) -> TResult;
    /// Minimum fraction of evaluations that must be non-trivial; below → exit 2 (starved).
    fn min_nontrivial(&self) -> f64 {
        0.0
    }
    /// Regression cases replayed (without proptest) before the random search.
    fn corpus(&self) -> Vec<Self::Case> {
        vec![]
    }
}

pub struct RunEnv {
    pub property: String,
    pub tier: Tier,
    pub seed: u64,
    pub threads: usize,
    pub known: Vec<KnownFinding>,
    pub scale: f64,
}

#[derive(Clone, Debug, serde::Deserialize)]
pub struct KnownFinding {
    pub property: String,
    pub signature: String,
    pub what: String,
}

pub fn load_known(property: &str) -> Vec<KnownFinding> {
    let path = format!("{}/known_findings.json", VERIF_DIR);
    let Ok(txt) = std::fs::read_to_string(&path) else {
        return vec![];
    };
    let v: Value = serde_json::from_str(&txt).expect("known_findings.json must parse");
    let mut out = vec![];
    if let Some(arr) = v.get("findings").and_then(|a| a.as_array()) {
        for f in arr {
            let k: KnownFinding = serde_json::from_value(f.clone()).expect("finding entry");
            if k.property == property {
                out.push(k);
            }
        }
    }
    out
}

pub struct Violation {
    pub check: String,
    pub reason: String,
    pub case_json: Value,
    pub replay_path: String,
}

pub struct SubOutcome {
    pub name: String,
    pub rule: String,
    pub evaluations: u64,
    pub distinct_nontrivial: u64,
    pub classes: BTreeMap<String, u64>,
    pub maxima: BTreeMap<String, f64>,
    pub samples: Vec<Value>,
    pub known_hits: BTreeMap<String, (u64, String)>,
    pub violation: Option<Violation>,
    pub infra: Option<String>,
    pub wall_s: f64,
}

fn derive_seed(parts: &[&str], seed: u64, shard: usize) -> [u8; 32] {
    let mut h = Sha256::new();
    for p in parts {
        h.update(p.as_bytes());
        h.update([0u8]);
    }
    h.update(seed.to_le_bytes());
    h.update((shard as u64).to_le_bytes());
    h.finalize().into()
}

fn is_known(env: &RunEnv, f: &Fail) -> Option<KnownFinding> {
    let sig = f.sig.as_ref()?;
    env.known.iter().find(|k| &k.signature == sig).cloned()
}

fn write_replay(env: &RunEnv, check: &str, reason: &str, case: &Value) -> String {
    // WWCHECK_FOUND_DIR: campaigns that run next to other checks keep their replay files apart
    let dir = std::env::var("WWCHECK_FOUND_DIR").unwrap_or_else(|_| format!("{}/replays/found", VERIF_DIR));
    let _ = std::fs::create_dir_all(&dir);
    let body = json!({
        "property": env.property,
        "check": check,
        "reason": reason,
        "case": case,
    });
    let h = hash_of(&body);
    let path = format!("{}/{}_{}_{:016x}.json", dir, env.property, check, h);
    std::fs::write(&path, serde_json::to_string_pretty(&body).unwrap()).expect("write replay");
    path
}

pub fn run_check<C: Check>(c: &C, env: &RunEnv) -> SubOutcome {
    let t0 = Instant::now();
    let stats = Stats::default();
    let stop = AtomicBool::new(false);
    let first_fail: Mutex<Option<(String, Value)>> = Mutex::new(None);
    let infra: Mutex<Option<String>> = Mutex::new(None);

    // 1. regression corpus (plain replay, no proptest)
    {
        let frozen = Cell::new(false);
        let rec = Rec {
            stats: &stats,
            frozen: &frozen,
            strict: false,
            known: &env.known,
            local_known: Cell::new(0),
        };
        let mut cases: Vec<C::Case> = c.corpus();
        // saved regression inputs: /verif/replays/corpus/<property>/*.json (shrunk failures of
        // defects that were repaired, of hand-made mutants and of seeded changes)
        let dir = format!("{}/replays/corpus/{}", VERIF_DIR, env.property);
        if let Ok(rd) = std::fs::read_dir(&dir) {
            let mut files: Vec<_> = rd.filter_map(|e| e.ok()).map(|e| e.path()).collect();
            files.sort();
            for f in files {
                if f.extension().and_then(|x| x.to_str()) != Some("json") {
                    continue;
                }
                let Ok(txt) = std::fs::read_to_string(&f) else { continue };
                let Ok(v) = serde_json::from_str::<Value>(&txt) else { continue };
                if v.get("check").and_then(|x| x.as_str()) != Some(c.name()) {
                    continue;
                }
                match v.get("case").cloned().map(serde_json::from_value::<C::Case>) {
                    Some(Ok(case)) => {
                        rec.class("saved-corpus");
                        cases.push(case);
                    }
                    _ => rec.class("saved-corpus-undecodable"),
                }
            }
        }
        for case in cases {
            stats.evaluations.fetch_add(1, Ordering::Relaxed);
            rec.class("corpus");
            let r = std::panic::catch_unwind(std::panic::AssertUnwindSafe(|| c.test(&case, &rec)));
            let r = match r {
                Ok(r) => r,
                Err(p) => Err(Fail::new(format!("panic in check: {}", panic_msg(&p)))),
            };
            if let Err(f) = r {
                if f.is_unobservable() {
                    *infra.lock().unwrap() = Some(format!("harness cannot observe: {}", f.msg));
                    stop.store(true, Ordering::SeqCst);
                    break;
                } else if let Some(k) = is_known(env, &f) {
                    let mut kh = stats.known_hits.lock().unwrap();
                    let e = kh.entry(k.signature.clone()).or_insert((0, k.what.clone()));
                    e.0 += 1;
                } else {
                    let cj = serde_json::to_value(&case).unwrap();
                    *first_fail.lock().unwrap() = Some((f.msg.clone(), cj));
                    stop.store(true, Ordering::SeqCst);
                    break;
                }
            }
        }
    }

    // 2. random search
    let total = ((c.cases(env.tier) as f64) * env.scale).ceil().max(1.0) as u32;
    let shards = env.threads.max(1).min(total as usize);
    let per = (total + shards as u32 - 1) / shards as u32;
    if !stop.load(Ordering::SeqCst) {
        std::thread::scope(|scope| {
            for shard in 0..shards {
                let stats = &stats;
                let stop = &stop;
                let first_fail = &first_fail;
                let infra = &infra;
                scope.spawn(move || {
                    let seed = derive_seed(
                        &[&env.property, c.name(), env.tier.as_str()],
                        env.seed,
                        shard,
                    );
                    let rng = TestRng::from_seed(RngAlgorithm::ChaCha, &seed);
                    let mut cfg = Config::default();
                    cfg.cases = per;
                    cfg.failure_persistence = None;
                    cfg.max_shrink_iters = 20_000;
                    cfg.max_shrink_time = 0;
                    cfg.verbose = 0;
                    cfg.max_global_rejects = 1_000_000;
                    let mut runner = TestRunner::new_with_rng(cfg, rng);
                    let strat = c.strategy(env.tier);
                    let frozen = Cell::new(false);
                    let res = runner.run(&strat, |case| {
                        if stop.load(Ordering::Relaxed) && !frozen.get() {
                            return Ok(());
                        }
                        let rec = Rec {
                            stats,
                            frozen: &frozen,
                            strict: false,
                            known: &env.known,
            local_known: Cell::new(0),
                        };
                        if !frozen.get() {
                            stats.evaluations.fetch_add(1, Ordering::Relaxed);
                        }
                        match c.test(&case, &rec) {
                            Ok(()) => Ok(()),
                            Err(f) => {
                                if f.is_unobservable() {
                                    *infra.lock().unwrap() = Some(format!("harness cannot observe: {}", f.msg));
                                    stop.store(true, Ordering::SeqCst);
                                    Ok(())
                                } else if let Some(k) = is_known(env, &f) {
                                    if !frozen.get() {
                                        let mut kh = stats.known_hits.lock().unwrap();
                                        let e = kh
                                            .entry(k.signature.clone())
                                            .or_insert((0, k.what.clone()));
                                        e.0 += 1;
                                    }
                                    Ok(())
                                } else {
                                    frozen.set(true);
                                    Err(TestCaseError::fail(f.msg))
                                }
                            }
                        }
                    });
                    match res {
                        Ok(()) => {}
                        Err(TestError::Fail(reason, value)) => {
                            stop.store(true, Ordering::SeqCst);
                            let mut ff = first_fail.lock().unwrap();
                            if ff.is_none() {
                                let cj = serde_json::to_value(&value).unwrap_or(Value::Null);
                                *ff = Some((reason.message().to_string(), cj));
                            }
                        }
                        Err(TestError::Abort(reason)) => {
                            *infra.lock().unwrap() =
                                Some(format!("proptest aborted: {}", reason.message()));
                        }
                    }
                });
            }
        });
    }

    let evaluations = stats.evaluations.load(Ordering::SeqCst);
    let distinct_nontrivial = stats.nontrivial.lock().unwrap().len() as u64;
    let mut infra = infra.into_inner().unwrap();
    let violation = first_fail.into_inner().unwrap().map(|(reason, case_json)| {
        let replay_path = write_replay(env, c.name(), &reason, &case_json);
        Violation {
            check: c.name().to_string(),
            reason,
            case_json,
            replay_path,
        }
    });
    if violation.is_none() && infra.is_none() {
        let frac = distinct_nontrivial as f64 / evaluations.max(1) as f64;
        if frac < c.min_nontrivial() {
            infra = Some(format!(
                "generator starved: non-trivial fraction {:.4} < floor {:.4}",
                frac,
                c.min_nontrivial()
            ));
        }
    }
    SubOutcome {
        name: c.name().to_string(),
        rule: c.rule().to_string(),
        evaluations,
        distinct_nontrivial,
        classes: stats.classes.into_inner().unwrap(),
        maxima: stats.maxima.into_inner().unwrap(),
        samples: stats.samples.into_inner().unwrap(),
        known_hits: stats.known_hits.into_inner().unwrap(),
        violation,
        infra,
        wall_s: t0.elapsed().as_secs_f64(),
    }
}

pub fn panic_msg(p: &Box<dyn std::any::Any + Send>) -> String {
    if let Some(s) = p.downcast_ref::<&str>() {
        s.to_string()
    } else if let Some(s) = p.downcast_ref::<String>() {
        s.clone()
    } else {
        "<non-string panic>".to_string()
    }
}

/// Replays one saved case through the same test function, without proptest.
pub fn replay_check<C: Check>(c: &C, env: &RunEnv, case_json: &Value) -> Result<TResult, String> {
    let case: C::Case =
        serde_json::from_value(case_json.clone()).map_err(|e| format!("cannot decode case: {e}"))?;
    let stats = Stats::default();
    let frozen = Cell::new(false);
    let rec = Rec {
        stats: &stats,
        frozen: &frozen,
        strict: true,
        known: &env.known,
        local_known: Cell::new(0),
    };
    let r = std::panic::catch_unwind(std::panic::AssertUnwindSafe(|| c.test(&case, &rec)));
    let r = match r {
        Ok(r) => r,
        Err(p) => Err(Fail::new(format!("panic in check: {}", panic_msg(&p)))),
    };
    match r {
        Ok(()) => Ok(Ok(())),
        Err(f) => {
            if f.is_unobservable() {
                Err(format!("harness cannot observe: {}", f.msg))
            } else if let Some(k) = is_known(env, &f) {
                println!(
                    "KNOWN-FINDING: property={} {} [{}]",
                    env.property, k.what, k.signature
                );
                Ok(Ok(()))
            } else {
                Ok(Err(f))
            }
        }
    }
}

/// Object-safe wrapper so that a property can list heterogeneous checks.
pub trait DynCheck: Sync + Send {
    fn name(&self) -> &'static str;
    fn run(&self, env: &RunEnv) -> SubOutcome;
    fn replay(&self, env: &RunEnv, case_json: &Value) -> Result<TResult, String>;
    /// One coverage-guided execution: see [`fuzz_exec`].
    fn fuzz(&self, env: &RunEnv, stats: &Stats, data: &[u8]) -> Option<(String, String)>;
}

impl<C: Check> DynCheck for C {
    fn name(&self) -> &'static str {
        Check::name(self)
    }
    fn run(&self, env: &RunEnv) -> SubOutcome {
        run_check(self, env)
    }
    fn replay(&self, env: &RunEnv, case_json: &Value) -> Result<TResult, String> {
        replay_check(self, env, case_json)
    }
    fn fuzz(&self, env: &RunEnv, stats: &Stats, data: &[u8]) -> Option<(String, String)> {
        fuzz_exec(self, env, stats, data)
    }
}

/// Coverage-guided driver (libFuzzer target in /verif/fuzz): the fuzzer's bytes are the random stream
/// of the check's *own* proptest strategy (`RngAlgorithm::PassThrough`), so every generated case is
/// one the strategy can produce and the fuzzer's mutations act on the choices the strategy makes.
/// The oracle is the check's `test`. On a failure that is not a listed finding the case is shrunk
/// with the strategy's own value tree, written as a replay file, and (reason, replay path) returned.
pub fn fuzz_exec<C: Check>(c: &C, env: &RunEnv, stats: &Stats, data: &[u8]) -> Option<(String, String)> {
    use proptest::strategy::ValueTree;
    if data.len() < 4 {
        return None;
    }
    let mut cfg = Config::default();
    cfg.failure_persistence = None;
    let mut runner = TestRunner::new_with_rng(cfg, TestRng::from_seed(RngAlgorithm::PassThrough, data));
    let strat = c.strategy(env.tier);
    let Ok(mut tree) = strat.new_tree(&mut runner) else { return None };
    let frozen = Cell::new(false);
    let run = |case: &C::Case, frozen: &Cell<bool>| -> Option<String> {
        let rec = Rec { stats, frozen, strict: false, known: &env.known, local_known: Cell::new(0) };
        let r = std::panic::catch_unwind(std::panic::AssertUnwindSafe(|| c.test(case, &rec)));
        let r = match r {
            Ok(r) => r,
            Err(p) => Err(Fail::new(format!("panic in check: {}", panic_msg(&p)))),
        };
        match r {
            Ok(()) => None,
            Err(f) => {
                if f.is_unobservable() {
                    None
                } else if let Some(k) = is_known(env, &f) {
                    if !frozen.get() {
                        let mut kh = stats.known_hits.lock().unwrap();
                        kh.entry(k.signature.clone()).or_insert((0, k.what.clone())).0 += 1;
                    }
                    None
                } else {
                    Some(f.msg)
                }
            }
        }
    };
    stats.evaluations.fetch_add(1, Ordering::Relaxed);
    let first = run(&tree.current(), &frozen)?;
    // shrink with the strategy's value tree (recording frozen)
    frozen.set(true);
    let mut reason = first;
    let mut best = tree.current();
    let mut iters = 0;
    while iters < 5_000 && tree.simplify() {
        loop {
            iters += 1;
            let cand = tree.current();
            match run(&cand, &frozen) {
                Some(r) => {
                    reason = r;
                    best = cand;
                    break;
                }
                None => {
                    if iters >= 5_000 || !tree.complicate() {
                        break;
                    }
                }
            }
        }
    }
    let cj = serde_json::to_value(&best).unwrap_or(Value::Null);
    let path = write_replay(env, c.name(), &reason, &cj);
    Some((reason, path))
}

pub struct Property {
    pub id: &'static str,
    pub checks: Vec<Box<dyn DynCheck>>,
    pub assumptions: Vec<&'static str>,
}

/// Runs all sub-checks of a property, writes the evidence file, prints the result lines and
/// returns the process exit code.
pub fn run_property(p: &Property, env: &RunEnv, only: Option<&str>) -> i32 {
    let t0 = Instant::now();
    let mut subs = vec![];
    for c in &p.checks {
        if let Some(o) = only {
            if c.name() != o {
                continue;
            }
        }
        let out = c.run(env);
        eprintln!(
            "[{}] {}: {} evaluations, {} distinct non-trivial, {:.1}s{}",
            p.id,
            out.name,
            out.evaluations,
            out.distinct_nontrivial,
            out.wall_s,
            if out.violation.is_some() {
                " — VIOLATION"
            } else {
                ""
            }
        );
        if std::env::var("WWCHECK_VERBOSE").is_ok() {
            eprintln!("    classes: {:?}", out.classes);
            eprintln!("    maxima: {:?}", out.maxima);
            eprintln!("    known hits: {:?}", out.known_hits.iter().map(|(k, v)| (k.clone(), v.0)).collect::<Vec<_>>());
        }
        subs.push(out);
    }
    let wall = t0.elapsed().as_secs_f64();
    let evaluations: u64 = subs.iter().map(|s| s.evaluations).sum();
    let distinct: u64 = subs.iter().map(|s| s.distinct_nontrivial).sum();
    let violations = subs.iter().filter(|s| s.violation.is_some()).count();
    let mut samples = vec![];
    for s in &subs {
        for (i, smp) in s.samples.iter().enumerate() {
            if i < 2 {
                samples.push(json!({"check": s.name, "case": smp}));
            }
        }
    }
    let rule = subs
        .iter()
        .map(|s| format!("[{}] {}", s.name, s.rule))
        .collect::<Vec<_>>()
        .join(" || ");
    let mut known_total: BTreeMap<String, (u64, String)> = BTreeMap::new();
    for s in &subs {
        for (k, (n, what)) in &s.known_hits {
            let e = known_total.entry(k.clone()).or_insert((0, what.clone()));
            e.0 += n;
        }
    }
    let per_check: Vec<Value> = subs
        .iter()
        .map(|s| {
            json!({
                "check": s.name,
                "evaluations": s.evaluations,
                "distinct_nontrivial": s.distinct_nontrivial,
                "classes": s.classes,
                "maxima": s.maxima,
                "known_finding_hits": s.known_hits.iter().map(|(k,(n,_))| (k.clone(), *n)).collect::<BTreeMap<_,_>>(),
                "wall_s": s.wall_s,
                "violation": s.violation.as_ref().map(|v| json!({"reason": v.reason, "replay": v.replay_path})),
                "inconclusive": s.infra,
            })
        })
        .collect();
    let evidence = json!({
        "property_id": p.id,
        "tier": env.tier.as_str(),
        "seed": env.seed,
        "level": "exploration",
        "coverage": {
            "evaluations": evaluations,
            "distinct_nontrivial": distinct,
            "rule": rule,
            "samples": samples,
            "per_check": per_check,
            "known_finding_hits": known_total.iter().map(|(k,(n,_))| (k.clone(), *n)).collect::<BTreeMap<_,_>>(),
            "threads": env.threads,
        },
        "assumptions": p.assumptions,
        "wall_s": wall,
        "violations": violations,
    });
    let only_suffix = only.is_some();
    // A property whose checks live in two binaries (default build + token-factory build): the second
    // binary merges its part into the evidence the first one has just written for the same run.
    let mut evidence = evidence;
    if std::env::var("WWCHECK_EVIDENCE_MERGE").is_ok() {
        let path = format!("{}/evidence/{}.json", VERIF_DIR, p.id);
        if let Some(old) = std::fs::read_to_string(&path).ok().and_then(|t| serde_json::from_str::<Value>(&t).ok()) {
            if old["tier"] == evidence["tier"] && old["seed"] == evidence["seed"] {
                let num = |v: &Value| v.as_u64().unwrap_or(0);
                let oc = &old["coverage"];
                let c = evidence["coverage"].clone();
                let mut per: Vec<Value> = oc["per_check"].as_array().cloned().unwrap_or_default();
                per.extend(c["per_check"].as_array().cloned().unwrap_or_default());
                let mut smp: Vec<Value> = oc["samples"].as_array().cloned().unwrap_or_default();
                smp.extend(c["samples"].as_array().cloned().unwrap_or_default());
                let mut known: BTreeMap<String, u64> = BTreeMap::new();
                for src in [&oc["known_finding_hits"], &c["known_finding_hits"]] {
                    if let Some(m) = src.as_object() {
                        for (k, v) in m {
                            *known.entry(k.clone()).or_insert(0) += num(v);
                        }
                    }
                }
                let mut assumptions: Vec<Value> = old["assumptions"].as_array().cloned().unwrap_or_default();
                for a in evidence["assumptions"].as_array().cloned().unwrap_or_default() {
                    if !assumptions.contains(&a) {
                        assumptions.push(a);
                    }
                }
                evidence = json!({
                    "property_id": p.id,
                    "tier": env.tier.as_str(),
                    "seed": env.seed,
                    "level": "exploration",
                    "coverage": {
                        "evaluations": num(&oc["evaluations"]) + num(&c["evaluations"]),
                        "distinct_nontrivial": num(&oc["distinct_nontrivial"]) + num(&c["distinct_nontrivial"]),
                        "rule": format!("{} || {}", oc["rule"].as_str().unwrap_or(""), c["rule"].as_str().unwrap_or("")),
                        "samples": smp,
                        "per_check": per,
                        "known_finding_hits": known,
                        "threads": env.threads,
                    },
                    "assumptions": assumptions,
                    "wall_s": old["wall_s"].as_f64().unwrap_or(0.0) + wall,
                    "violations": num(&old["violations"]) + violations as u64,
                });
            }
        }
    }
    if !only_suffix {
        // side runs (seed soaks, background thorough sweeps from a copied binary) write elsewhere so that
        // the committed evidence stays the registered command's own
        let dir = std::env::var("WWCHECK_EVIDENCE_DIR").unwrap_or_else(|_| format!("{}/evidence", VERIF_DIR));
        let _ = std::fs::create_dir_all(&dir);
        let path = format!("{}/{}.json", dir, p.id);
        std::fs::write(&path, serde_json::to_string_pretty(&evidence).unwrap())
            .expect("write evidence");
    }

    for (sig, (n, what)) in &known_total {
        println!(
            "KNOWN-FINDING: property={} {} [signature={} hits={}]",
            p.id, what, sig, n
        );
    }
    let mut code = 0;
    for s in &subs {
        if let Some(v) = &s.violation {
            println!("VIOLATION property={} replay={}", p.id, v.replay_path);
            println!("  check={} reason={}", v.check, v.reason);
            println!("  minimal case: {}", v.case_json);
            code = 1;
        }
    }
    if code == 0 {
        for s in &subs {
            if let Some(i) = &s.infra {
                println!("INCONCLUSIVE property={} check={} {}", p.id, s.name, i);
                code = 2;
            }
        }
    }
    if code == 0 {
        println!(
            "OK property={}{} tier={} seed={} evaluations={} distinct_nontrivial={} wall_s={:.1}",
            p.id,
            if std::env::var("WWCHECK_EVIDENCE_MERGE").is_ok() { " part=token-factory-build" } else { "" },
            env.tier.as_str(),
            env.seed,
            evaluations,
            distinct,
            wall
        );
    }
    code
}

pub fn replay_property(p: &Property, env: &RunEnv, path: &str) -> i32 {
    let txt = match std::fs::read_to_string(path) {
        Ok(t) => t,
        Err(e) => {
            println!("INCONCLUSIVE cannot read replay {path}: {e}");
            return 2;
        }
    };
    let v: Value = match serde_json::from_str(&txt) {
        Ok(v) => v,
        Err(e) => {
            println!("INCONCLUSIVE cannot parse replay {path}: {e}");
            return 2;
        }
    };
    let check = v.get("check").and_then(|c| c.as_str()).unwrap_or("");
    let case = v.get("case").cloned().unwrap_or(Value::Null);
    for c in &p.checks {
        if c.name() == check {
            return match c.replay(env, &case) {
                Ok(Ok(())) => {
                    println!("REPLAY-PASS property={} check={} file={}", p.id, check, path);
                    0
                }
                Ok(Err(f)) => {
                    println!("VIOLATION property={} replay={}", p.id, path);
                    println!("  check={} reason={}", check, f.msg);
                    1
                }
                Err(e) => {
                    println!("INCONCLUSIVE {e}");
                    2
                }
            };
        }
    }
    println!("INCONCLUSIVE unknown check '{check}' for property {}", p.id);
    2
}

// ---------------------------------------------------------------------------------------------
// shared generators
// ---------------------------------------------------------------------------------------------

pub mod gen {
    use cosmwasm_std::Uint128;
    use proptest::prelude::*;

    pub const BOUNDARY: [u128; 18] = [
        0,
        1,
        2,
        999,
        1000,
        1001,
        2000,
        2001,
        1_000_000,
        1_000_000_000_000_000_000,
        (1u128 << 64) - 1,
        1u128 << 64,
        (1u128 << 64) + 1,
        1u128 << 100,
        1u128 << 110,
        1u128 << 127,
        u128::MAX - 1,
        u128::MAX,
    ];

    /// log-uniform in bit length over [lo, hi] (inclusive), lo ≥ 0.
    pub fn log_uniform(lo: u128, hi: u128) -> BoxedStrategy<u128> {
        assert!(lo <= hi);
        let lo_bits = 128 - lo.leading_zeros();
        let hi_bits = 128 - hi.leading_zeros();
        (lo_bits..=hi_bits, any::<u128>())
            .prop_map(move |(bits, r)| {
                let v = if bits == 0 {
                    0
                } else if bits == 128 {
                    r | (1u128 << 127)
                } else {
                    (r & ((1u128 << bits) - 1)) | (1u128 << (bits - 1))
                };
                v.clamp(lo, hi)
            })
            .boxed()
    }

    /// 70 % log-uniform, 30 % boundary constants clipped into the range.
    pub fn amount(lo: u128, hi: u128) -> BoxedStrategy<u128> {
        prop_oneof![
            7 => log_uniform(lo, hi),
            3 => (0usize..BOUNDARY.len()).prop_map(move |i| BOUNDARY[i].clamp(lo, hi)),
        ]
        .boxed()
    }

    pub fn uamount(lo: u128, hi: u128) -> BoxedStrategy<Uint128> {
        amount(lo, hi).prop_map(Uint128::new).boxed()
    }

    pub const FEE_ATOMICS: [u128; 11] = [
        0,
        1,
        100_000_000_000_000,
        1_000_000_000_000_000,
        3_000_000_000_000_000,
        10_000_000_000_000_000,
        100_000_000_000_000_000,
        300_000_000_000_000_000,
        500_000_000_000_000_000,
        900_000_000_000_000_000,
        999_999_999_999_999_999,
    ];

    /// One fee share in 18-decimal atomics, in [0, 10^18).
    pub fn fee_atomics() -> BoxedStrategy<u128> {
        prop_oneof![
            5 => (0usize..FEE_ATOMICS.len()).prop_map(|i| FEE_ATOMICS[i]),
            3 => log_uniform(0, 999_999_999_999_999_999),
            2 => (0u128..1_000_000_000_000_000_000u128),
        ]
        .boxed()
    }

    /// A valid fee triple (each < 1, sum < 1), by construction: draw three shares and scale the
    /// triple down when the sum reaches 1.
    pub fn valid_fee_triple() -> BoxedStrategy<[u128; 3]> {
        (fee_atomics(), fee_atomics(), fee_atomics())
            .prop_map(|(a, b, c)| {
                let one = 1_000_000_000_000_000_000u128;
                let sum = a + b + c;
                if sum < one {
                    [a, b, c]
                } else {
                    // scale so that the sum is one atomic below 1
                    let t = one - 1;
                    let a2 = a * t / sum;
                    let b2 = b * t / sum;
                    let c2 = c * t / sum;
                    [a2, b2, c2]
                }
            })
            .boxed()
    }

    /// Typical small fee triples, so that pools stay liquid in long histories.
    pub fn small_fee_triple() -> BoxedStrategy<[u128; 3]> {
        let small = prop_oneof![
            Just(0u128),
            Just(1u128),
            Just(1_000_000_000_000_000u128),
            Just(3_000_000_000_000_000u128),
            Just(10_000_000_000_000_000u128),
            Just(100_000_000_000_000_000u128),
            0u128..200_000_000_000_000_000u128,
        ];
        (small.clone(), small.clone(), small)
            .prop_map(|(a, b, c)| [a, b, c])
            .boxed()
    }

    /// Monotone index mapping (shrinks towards 0).
    pub fn idx(sel: u16, len: usize) -> usize {
        if len == 0 {
            0
        } else {
            ((sel as usize) * len) >> 16
        }
    }

    /// `k/65536` of `q`, rounded down; k = 65535 is mapped to the whole quantity.
    /// Selector for "a share of what I hold" (see [`frac`]): uniform, but with the whole holding
    /// (u16::MAX), nothing and one 65536th weighted in — "everything" is where the last-one-out and
    /// lock-up clauses live, and a uniform u16 hits it once in 65 536 draws.
    pub fn share_sel() -> BoxedStrategy<u16> {
        use proptest::prelude::*;
        prop_oneof![6 => any::<u16>(), 2 => Just(u16::MAX), 1 => Just(0u16), 1 => Just(1u16)].boxed()
    }

    pub fn frac(sel: u16, q: u128) -> u128 {
        if sel == u16::MAX {
            return q;
        }
        // q * sel / 65536 without overflow
        let hi = (q >> 16) * sel as u128;
        let lo = ((q & 0xFFFF) * sel as u128) >> 16;
        hi + lo
    }
}
