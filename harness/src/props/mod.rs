use crate::engine::Property;

pub mod c01;
pub mod c02;
pub mod c03;
pub mod c04;
pub mod c05;
pub mod c06;
pub mod c07;
pub mod c08;
pub mod c09;
pub mod c10;
pub mod c11;
pub mod c12;
pub mod c13;
pub mod c14;
pub mod c15;
pub mod c16;
pub mod c17;
pub mod c18;
pub mod c19;
pub mod c20;

pub fn property(id: &str) -> Option<Property> {
    match id {
        "C01" => Some(c01::property()),
        "C02" => Some(c02::property()),
        "C03" => Some(c03::property()),
        "C04" => Some(c04::property()),
        "C05" => Some(c05::property()),
        "C06" => Some(c06::property()),
        "C07" => Some(c07::property()),
        "C08" => Some(c08::property()),
        "C09" => Some(c09::property()),
        "C10" => Some(c10::property()),
        "C11" => Some(c11::property()),
        "C12" => Some(c12::property()),
        "C13" => Some(c13::property()),
        "C14" => Some(c14::property()),
        "C15" => Some(c15::property()),
        "C16" => Some(c16::property()),
        "C17" => Some(c17::property()),
        "C18" => Some(c18::property()),
        "C19" => Some(c19::property()),
        "C20" => Some(c20::property()),
        _ => None,
    }
}
