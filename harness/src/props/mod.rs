use crate::engine::Property;

pub mod c02;

pub fn property(id: &str) -> Option<Property> {
    match id {
        "C02" => Some(c02::property()),
        _ => None,
    }
}
