use crate::engine::Property;

pub mod c01;
pub mod c02;

pub fn property(id: &str) -> Option<Property> {
    match id {
        "C01" => Some(c01::property()),
        "C02" => Some(c02::property()),
        _ => None,
    }
}
