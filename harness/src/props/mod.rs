use crate::engine::Property;

pub mod c01;
pub mod c02;
pub mod c03;
pub mod c04;

pub fn property(id: &str) -> Option<Property> {
    match id {
        "C01" => Some(c01::property()),
        "C02" => Some(c02::property()),
        "C03" => Some(c03::property()),
        "C04" => Some(c04::property()),
        _ => None,
    }
}
