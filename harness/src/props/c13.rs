//! C13 — incentive weights add up; claims are bounded, single and as quoted.

use std::collections::BTreeMap;

use cosmwasm_std::{coin, Uint128};
use proptest::prelude::*;
use serde::{Deserialize, Serialize};

use incentive::verif_hooks::calculate_weight;
use white_whale_std::pool_network::asset::AssetInfo;
use white_whale_std::pool_network::incentive::{self as inc, Flow};

use crate::engine::{gen, hash_of, Check, Fail, Property, Rec, TResult, Tier};
use crate::ensure;
use crate::incentives::{end_of, flow_id, FeeKind, IncCfg, IncWorld, LpKind, MAX_DUR, MIN_DUR};
use crate::refmath::u;
use crate::world::asset;

// ---------------------------------------------------------------------------------------------
// pure: weight function
// ---------------------------------------------------------------------------------------------

#[derive(Clone, Debug, Serialize, Deserialize)]
pub struct WCase {
    pub d: u64,
    pub dd: u64,
    pub a: Uint128,
    pub da: Uint128,
}

pub struct WeightMonotone;

fn w(d: u64, a: u128) -> Result<u128, String> {
    let r = std::panic::catch_unwind(|| calculate_weight(d, Uint128::new(a)));
    match r {
        Ok(Ok(v)) => Ok(v.u128()),
        Ok(Err(e)) => Err(e.to_string()),
        Err(_) => Err("panic".into()),
    }
}

impl Check for WeightMonotone {
    type Case = WCase;
    fn name(&self) -> &'static str {
        "weight_function"
    }
    fn rule(&self) -> &'static str {
        "calculate_weight(d, a) through the hook over the whole allowed rectangle a in [1,2^100], d in [86400,31556926] (log-uniform and boundary values), with neighbours (a+da, d) and (a, d+dd): weight >= amount, non-decreasing in amount and in duration, defined (no error) everywhere inside the rectangle, rejected outside the duration range. Non-trivial: da > 0 and dd > 0 and both neighbours inside the rectangle."
    }
    fn strategy(&self, _tier: Tier) -> BoxedStrategy<WCase> {
        (
            prop_oneof![3 => (MIN_DUR..=MAX_DUR), 1 => Just(MIN_DUR), 1 => Just(MAX_DUR), 1 => Just(15_778_463u64), 1 => gen::log_uniform(MIN_DUR as u128, MAX_DUR as u128).prop_map(|v| v as u64)],
            prop_oneof![3 => Just(1u64), 2 => 0u64..1000, 2 => 0u64..MAX_DUR],
            gen::amount(1, 1u128 << 100),
            prop_oneof![3 => Just(1u128), 3 => gen::amount(0, 1u128 << 100)],
        )
            .prop_map(|(d, dd, a, da)| WCase {
                d,
                dd,
                a: Uint128::new(a),
                da: Uint128::new(da),
            })
            .boxed()
    }
    fn cases(&self, tier: Tier) -> u32 {
        tier.pick(400_000, 40_000_000)
    }
    fn test(&self, c: &WCase, rec: &Rec) -> TResult {
        let (d, a) = (c.d, c.a.u128());
        let w0 = w(d, a).map_err(|e| Fail::new(format!("calculate_weight({d},{a}) failed inside the allowed range: {e}")))?;
        ensure!(w0 >= a, "weight {w0} < amount {a} at duration {d}");
        let a2 = a.saturating_add(c.da.u128()).min(1u128 << 100);
        let d2 = d.saturating_add(c.dd).min(MAX_DUR);
        if a2 > a && d2 > d {
            rec.nontrivial(hash_of(c));
            rec.sample(c);
        }
        let wa = w(d, a2).map_err(|e| Fail::new(format!("calculate_weight({d},{a2}) failed: {e}")))?;
        ensure!(wa >= w0, "weight not monotone in amount: w({d},{a}) = {w0} > w({d},{a2}) = {wa}");
        let wd = w(d2, a).map_err(|e| Fail::new(format!("calculate_weight({d2},{a}) failed: {e}")))?;
        ensure!(wd >= w0, "weight not monotone in duration: w({d},{a}) = {w0} > w({d2},{a}) = {wd}");
        ensure!(w(MIN_DUR - 1, a).is_err() && w(MAX_DUR + 1, a).is_err(), "weight defined outside the duration range");
        Ok(())
    }
}

// ---------------------------------------------------------------------------------------------
// stateful
// ---------------------------------------------------------------------------------------------

pub const DURS: [u64; 4] = [86_400, 1_394_207, 15_778_463, 31_556_926];

#[derive(Clone, Debug, Serialize, Deserialize)]
pub enum Op {
    Open {
        user: u8,
        amount: Uint128,
        dur: u8,
        /// Some(p): user p pays and names `user` as the receiver of the position
        #[serde(default)]
        payer: Option<u8>,
    },
    Expand {
        pick: u16,
        amount: Uint128,
        #[serde(default)]
        payer: Option<u8>,
    },
    Close { pick: u16 },
    Withdraw { user: u8 },
    Claim { user: u8 },
    ClaimTwice { user: u8 },
    Snapshot { caller: u8 },
    NewEpoch { n: u8, snapshot_first: bool },
    OpenFlow { asset: u8, amount: Uint128, epochs: u8 },
    ExpandFlow { sel: u16, amount: Uint128 },
}

#[derive(Clone, Debug, Serialize, Deserialize)]
pub struct Case {
    pub lp_native: bool,
    pub ops: Vec<Op>,
}

fn payer() -> BoxedStrategy<Option<u8>> {
    prop_oneof![3 => Just(None), 2 => (0u8..4).prop_map(Some)].boxed()
}

fn op() -> BoxedStrategy<Op> {
    let amt = prop_oneof![
        3 => gen::amount(1, 1u128 << 100),
        3 => gen::log_uniform(1, 1u128 << 40),
    ];
    prop_oneof![
        6 => (0u8..4, amt.clone(), 0u8..4, payer()).prop_map(|(user, a, dur, payer)| Op::Open { user, amount: Uint128::new(a), dur, payer }),
        6 => (any::<u16>(), amt.clone(), payer()).prop_map(|(pick, a, payer)| Op::Expand { pick, amount: Uint128::new(a), payer }),
        4 => any::<u16>().prop_map(|pick| Op::Close { pick }),
        1 => (0u8..4).prop_map(|user| Op::Withdraw { user }),
        6 => (0u8..4).prop_map(|user| Op::Claim { user }),
        2 => (0u8..4).prop_map(|user| Op::ClaimTwice { user }),
        5 => (0u8..5).prop_map(|caller| Op::Snapshot { caller }),
        8 => (prop_oneof![8 => Just(1u8), 2 => 2u8..4, 1 => 20u8..30], any::<bool>()).prop_map(|(n, snapshot_first)| Op::NewEpoch { n, snapshot_first }),
        // around the 100-epoch claim cap, a snapshot in every epoch
        1 => (97u8..104).prop_map(|n| Op::NewEpoch { n, snapshot_first: true }),
        3 => (0u8..2, gen::amount(1000, 1u128 << 90), prop_oneof![4 => 1u8..40, 1 => 100u8..250]).prop_map(|(asset, a, epochs)| Op::OpenFlow { asset, amount: Uint128::new(a), epochs }),
        2 => (any::<u16>(), gen::amount(1, 1u128 << 80)).prop_map(|(sel, a)| Op::ExpandFlow { sel, amount: Uint128::new(a) }),
    ]
    .boxed()
}

pub struct WeightsAndClaims;

/// emission of flow `f` for epoch `e` as the contract defines it, recomputed from the flow's
/// raw state (amount and end epoch in force at `e`, tokens emitted up to `e − 1`).
fn emissions(f: &Flow, from: u64, to: u64) -> BTreeMap<u64, u128> {
    let mut emitted: BTreeMap<u64, u128> = f.emitted_tokens.iter().map(|(k, v)| (*k, v.u128())).collect();
    let last_end = f.asset_history.iter().next_back().map(|(_, (_, e))| *e).unwrap_or(f.end_epoch);
    let mut out = BTreeMap::new();
    for e in from..=to {
        if e < f.start_epoch {
            continue;
        }
        if e >= last_end {
            break;
        }
        let prev = if emitted.is_empty() { 0 } else { *emitted.get(&e.saturating_sub(1)).unwrap_or(&0) };
        let (amount, end) = f
            .asset_history
            .range(..=e)
            .next_back()
            .map(|(_, (a, en))| (a.u128(), *en))
            .unwrap_or((f.flow_asset.amount.u128(), f.end_epoch));
        if end <= e {
            continue;
        }
        let em = amount.saturating_sub(prev) / (end - e) as u128;
        emitted.entry(e).or_insert(em + prev);
        out.insert(e, em);
    }
    out
}

impl Check for WeightsAndClaims {
    type Case = Case;
    fn name(&self) -> &'static str {
        "weights_and_claims_history"
    }
    fn rule(&self) -> &'static str {
        "incentive contract (cw20 or native LP) with 4 users, position amounts 1..2^100, four unbonding durations across the allowed range, up to 3 concurrent flows (native and cw20 rewards; default, future and past start epochs) with expansions (with or without a new end), histories of 30..60 / up to 150 operations over >= 20 epochs {open (own funds, or paid by another user naming the owner as receiver), expand an existing position (likewise), close an existing position, withdraw, claim, claim twice in one epoch, permissionless snapshot by any caller at any point of the epoch, 1..30 new epochs with or without a snapshot first, open / expand flow}. After every step: raw GLOBAL_WEIGHT == sum of raw ADDRESS_WEIGHT; when the current epoch has a snapshot, the address weights reported by CurrentEpochRewardsShare sum to <= the snapshot; a second claim in the same epoch pays nothing; what a claim pays per flow is <= the sum of that flow's emissions over the claimed epochs (recomputed from the flow's raw state); a successful claim pays exactly what the Rewards query returned immediately before it (<= 100 unclaimed epochs). The two known weight-accounting defects are matched by structural signatures. Non-trivial: >= 2 users claimed a non-zero reward and >= 20 epochs elapsed."
    }
    fn strategy(&self, tier: Tier) -> BoxedStrategy<Case> {
        let (lo, hi) = tier.pick((30usize, 60usize), (30usize, 150usize));
        (any::<bool>(), prop::collection::vec(op(), lo..hi))
            .prop_map(|(lp_native, mut ops)| {
                ops.insert(0, Op::OpenFlow { asset: 0, amount: Uint128::new(1_000_000_000), epochs: 30 });
                ops.insert(1, Op::Open { user: 0, amount: Uint128::new(5_000_000), dur: 0, payer: None });
                ops.insert(2, Op::Open { user: 1, amount: Uint128::new(714_165), dur: 1, payer: None });
                Case { lp_native, ops }
            })
            .boxed()
    }
    fn cases(&self, tier: Tier) -> u32 {
        tier.pick(25_000, 900_000)
    }
    fn min_nontrivial(&self) -> f64 {
        0.02
    }
    fn test(&self, c: &Case, rec: &Rec) -> TResult {
        let cfg = IncCfg {
            lp: if c.lp_native { LpKind::Native } else { LpKind::Cw20 },
            flow0_cw20: false,
            fee: FeeKind::Native,
            fee_amount: Uint128::new(1000),
            max_concurrent_flows: 3,
        };
        let mut iw = IncWorld::build(&cfg).map_err(|e| Fail::new(format!("world build failed: {e}")))?;
        let mut open: BTreeMap<(usize, u64), u128> = BTreeMap::new();
        let mut expansions_total: u128 = 0;
        let mut last_claim: [Option<u64>; 4] = [None; 4];
        let mut close_before_snapshot_in_epoch = false;
        let mut snapshot_taken_in_epoch = false;
        let mut paid_users: std::collections::BTreeSet<usize> = Default::default();
        let start_epoch = iw.current_epoch();
        for (step, op) in c.ops.iter().enumerate() {
            let epoch = iw.current_epoch();
            match op {
                Op::Open { user, amount, dur, payer } => {
                    let who = iw.user(*user);
                    let d = DURS[(*dur % 4) as usize];
                    let a = amount.u128();
                    let ok = match payer.filter(|p| p % 4 != *user % 4) {
                        Some(p) => {
                            let from = iw.user(p);
                            let ok = iw.position_msg(&from, false, a, a, d, Some(&who)).is_ok();
                            if ok {
                                rec.class("open_for_receiver_ok");
                            }
                            ok
                        }
                        None => iw.position_msg(&who, false, a, a, d, None).is_ok(),
                    };
                    if ok {
                        rec.class("open_ok");
                        open.insert(((*user % 4) as usize, d), a);
                    }
                }
                Op::Expand { pick, amount, payer } => {
                    let keys: Vec<(usize, u64)> = open.keys().cloned().collect();
                    if keys.is_empty() {
                        continue;
                    }
                    let (uu, d) = keys[gen::idx(*pick, keys.len())];
                    let who = iw.user(uu as u8);
                    let a = amount.u128();
                    let ok = match payer.filter(|p| (p % 4) as usize != uu) {
                        Some(p) => {
                            let from = iw.user(p);
                            let ok = iw.position_msg(&from, true, a, a, d, Some(&who)).is_ok();
                            if ok {
                                rec.class("expand_for_receiver_ok");
                            }
                            ok
                        }
                        None => iw.position_msg(&who, true, a, a, d, None).is_ok(),
                    };
                    if ok {
                        rec.class("expand_ok");
                        *open.get_mut(&(uu, d)).unwrap() += a;
                        expansions_total += 1;
                    }
                }
                Op::Close { pick } => {
                    let keys: Vec<(usize, u64)> = open.keys().cloned().collect();
                    if keys.is_empty() {
                        continue;
                    }
                    let (uu, d) = keys[gen::idx(*pick, keys.len())];
                    let who = iw.user(uu as u8);
                    if iw.exec_inc(&who, &inc::ExecuteMsg::ClosePosition { unbonding_duration: d }, &[]).is_ok() {
                        rec.class("close_ok");
                        open.remove(&(uu, d));
                        if !snapshot_taken_in_epoch {
                            close_before_snapshot_in_epoch = true;
                            rec.class("close_before_snapshot_in_epoch");
                        }
                    }
                }
                Op::Withdraw { user } => {
                    let who = iw.user(*user);
                    let _ = iw.exec_inc(&who, &inc::ExecuteMsg::Withdraw {}, &[]);
                }
                Op::Claim { .. } | Op::ClaimTwice { .. } => {
                    let (user, twice) = match op {
                        Op::Claim { user } => (*user, false),
                        Op::ClaimTwice { user } => (*user, true),
                        _ => unreachable!(),
                    };
                    let uidx = (user % 4) as usize;
                    let who = iw.user(user);
                    let quoted: Result<inc::RewardsResponse, String> =
                        iw.w.query(&iw.incentive, &inc::QueryMsg::Rewards { address: who.to_string() });
                    let flows_before = iw.flows_raw();
                    let bals: Vec<u128> = iw.flow_assets.iter().take(2).map(|a| iw.w.bal(a, &who)).collect();
                    let r = iw.exec_inc(&who, &inc::ExecuteMsg::Claim {}, &[]);
                    if r.is_err() {
                        rec.class("claim_rejected");
                    } else {
                        rec.class("claim_ok");
                        let got: Vec<u128> = iw.flow_assets.iter().take(2).enumerate().map(|(i, a)| iw.w.bal(a, &who) - bals[i]).collect();
                        if got.iter().any(|g| *g > 0) {
                            paid_users.insert(uidx);
                        }
                        let first = last_claim[uidx].map(|e| e + 1).unwrap_or(0);
                        let unclaimed = epoch.saturating_sub(first) + 1;
                        // as quoted
                        if unclaimed <= 100 {
                            match &quoted {
                                Ok(q) => {
                                    for (i, a) in iw.flow_assets.iter().take(2).enumerate() {
                                        let want: u128 = q.rewards.iter().filter(|r| r.info == *a).map(|r| r.amount.u128()).sum();
                                        ensure!(
                                            got[i] == want,
                                            "step {step}: claim paid {} of reward asset {i} but the Rewards query returned {want} immediately before",
                                            got[i]
                                        );
                                    }
                                    rec.class("claim_equals_quote_checked");
                                }
                                Err(e) => {
                                    return Err(Fail::new(format!(
                                        "step {step}: the Rewards query failed ({e}) immediately before a successful claim"
                                    )))
                                }
                            }
                        }
                        // bounded by the emissions of the claimed epochs
                        let flows_after = iw.flows_raw();
                        for fb in &flows_before {
                            let Some(fa) = flows_after.iter().find(|f| f.flow_id == fb.flow_id) else { continue };
                            let paid = fa.claimed_amount.u128().saturating_sub(fb.claimed_amount.u128());
                            if paid == 0 {
                                continue;
                            }
                            let em = emissions(fb, first.max(fb.start_epoch), epoch);
                            let bound: u128 = em.values().sum();
                            ensure!(
                                paid <= bound,
                                "step {step}: claim paid {paid} from flow {} but its emissions over epochs {}..={epoch} sum to {bound}",
                                fb.flow_id,
                                first.max(fb.start_epoch)
                            );
                        }
                        last_claim[uidx] = Some(epoch);
                        if twice {
                            let b2: Vec<u128> = iw.flow_assets.iter().take(2).map(|a| iw.w.bal(a, &who)).collect();
                            let _ = iw.exec_inc(&who, &inc::ExecuteMsg::Claim {}, &[]);
                            for (i, a) in iw.flow_assets.iter().take(2).enumerate() {
                                let now = iw.w.bal(a, &who);
                                ensure!(
                                    now == b2[i],
                                    "step {step}: a second claim in the same epoch paid {} of reward asset {i}",
                                    now - b2[i]
                                );
                            }
                            rec.class("second_claim_checked");
                        }
                    }
                }
                Op::Snapshot { caller } => {
                    let who = if *caller == 4 { iw.w.owner.clone() } else { iw.user(*caller) };
                    if iw.exec_inc(&who, &inc::ExecuteMsg::TakeGlobalWeightSnapshot {}, &[]).is_ok() {
                        rec.class("snapshot_ok");
                        snapshot_taken_in_epoch = true;
                    }
                }
                Op::NewEpoch { n, snapshot_first } => {
                    for _ in 0..*n {
                        if *snapshot_first && !snapshot_taken_in_epoch {
                            let who = iw.user(3);
                            let _ = iw.exec_inc(&who, &inc::ExecuteMsg::TakeGlobalWeightSnapshot {}, &[]);
                        }
                        iw.new_epoch();
                        snapshot_taken_in_epoch = false;
                        close_before_snapshot_in_epoch = false;
                    }
                }
                Op::OpenFlow { asset: ai, amount, epochs } => {
                    let who = iw.user(3);
                    let fa = iw.flow_assets[(*ai % 2) as usize].clone();
                    let a = amount.u128();
                    let mut funds = vec![coin(1000, "urewf")];
                    match &fa {
                        AssetInfo::NativeToken { denom } => funds.push(coin(a, denom)),
                        AssetInfo::Token { .. } => iw.set_allowance(&who, &fa, a),
                    }
                    funds.sort_by(|x, y| x.denom.cmp(&y.denom));
                    if iw
                        .exec_inc(
                            &who,
                            &inc::ExecuteMsg::OpenFlow {
                                // one flow in four starts a few epochs ahead, one in eight a few epochs back
                                start_epoch: match a % 8 {
                                    0 | 1 => Some(epoch + 1 + (a / 8 % 4) as u64),
                                    2 => Some(epoch.saturating_sub(1 + (a / 8 % 4) as u64)),
                                    _ => None,
                                },
                                end_epoch: Some(epoch + 5 + *epochs as u64),
                                curve: None,
                                flow_asset: asset(&fa, a),
                                flow_label: None,
                            },
                            &funds,
                        )
                        .is_ok()
                    {
                        rec.class("flow_opened");
                    }
                }
                Op::ExpandFlow { sel, amount } => {
                    let flows = iw.flows_raw();
                    if flows.is_empty() {
                        continue;
                    }
                    let f = flows[gen::idx(*sel, flows.len())].clone();
                    let who = f.flow_creator.clone();
                    let fa = f.flow_asset.info.clone();
                    let a = amount.u128();
                    let funds = match &fa {
                        AssetInfo::NativeToken { denom } => vec![coin(a, denom)],
                        AssetInfo::Token { .. } => {
                            iw.set_allowance(&who, &fa, a);
                            vec![]
                        }
                    };
                    if iw
                        .exec_inc(
                            &who,
                            &inc::ExecuteMsg::ExpandFlow {
                                flow_identifier: flow_id(f.flow_id),
                                // one expansion in four also moves the end out by 1..16 epochs
                                end_epoch: if sel & 0x300 == 0x300 { Some(end_of(&f) + 1 + (*sel as u64 >> 12)) } else { None },
                                flow_asset: asset(&fa, a),
                            },
                            &funds,
                        )
                        .is_ok()
                    {
                        rec.class("flow_expanded");
                    }
                }
            }

            // (1) global weight == sum of address weights
            let g = iw.global_weight_raw();
            let aw = iw.address_weights_raw();
            let sum: u128 = aw.iter().map(|(_, v)| *v).sum();
            if g != sum {
                let msg = format!(
                    "step {step} ({op:?}): GLOBAL_WEIGHT {g} != sum of ADDRESS_WEIGHT {sum} ({aw:?})"
                );
                // known: close subtracts w(total) with saturating_sub from both, but the user's weight
                // was built from floors of the parts; each expansion can cost the global weight < 1 unit
                if g < sum && u(sum - g) <= u(expansions_total) {
                    rec.known_or_fail("incentive-close-weight-rounding", msg)?;
                } else {
                    return Err(Fail::new(msg));
                }
            }
            // (2) shares of the current epoch add up to at most 100 %
            let gw: Result<inc::GlobalWeightResponse, String> =
                iw.w.query(&iw.incentive, &inc::QueryMsg::GlobalWeight { epoch_id: iw.current_epoch() });
            if let Ok(gw) = gw {
                let mut total = 0u128;
                let mut ok = true;
                for uu in 0..4u8 {
                    let usr = iw.user(uu);
                    let s: Result<inc::RewardsShareResponse, String> = iw.w.query(
                        &iw.incentive,
                        &inc::QueryMsg::CurrentEpochRewardsShare { address: usr.to_string() },
                    );
                    match s {
                        Ok(s) => {
                            ensure!(
                                s.global_weight == gw.global_weight,
                                "step {step}: share query and snapshot disagree on the global weight"
                            );
                            total += s.address_weight.u128();
                        }
                        Err(_) => ok = false,
                    }
                }
                if ok && total > gw.global_weight.u128() {
                    let msg = format!(
                        "step {step} ({op:?}): reward shares of epoch {} add up to {total} > global-weight snapshot {} (more than 100%)",
                        gw.epoch_id, gw.global_weight
                    );
                    if close_before_snapshot_in_epoch {
                        rec.known_or_fail("incentive-snapshot-after-close", msg)?;
                    } else if u(total - gw.global_weight.u128()) <= u(expansions_total) {
                        rec.known_or_fail("incentive-close-weight-rounding", msg)?;
                    } else {
                        return Err(Fail::new(msg));
                    }
                }
            }
        }
        if paid_users.len() >= 2 && iw.current_epoch() >= start_epoch + 20 {
            rec.nontrivial(hash_of(c));
            rec.sample(c);
        }
        Ok(())
    }
}

pub fn property() -> Property {
    Property {
        id: "C13",
        checks: vec![Box::new(WeightMonotone), Box::new(WeightsAndClaims)],
        assumptions: vec![
            "GLOBAL_WEIGHT / ADDRESS_WEIGHT / flows are read from raw storage; shares through the public queries",
            "per-flow emissions are recomputed by the harness from the flow's raw state with the documented formula (amount in force − emitted so far) / (end in force − epoch)",
            "the epoch clock is the repository's fee-distributor mock",
        ],
    }
}
