//! C18 — stored configuration is always within its documented bounds.

use cosmwasm_std::{Addr, Decimal, Uint128, Uint64};
use proptest::prelude::*;
use serde::{Deserialize, Serialize};

use white_whale_std::epoch_manager::epoch_manager::EpochConfig;
use white_whale_std::fee::{Fee, VaultFee};
use white_whale_std::fee_collector as fc;
use white_whale_std::fee_distributor as fd;
use white_whale_std::pool_network::asset::{AssetInfo, PairType};
use white_whale_std::pool_network::{factory, pair, trio};
use white_whale_std::vault_network::{vault, vault_factory};
use white_whale_std::whale_lair as lair;

use crate::engine::{gen, hash_of, Check, Fail, Property, Rec, TResult, Tier};
use crate::ensure;
use crate::refmath::E18;
use crate::world::{native, token, World, DAY_NS, START_TIME_S};

/// fee share atomics, deliberately also out of range
fn share() -> BoxedStrategy<u128> {
    prop_oneof![
        4 => Just(0u128),
        2 => Just(1u128),
        3 => Just(3_000_000_000_000_000u128),
        2 => Just(E18 / 2),
        2 => Just(E18 / 2 + 1),
        2 => Just(E18 - 1),
        2 => Just(E18),
        1 => Just(E18 + 1),
        1 => Just(2 * E18),
        3 => (0u128..E18),
    ]
    .boxed()
}

/// triples on / just inside / just outside the bounds
pub fn boundary_triple() -> BoxedStrategy<[Uint128; 3]> {
    prop_oneof![
        3 => (share(), share(), share()).prop_map(|(a, b, c)| [a, b, c]),
        // sums exactly 1 − 1e-18, 1, 1 + 1e-18
        3 => (0u128..E18, 0u128..E18, prop_oneof![Just(-1i8), Just(0), Just(1)], 0usize..3).prop_map(|(a, b, d, rot)| {
            let a = a.min(E18 - 2);
            let b = b.min(E18 - 2 - a.min(E18 - 2)).min(E18 - a - 1);
            let c = (E18 as i128 - a as i128 - b as i128 + d as i128).max(0) as u128;
            let v = [a, b, c];
            [v[rot % 3], v[(rot + 1) % 3], v[(rot + 2) % 3]]
        }),
        2 => gen::valid_fee_triple(),
    ]
    .prop_map(|v| [Uint128::new(v[0]), Uint128::new(v[1]), Uint128::new(v[2])])
    .boxed()
}

fn d(a: u128) -> Decimal {
    Decimal::new(Uint128::new(a))
}

fn pfee(f: &[Uint128; 3]) -> pair::PoolFee {
    pair::PoolFee {
        protocol_fee: Fee { share: d(f[0].u128()) },
        swap_fee: Fee { share: d(f[1].u128()) },
        burn_fee: Fee { share: d(f[2].u128()) },
    }
}

fn tfee(f: &[Uint128; 3]) -> trio::PoolFee {
    trio::PoolFee {
        protocol_fee: Fee { share: d(f[0].u128()) },
        swap_fee: Fee { share: d(f[1].u128()) },
        burn_fee: Fee { share: d(f[2].u128()) },
    }
}

fn vfee(f: &[Uint128; 3]) -> VaultFee {
    VaultFee {
        protocol_fee: Fee { share: d(f[0].u128()) },
        flash_loan_fee: Fee { share: d(f[1].u128()) },
        burn_fee: Fee { share: d(f[2].u128()) },
    }
}

#[derive(Clone, Debug, Serialize, Deserialize)]
pub enum VaultAsset {
    Native(u8),
    Cw20,
    /// a token-factory denom `factory/<creator>/<sub>`
    Factory(u8),
}

#[derive(Clone, Debug, Serialize, Deserialize)]
pub enum Op {
    CreatePair { which: u8, fees: [Uint128; 3], stable_amp: Option<u64> },
    UpdatePair {
        sel: u16,
        fees: [Uint128; 3],
        /// other (harmless) fields carried by the same message: bit 0 switches (all on / all off by bit 1), bit 2 collector address
        #[serde(default)]
        companions: u8,
    },
    InstantiatePairDirect { fees: [Uint128; 3] },
    CreateTrio { which: u8, fees: [Uint128; 3], amp: u64 },
    UpdateTrio {
        sel: u16,
        fees: Option<[Uint128; 3]>,
        ramp: Option<(u64, u64)>,
        #[serde(default)]
        companions: u8,
    },
    InstantiateTrioDirect { fees: [Uint128; 3], amp: u64 },
    CreateVault { asset: VaultAsset, fees: [Uint128; 3] },
    UpdateVault {
        sel: u16,
        fees: [Uint128; 3],
        /// bit 0 flash-loan switch, bit 1 its value, bit 2 collector address
        #[serde(default)]
        companions: u8,
    },
    InstantiateVaultDirect { asset: VaultAsset, fees: [Uint128; 3] },
    InstantiateDistributor { grace: u64, duration_ns: u64 },
    UpdateDistributor { sel: u16, grace: Option<u64>, duration_ns: Option<u64> },
    InstantiateLair { growth: Uint128, n_assets: u8, with_cw20: bool },
    UpdateLair {
        sel: u16,
        growth: Uint128,
        /// bit 0 unbonding period, bit 1 fee distributor address
        #[serde(default)]
        companions: u8,
    },
    UpdateCollector {
        take_rate: Uint128,
        /// bit 0 is_take_rate_active given, bit 1 its value, bit 2 DAO address given
        #[serde(default)]
        companions: u8,
    },
    AdvanceBlocks { n: u32 },
}

/// which other fields accompany the bounded field in the same message
fn comp() -> BoxedStrategy<u8> {
    prop_oneof![2 => Just(0u8), 3 => 0u8..8].boxed()
}

fn amp_any() -> BoxedStrategy<u64> {
    prop_oneof![Just(0u64), Just(1), Just(2), Just(100), Just(999_999), Just(1_000_000), Just(1_000_001), Just(u64::MAX), 0u64..2_000_000].boxed()
}

fn grace_any() -> BoxedStrategy<u64> {
    prop_oneof![Just(0u64), Just(1), Just(2), Just(29), Just(30), Just(31), Just(u64::MAX), 0u64..40].boxed()
}

fn duration_any() -> BoxedStrategy<u64> {
    prop_oneof![Just(0u64), Just(1), Just(DAY_NS - 1), Just(DAY_NS), Just(DAY_NS + 1), Just(7 * DAY_NS), 0u64..2 * DAY_NS].boxed()
}

fn growth_any() -> BoxedStrategy<Uint128> {
    prop_oneof![Just(0u128), Just(1), Just(E18 - 1), Just(E18), Just(E18 + 1), Just(2 * E18), 0u128..2 * E18]
        .prop_map(Uint128::new)
        .boxed()
}

fn vasset() -> BoxedStrategy<VaultAsset> {
    prop_oneof![2 => (0u8..4).prop_map(VaultAsset::Native), 1 => Just(VaultAsset::Cw20), 3 => (0u8..3).prop_map(VaultAsset::Factory)].boxed()
}

fn op() -> BoxedStrategy<Op> {
    prop_oneof![
        4 => (0u8..6, boundary_triple(), proptest::option::weighted(0.3, amp_any())).prop_map(|(which, fees, stable_amp)| Op::CreatePair { which, fees, stable_amp }),
        5 => (any::<u16>(), boundary_triple(), comp()).prop_map(|(sel, fees, companions)| Op::UpdatePair { sel, fees, companions }),
        2 => boundary_triple().prop_map(|fees| Op::InstantiatePairDirect { fees }),
        3 => (0u8..4, boundary_triple(), amp_any()).prop_map(|(which, fees, amp)| Op::CreateTrio { which, fees, amp }),
        5 => (any::<u16>(), proptest::option::of(boundary_triple()), proptest::option::of((amp_any(), prop_oneof![Just(0u64), Just(9_999), Just(10_000), Just(10_001), 0u64..30_000])))
            .prop_map(|(sel, fees, ramp)| Op::UpdateTrio { sel, fees, ramp, companions: ((sel >> 3) as u8) & if sel & 1 == 0 { 0 } else { 7 } }),
        2 => (boundary_triple(), amp_any()).prop_map(|(fees, amp)| Op::InstantiateTrioDirect { fees, amp }),
        4 => (vasset(), boundary_triple()).prop_map(|(asset, fees)| Op::CreateVault { asset, fees }),
        6 => (any::<u16>(), boundary_triple(), comp()).prop_map(|(sel, fees, companions)| Op::UpdateVault { sel, fees, companions }),
        2 => (vasset(), boundary_triple()).prop_map(|(asset, fees)| Op::InstantiateVaultDirect { asset, fees }),
        3 => (grace_any(), duration_any()).prop_map(|(grace, duration_ns)| Op::InstantiateDistributor { grace, duration_ns }),
        5 => (any::<u16>(), proptest::option::of(grace_any()), proptest::option::of(duration_any())).prop_map(|(sel, grace, duration_ns)| Op::UpdateDistributor { sel, grace, duration_ns }),
        3 => (growth_any(), 0u8..4, any::<bool>()).prop_map(|(growth, n_assets, with_cw20)| Op::InstantiateLair { growth, n_assets, with_cw20 }),
        4 => (any::<u16>(), growth_any(), comp()).prop_map(|(sel, growth, companions)| Op::UpdateLair { sel, growth, companions }),
        4 => (growth_any(), comp()).prop_map(|(take_rate, companions)| Op::UpdateCollector { take_rate, companions }),
        2 => (1u32..25_000).prop_map(|n| Op::AdvanceBlocks { n }),
    ]
    .boxed()
}

#[derive(Clone, Debug, Serialize, Deserialize)]
pub struct Case {
    pub ops: Vec<Op>,
}

pub struct ConfigBounds;

const NATIVES: [&str; 4] = ["uaaa", "ubbb", "uccc", "uddd"];
const FACTORY_DENOMS: [&str; 3] = [
    "factory/migaloo1qwertyuiopasdfghjklzxcvbnm0123456789abcd/utoken",
    "factory/migaloo1contractaddress00000000000000000000000001/uLP",
    "factory/migaloo1zzzzzzzzzzzzzzzzzzzzzzzzzzzzzzzzzzzzzzzzzzzz/ampWHALE",
];

struct Hub {
    w: World,
    cw20: Addr,
    pairs: Vec<Addr>,
    trios: Vec<Addr>,
    vaults: Vec<(Addr, AssetInfo)>,
    distributors: Vec<(Addr, u64)>,
    lairs: Vec<Addr>,
}

fn fee_ok(a: &Decimal, b: &Decimal, c: &Decimal) -> bool {
    let one = Decimal::one();
    *a < one && *b < one && *c < one && a.atomics().u128() + b.atomics().u128() + c.atomics().u128() < E18
}

impl Hub {
    fn vault_asset(&self, a: &VaultAsset) -> AssetInfo {
        match a {
            VaultAsset::Native(i) => native(NATIVES[(*i % 4) as usize]),
            VaultAsset::Cw20 => token(&self.cw20),
            VaultAsset::Factory(i) => native(FACTORY_DENOMS[(*i % 3) as usize]),
        }
    }

    fn check_all(&self, step: usize, op: &Op) -> TResult {
        for p in &self.pairs {
            let c: pair::ConfigResponse = self.w.query(p, &pair::QueryMsg::Config {}).map_err(Fail::new)?;
            ensure!(
                fee_ok(&c.pool_fees.protocol_fee.share, &c.pool_fees.swap_fee.share, &c.pool_fees.burn_fee.share),
                "step {step} ({op:?}): pair {p} stores fees {:?} (each share and the sum must be below 100%)",
                c.pool_fees
            );
            let info: white_whale_std::pool_network::asset::PairInfo = self.w.query(p, &pair::QueryMsg::Pair {}).map_err(Fail::new)?;
            if let PairType::StableSwap { amp } = info.pair_type {
                ensure!(
                    (1..=1_000_000).contains(&amp),
                    "step {step} ({op:?}): stableswap pair {p} stores amplification {amp} outside [1, 10^6]"
                );
            }
        }
        for t in &self.trios {
            let c: trio::ConfigResponse = self.w.query(t, &trio::QueryMsg::Config {}).map_err(Fail::new)?;
            ensure!(
                fee_ok(&c.pool_fees.protocol_fee.share, &c.pool_fees.swap_fee.share, &c.pool_fees.burn_fee.share),
                "step {step} ({op:?}): trio {t} stores fees {:?}",
                c.pool_fees
            );
            ensure!(
                (1..=1_000_000).contains(&c.initial_amp) && (1..=1_000_000).contains(&c.future_amp),
                "step {step} ({op:?}): trio {t} stores amplification {} -> {} outside [1, 10^6]",
                c.initial_amp,
                c.future_amp
            );
        }
        for (v, asset) in &self.vaults {
            let c: vault::Config = self.w.query(v, &vault::QueryMsg::Config {}).map_err(Fail::new)?;
            ensure!(
                fee_ok(&c.fees.protocol_fee.share, &c.fees.flash_loan_fee.share, &c.fees.burn_fee.share),
                "step {step} ({op:?}): vault {v} stores fees {:?}",
                c.fees
            );
            if let AssetInfo::NativeToken { denom } = asset {
                if denom.starts_with("factory/") {
                    ensure!(
                        c.fees.burn_fee.share.is_zero(),
                        "step {step} ({op:?}): vault {v} over the token-factory asset {denom} has a burn fee of {}",
                        c.fees.burn_fee.share
                    );
                }
            }
        }
        for (dd, min_grace) in &self.distributors {
            let c: fd::Config = self.w.query(dd, &fd::QueryMsg::Config {}).map_err(Fail::new)?;
            let g = c.grace_period.u64();
            ensure!((1..=30).contains(&g), "step {step} ({op:?}): distributor {dd} stores grace period {g} outside [1,30]");
            ensure!(g >= *min_grace, "step {step} ({op:?}): distributor {dd}'s grace period decreased from {min_grace} to {g}");
            ensure!(
                c.epoch_config.duration.u64() >= DAY_NS,
                "step {step} ({op:?}): distributor {dd} stores an epoch duration of {} ns, below one day",
                c.epoch_config.duration
            );
        }
        for l in &self.lairs {
            let c: lair::Config = self.w.query(l, &lair::QueryMsg::Config {}).map_err(Fail::new)?;
            ensure!(c.growth_rate <= Decimal::one(), "step {step} ({op:?}): lair {l} stores growth rate {} > 1", c.growth_rate);
            ensure!(
                c.bonding_assets.len() <= 2 && c.bonding_assets.iter().all(|a| matches!(a, AssetInfo::NativeToken { .. })),
                "step {step} ({op:?}): lair {l} stores bonding assets {:?}",
                c.bonding_assets
            );
        }
        let col = self.w.fee_collector.clone().unwrap();
        let c: fc::Config = self.w.query(&col, &fc::QueryMsg::Config {}).map_err(Fail::new)?;
        ensure!(c.take_rate < Decimal::one(), "step {step} ({op:?}): the collector stores take rate {}", c.take_rate);
        Ok(())
    }
}

impl Check for ConfigBounds {
    type Case = Case;
    fn name(&self) -> &'static str {
        "config_bounds_history"
    }
    fn rule(&self) -> &'static str {
        "random sequences (up to 40/120 steps) of instantiations and updates through every path that can write a bounded parameter — the bounded field alone or accompanied in the same message by the other optional fields of that message (switches, collector / DAO address, take-rate switch, unbonding period): pair fees (factory CreatePair, factory UpdatePairConfig, direct instantiation of the pair code), trio fees and amplification (CreateTrio, UpdateTrioConfig incl. ramps with block advances, direct instantiation), vault fees over native / cw20 / token-factory assets (CreateVault, UpdateVaultConfig, direct instantiation), distributor grace period and epoch duration (instantiate, UpdateConfig), lair growth rate and bonding assets (instantiate with 0..3 assets incl. a cw20, UpdateConfig), collector take rate (UpdateConfig); fee triples and scalars are drawn on, just inside and just outside every bound at 18-decimal granularity (single share = 1 -/+ 1e-18, sums = 1 -/+ 1e-18, grace 0/1/30/31, duration 1 day -/+ 1 ns, amp 0/1/10^6/10^6+1, growth and take rate 1 -/+ 1e-18). After every step the Config of every contract created so far is read back and checked against the documented bounds (incl. grace never decreasing, no burn fee on token-factory vaults); a rejected step leaves the world snapshot unchanged. Non-trivial: >= 1 accepted and >= 1 rejected write of a bounded parameter."
    }
    fn strategy(&self, tier: Tier) -> BoxedStrategy<Case> {
        let max_ops = tier.pick(40usize, 120usize);
        prop::collection::vec(op(), 2..max_ops).prop_map(|ops| Case { ops }).boxed()
    }
    fn cases(&self, tier: Tier) -> u32 {
        tier.pick(20_000, 1_000_000)
    }
    fn min_nontrivial(&self) -> f64 {
        0.2
    }
    fn test(&self, c: &Case, rec: &Rec) -> TResult {
        let mut denoms: Vec<&str> = NATIVES.to_vec();
        denoms.extend(FACTORY_DENOMS.iter());
        denoms.push("uwhale");
        let mut w = World::new_with_fund(&["alice", "bob"], &denoms, 1u128 << 90);
        w.setup_pool_network();
        w.setup_vault_network();
        for dn in NATIVES {
            w.register_native_decimals(dn, 6);
        }
        let cw20 = w.create_cw20_with_fund("cfg", 6, 1u128 << 80);
        let mut h = Hub {
            w,
            cw20,
            pairs: vec![],
            trios: vec![],
            vaults: vec![],
            distributors: vec![],
            lairs: vec![],
        };
        let owner = h.w.owner.clone();
        let col = h.w.fee_collector.clone().unwrap();
        let (mut accepted, mut rejected) = (0, 0);
        for (step, op) in c.ops.iter().enumerate() {
            let snap = h.w.snapshot();
            let ok: bool = match op {
                Op::CreatePair { which, fees, stable_amp } => {
                    let combos = [(0, 1), (0, 2), (0, 3), (1, 2), (1, 3), (2, 3)];
                    let (a, b) = combos[(*which % 6) as usize];
                    let pt = match stable_amp {
                        Some(a) => PairType::StableSwap { amp: *a },
                        None => PairType::ConstantProduct,
                    };
                    match h.w.create_pair([native(NATIVES[a]), native(NATIVES[b])], pfee(fees), pt) {
                        Ok(info) => {
                            h.pairs.push(Addr::unchecked(info.contract_addr));
                            true
                        }
                        Err(_) => false,
                    }
                }
                Op::UpdatePair { sel, fees, companions } => {
                    let tog = if companions & 1 != 0 { let v = companions & 2 == 0; Some(pair::FeatureToggle { withdrawals_enabled: v, deposits_enabled: v, swaps_enabled: v }) } else { None };
                    let ca = if companions & 4 != 0 { Some(col.to_string()) } else { None };
                    if h.pairs.is_empty() {
                        continue;
                    }
                    let p = h.pairs[gen::idx(*sel, h.pairs.len())].clone();
                    let f = h.w.factory.clone().unwrap();
                    // direct pairs are owned by the account that instantiated them
                    let cfg: pair::ConfigResponse = h.w.query(&p, &pair::QueryMsg::Config {}).map_err(Fail::new)?;
                    if cfg.owner == f {
                        h.w.exec(
                            &owner,
                            &f,
                            &factory::ExecuteMsg::UpdatePairConfig { pair_addr: p.to_string(), owner: None, fee_collector_addr: ca.clone(), pool_fees: Some(pfee(fees)), feature_toggle: tog.clone() },
                            &[],
                        )
                        .is_ok()
                    } else {
                        h.w.exec(&cfg.owner, &p, &pair::ExecuteMsg::UpdateConfig { owner: None, fee_collector_addr: ca.clone(), pool_fees: Some(pfee(fees)), feature_toggle: tog.clone() }, &[])
                            .is_ok()
                    }
                }
                Op::InstantiatePairDirect { fees } => {
                    let r = h.w.instantiate(
                        h.w.code.pair,
                        &owner,
                        &pair::InstantiateMsg {
                            asset_infos: [native("uaaa"), native("ubbb")],
                            token_code_id: h.w.code.token,
                            asset_decimals: [6, 6],
                            pool_fees: pfee(fees),
                            fee_collector_addr: col.to_string(),
                            pair_type: PairType::ConstantProduct,
                            token_factory_lp: false,
                        },
                        "direct_pair",
                        None,
                    );
                    match r {
                        Ok(a) => {
                            h.pairs.push(a);
                            true
                        }
                        Err(_) => false,
                    }
                }
                Op::CreateTrio { which, fees, amp } => {
                    let combos = [[0, 1, 2], [0, 1, 3], [0, 2, 3], [1, 2, 3]];
                    let t = combos[(*which % 4) as usize];
                    match h.w.create_trio([native(NATIVES[t[0]]), native(NATIVES[t[1]]), native(NATIVES[t[2]])], tfee(fees), *amp) {
                        Ok(info) => {
                            h.trios.push(Addr::unchecked(info.contract_addr));
                            true
                        }
                        Err(_) => false,
                    }
                }
                Op::UpdateTrio { sel, fees, ramp, companions } => {
                    let tog = if companions & 1 != 0 { let v = companions & 2 == 0; Some(trio::FeatureToggle { withdrawals_enabled: v, deposits_enabled: v, swaps_enabled: v }) } else { None };
                    let ca = if companions & 4 != 0 { Some(col.to_string()) } else { None };
                    if h.trios.is_empty() {
                        continue;
                    }
                    let t = h.trios[gen::idx(*sel, h.trios.len())].clone();
                    let f = h.w.factory.clone().unwrap();
                    let cfg: trio::ConfigResponse = h.w.query(&t, &trio::QueryMsg::Config {}).map_err(Fail::new)?;
                    let height = h.w.app.block_info().height;
                    let r = ramp.map(|(a, db)| trio::RampAmp { future_a: a, future_block: height + db });
                    if cfg.owner == f {
                        h.w.exec(
                            &owner,
                            &f,
                            &factory::ExecuteMsg::UpdateTrioConfig { trio_addr: t.to_string(), owner: None, fee_collector_addr: ca.clone(), pool_fees: fees.as_ref().map(tfee), feature_toggle: tog.clone(), amp_factor: r },
                            &[],
                        )
                        .is_ok()
                    } else {
                        h.w.exec(&cfg.owner, &t, &trio::ExecuteMsg::UpdateConfig { owner: None, fee_collector_addr: ca.clone(), pool_fees: fees.as_ref().map(tfee), feature_toggle: tog.clone(), amp_factor: r }, &[])
                            .is_ok()
                    }
                }
                Op::InstantiateTrioDirect { fees, amp } => {
                    let r = h.w.instantiate(
                        h.w.code.trio,
                        &owner,
                        &trio::InstantiateMsg {
                            asset_infos: [native("uaaa"), native("ubbb"), native("uccc")],
                            token_code_id: h.w.code.token,
                            asset_decimals: [6, 6, 6],
                            pool_fees: tfee(fees),
                            fee_collector_addr: col.to_string(),
                            amp_factor: *amp,
                            token_factory_lp: false,
                        },
                        "direct_trio",
                        None,
                    );
                    match r {
                        Ok(a) => {
                            h.trios.push(a);
                            true
                        }
                        Err(_) => false,
                    }
                }
                Op::CreateVault { asset, fees } => {
                    let info = h.vault_asset(asset);
                    match h.w.create_vault(&info, vfee(fees)) {
                        Ok((v, _)) => {
                            if matches!(asset, VaultAsset::Factory(_)) {
                                rec.class("token_factory_vault_created");
                            }
                            h.vaults.push((v, info));
                            true
                        }
                        Err(e) => {
                            if rec.strict {
                                eprintln!("create vault failed: {e}");
                            }
                            false
                        }
                    }
                }
                Op::UpdateVault { sel, fees, companions } => {
                    if h.vaults.is_empty() {
                        continue;
                    }
                    let (v, info) = h.vaults[gen::idx(*sel, h.vaults.len())].clone();
                    let vf = h.w.vault_factory.clone().unwrap();
                    let cfg: vault::Config = h.w.query(&v, &vault::QueryMsg::Config {}).map_err(Fail::new)?;
                    let params = vault::UpdateConfigParams {
                        flash_loan_enabled: if companions & 1 != 0 { Some(companions & 2 != 0) } else { None },
                        deposit_enabled: None,
                        withdraw_enabled: None,
                        new_owner: None,
                        new_vault_fees: Some(vfee(fees)),
                        new_fee_collector_addr: if companions & 4 != 0 { Some(col.to_string()) } else { None },
                    };
                    if matches!(&info, AssetInfo::NativeToken { denom } if denom.starts_with("factory/")) {
                        rec.class("token_factory_vault_fee_update_attempt");
                    }
                    if cfg.owner == vf {
                        h.w.exec(&owner, &vf, &vault_factory::ExecuteMsg::UpdateVaultConfig { vault_addr: v.to_string(), params }, &[]).is_ok()
                    } else {
                        h.w.exec(&cfg.owner, &v, &vault::ExecuteMsg::UpdateConfig(params), &[]).is_ok()
                    }
                }
                Op::InstantiateVaultDirect { asset, fees } => {
                    let info = h.vault_asset(asset);
                    let r = h.w.instantiate(
                        h.w.code.vault,
                        &owner,
                        &vault::InstantiateMsg {
                            owner: owner.to_string(),
                            asset_info: info.clone(),
                            token_id: h.w.code.token,
                            vault_fees: vfee(fees),
                            fee_collector_addr: col.to_string(),
                            token_factory_lp: false,
                        },
                        "direct_vault",
                        None,
                    );
                    match r {
                        Ok(a) => {
                            h.vaults.push((a, info));
                            true
                        }
                        Err(_) => false,
                    }
                }
                Op::InstantiateDistributor { grace, duration_ns } => {
                    let r = h.w.instantiate(
                        h.w.code.fee_distributor,
                        &owner,
                        &fd::InstantiateMsg {
                            bonding_contract_addr: "alice".to_string(),
                            fee_collector_addr: col.to_string(),
                            grace_period: Uint64::new(*grace),
                            epoch_config: EpochConfig { duration: Uint64::new(*duration_ns), genesis_epoch: Uint64::new(START_TIME_S * 1_000_000_000) },
                            distribution_asset: native("uwhale"),
                        },
                        "distributor",
                        None,
                    );
                    match r {
                        Ok(a) => {
                            h.distributors.push((a, *grace));
                            true
                        }
                        Err(_) => false,
                    }
                }
                Op::UpdateDistributor { sel, grace, duration_ns } => {
                    if h.distributors.is_empty() {
                        continue;
                    }
                    let i = gen::idx(*sel, h.distributors.len());
                    let dd = h.distributors[i].0.clone();
                    let ok = h
                        .w
                        .exec(
                            &owner,
                            &dd,
                            &fd::ExecuteMsg::UpdateConfig {
                                owner: None,
                                bonding_contract_addr: None,
                                fee_collector_addr: None,
                                grace_period: grace.map(Uint64::new),
                                distribution_asset: None,
                                epoch_config: duration_ns.map(|x| EpochConfig { duration: Uint64::new(x), genesis_epoch: Uint64::new(START_TIME_S * 1_000_000_000) }),
                            },
                            &[],
                        )
                        .is_ok();
                    if ok {
                        if let Some(g) = grace {
                            h.distributors[i].1 = h.distributors[i].1.max(*g);
                        }
                    }
                    ok
                }
                Op::InstantiateLair { growth, n_assets, with_cw20 } => {
                    let mut assets: Vec<AssetInfo> = (0..*n_assets as usize).map(|i| native(NATIVES[i % 4])).collect();
                    if *with_cw20 && !assets.is_empty() {
                        assets[0] = token(&h.cw20);
                    }
                    let r = h.w.instantiate(
                        h.w.code.whale_lair,
                        &owner,
                        &lair::InstantiateMsg { unbonding_period: Uint64::new(1_000_000_000), growth_rate: d(growth.u128()), bonding_assets: assets },
                        "lair",
                        None,
                    );
                    match r {
                        Ok(a) => {
                            h.lairs.push(a);
                            true
                        }
                        Err(_) => false,
                    }
                }
                Op::UpdateLair { sel, growth, companions } => {
                    if h.lairs.is_empty() {
                        continue;
                    }
                    let l = h.lairs[gen::idx(*sel, h.lairs.len())].clone();
                    h.w.exec(&owner, &l, &lair::ExecuteMsg::UpdateConfig { owner: None, unbonding_period: if companions & 1 != 0 { Some(Uint64::new(2_000_000_000)) } else { None }, growth_rate: Some(d(growth.u128())), fee_distributor_addr: if companions & 2 != 0 { Some("alice".to_string()) } else { None } }, &[])
                        .is_ok()
                }
                Op::UpdateCollector { take_rate, companions } => h
                    .w
                    .exec(
                        &owner,
                        &col,
                        &fc::ExecuteMsg::UpdateConfig {
                            owner: None,
                            pool_router: None,
                            fee_distributor: None,
                            pool_factory: None,
                            vault_factory: None,
                            take_rate: Some(d(take_rate.u128())),
                            take_rate_dao_address: if companions & 4 != 0 { Some("alice".to_string()) } else { None },
                            is_take_rate_active: if companions & 1 != 0 { Some(companions & 2 != 0) } else { None },
                        },
                        &[],
                    )
                    .is_ok(),
                Op::AdvanceBlocks { n } => {
                    h.w.advance(6_000_000_000, *n as u64);
                    continue;
                }
            };
            if ok {
                accepted += 1;
                rec.class("write_accepted");
            } else {
                rejected += 1;
                rec.class("write_rejected");
                let s2 = h.w.snapshot();
                ensure!(s2 == snap, "step {step} ({op:?}): rejected write changed the world: {}", snap.diff(&s2));
            }
            h.check_all(step, op)?;
        }
        if accepted >= 1 && rejected >= 1 {
            rec.nontrivial(hash_of(c));
            rec.sample(c);
        }
        Ok(())
    }
}

pub fn property() -> Property {
    Property {
        id: "C18",
        checks: vec![Box::new(ConfigBounds)],
        assumptions: vec![
            "token-factory assets are recognised by the `factory/` prefix of the vault's asset denom (the documented structure factory/{creator}/{subdenom})",
            "the two-asset stableswap pair's amp is fixed at creation; it is asserted through the pair's Pair{} query",
            "distributor instances created directly for this check use a dummy bonding contract address (only their configuration is read)",
        ],
    }
}
