//! C09 — fee distributor: epoch ledgers balance, no epoch is paid twice (real lair + distributor +
//! collector; fee inflows are plain transfers of the distribution asset to the collector).

use std::collections::{BTreeMap, BTreeSet};

use cosmwasm_std::{coin, Addr, Uint128, Uint64};
use proptest::prelude::*;
use serde::{Deserialize, Serialize};

use white_whale_std::fee_distributor as fd;

use crate::engine::{gen, hash_of, Check, Fail, Property, Rec, TResult, Tier};
use crate::ensure;
use crate::props::c08::{build_bond_world, BondWorld, DENOMS};
use crate::world::{native, DAY_NS};

#[derive(Clone, Debug, Serialize, Deserialize)]
pub enum Op {
    /// advance to the next epoch boundary (+ extra ns) and create the epoch
    Tick { extra_ns: u64, caller: u8 },
    Inflow { amount: Uint128 },
    Claim { user: u8 },
    Bond { user: u8, denom: u8, amount: Uint128 },
    Unbond { user: u8, denom: u8, k: u16 },
    Withdraw { user: u8, denom: u8 },
    IncreaseGrace { by: u8 },
    Advance { ns: u64 },
    /// every bonder claims, in the given rotation
    ClaimAll { rot: u8 },
    /// the distributor's owner switches the distribution asset (to the second denom or back); later
    /// inflows are in the asset configured at that time. The ledger rules are judged on the first asset
    /// (uwhale) throughout: its remainders must still be rolled over exactly once.
    SwitchDistributionAsset { second: bool },
}

#[derive(Clone, Debug, Serialize, Deserialize)]
pub struct Case {
    pub grace: u64,
    pub ops: Vec<Op>,
}

fn op() -> BoxedStrategy<Op> {
    prop_oneof![
        8 => (prop_oneof![4 => Just(0u64), 1 => Just(1u64), 1 => 0u64..3_600_000_000_000, 1 => Just(DAY_NS)], 0u8..4)
            .prop_map(|(extra_ns, caller)| Op::Tick { extra_ns, caller }),
        6 => gen::amount(1, 1u128 << 80).prop_map(|a| Op::Inflow { amount: Uint128::new(a) }),
        6 => (0u8..4).prop_map(|user| Op::Claim { user }),
        5 => (0u8..4, 0u8..2, gen::amount(1, 1u128 << 70)).prop_map(|(user, denom, a)| Op::Bond { user, denom, amount: Uint128::new(a) }),
        2 => (0u8..4, 0u8..2, prop_oneof![3 => 1u16..=u16::MAX, 2 => Just(u16::MAX)]).prop_map(|(user, denom, k)| Op::Unbond { user, denom, k }),
        1 => (0u8..4, 0u8..2).prop_map(|(user, denom)| Op::Withdraw { user, denom }),
        1 => (1u8..3).prop_map(|by| Op::IncreaseGrace { by }),
        2 => (0u64..DAY_NS).prop_map(|ns| Op::Advance { ns }),
        2 => (0u8..4).prop_map(|rot| Op::ClaimAll { rot }),
        1 => proptest::bool::weighted(0.7).prop_map(|second| Op::SwitchDistributionAsset { second }),
    ]
    .boxed()
}

#[derive(Clone, Debug, PartialEq)]
struct EpochView {
    id: u64,
    start_ns: u64,
    total: u128,
    available: u128,
    claimed: u128,
    has_available_entry: bool,
}

/// the second distribution asset (a bank denom every account of the world is funded with; not bondable)
const SECOND_ASSET: &str = "amp";

fn amount_of(v: &[white_whale_std::pool_network::asset::Asset]) -> u128 {
    v.iter()
        .filter(|a| a.info == native("uwhale"))
        .map(|a| a.amount.u128())
        .sum()
}

fn read_epochs(bw: &BondWorld) -> Result<Vec<EpochView>, Fail> {
    let cur: fd::EpochResponse = bw
        .w
        .query(&bw.dist, &fd::QueryMsg::CurrentEpoch {})
        .map_err(|e| Fail::new(format!("CurrentEpoch query failed: {e}")))?;
    let mut out = vec![];
    for id in 1..=cur.epoch.id.u64() {
        let e: fd::EpochResponse = bw
            .w
            .query(&bw.dist, &fd::QueryMsg::Epoch { id: Uint64::new(id) })
            .map_err(|e| Fail::new(format!("Epoch query failed: {e}")))?;
        for list in [&e.epoch.total, &e.epoch.available, &e.epoch.claimed] {
            for a in list.iter() {
                if a.info != native("uwhale") && a.info != native(SECOND_ASSET) {
                    return Err(Fail::new(format!("epoch {id} carries a foreign asset {}", a.info)));
                }
            }
        }
        out.push(EpochView {
            id,
            start_ns: e.epoch.start_time.nanos(),
            total: amount_of(&e.epoch.total),
            available: amount_of(&e.epoch.available),
            claimed: amount_of(&e.epoch.claimed),
            has_available_entry: !e.epoch.available.is_empty(),
        });
    }
    Ok(out)
}

pub struct DistributorHistory;

impl Check for DistributorHistory {
    type Case = Case;
    fn name(&self) -> &'static str {
        "distributor_epoch_ledgers"
    }
    fn rule(&self) -> &'static str {
        "real whale_lair + fee_distributor + fee_collector (empty factories), distribution asset fixed, grace period 1..5 with increases mid-history, 4 bonders over 2 bonding denoms; up to 50/150 operations {advance to the next boundary (+0 / 1 ns / <1 h / a day late) and create the epoch, fee inflow of arbitrary size to the collector, claim, claim by everybody in rotated order, bond, unbond, withdraw, grace increase, small time advance}. After every step, over Epoch{id} for all ids: claimed + available == total for every epoch still inside the grace window; the epoch leaving the window has its remainder added to the new epoch exactly once (new.total == forwarded + remainder) and its available emptied, and never changes again; distributor balance >= sum of available; each claim pays exactly the ledger decrease (sum of claimed increases == sum of available decreases == balance increase); an address is paid at most once per epoch and never for an epoch that started before its current bonding stint. Non-trivial: an epoch with a non-zero remainder expired and >= 2 bonders claimed."
    }
    fn strategy(&self, tier: Tier) -> BoxedStrategy<Case> {
        let max_ops = tier.pick(50usize, 150usize);
        (1u64..=5, prop::collection::vec(op(), 5..max_ops))
            .prop_map(|(grace, mut ops)| {
                ops.insert(0, Op::Tick { extra_ns: 0, caller: 0 });
                ops.insert(1, Op::Bond { user: 0, denom: 0, amount: Uint128::new(1_000_000) });
                ops.insert(2, Op::Bond { user: 1, denom: 1, amount: Uint128::new(3_000_000) });
                Case { grace, ops }
            })
            .boxed()
    }
    fn cases(&self, tier: Tier) -> u32 {
        tier.pick(16_000, 700_000)
    }
    fn min_nontrivial(&self) -> f64 {
        0.02
    }
    fn test(&self, c: &Case, rec: &Rec) -> TResult {
        let mut bw = build_bond_world(DAY_NS, c.grace).map_err(|e| Fail::new(format!("world build failed: {e}")))?;
        let mut grace = c.grace;
        let mut bonded = [[0u128; 2]; 4];
        // start of the current bonding stint per user (None = nothing bonded)
        let mut stint: [Option<u64>; 4] = [None; 4];
        let mut paid: BTreeSet<(usize, u64)> = BTreeSet::new();
        let mut rolled: BTreeSet<u64> = BTreeSet::new();
        let mut cur_asset: &str = "uwhale";
        let mut frozen: BTreeMap<u64, EpochView> = BTreeMap::new();
        let mut expired_with_remainder = 0;
        let mut claimers: BTreeSet<usize> = BTreeSet::new();
        let mut before = read_epochs(&bw)?;
        for (step, op) in c.ops.iter().enumerate() {
            let dist_bal_before = bw.w.bank(&bw.dist, "uwhale");
            let mut claim_by: Option<(usize, u128)> = None;
            let mut new_epoch_created = false;
            let mut ops_claims: Vec<usize> = vec![];
            match op {
                Op::Tick { extra_ns, caller } => {
                    let cur = before.last().map(|e| e.start_ns).unwrap_or(0);
                    let now = bw.w.now().nanos();
                    let target = if before.is_empty() { now } else { cur + DAY_NS };
                    if target > now {
                        bw.w.advance(target - now, 1);
                    }
                    bw.w.advance(*extra_ns, 1);
                    let who = bw.user(*caller);
                    if bw.new_epoch(&who).is_ok() {
                        new_epoch_created = true;
                        rec.class("new_epoch_ok");
                    } else {
                        rec.class("new_epoch_rejected");
                    }
                }
                Op::Inflow { amount } => {
                    let owner = bw.w.owner.clone();
                    let col = bw.collector.clone();
                    let _ = bw.w.transfer(&owner, &col, &native(cur_asset), amount.u128());
                    if cur_asset != "uwhale" {
                        rec.class("inflow_in_second_distribution_asset");
                    }
                }
                Op::SwitchDistributionAsset { second } => {
                    let owner = bw.w.owner.clone();
                    let d = bw.dist.clone();
                    let want = if *second { SECOND_ASSET } else { "uwhale" };
                    let r = bw.w.exec(
                        &owner,
                        &d,
                        &fd::ExecuteMsg::UpdateConfig {
                            owner: None,
                            bonding_contract_addr: None,
                            fee_collector_addr: None,
                            grace_period: None,
                            distribution_asset: Some(native(want)),
                            epoch_config: None,
                        },
                        &[],
                    );
                    if r.is_ok() {
                        // read back what is configured now
                        let cfg: fd::Config = bw.w.query(&d, &fd::QueryMsg::Config {}).map_err(|e| Fail::unobservable(format!("distributor Config query: {e}")))?;
                        cur_asset = if cfg.distribution_asset == native(SECOND_ASSET) { SECOND_ASSET } else { "uwhale" };
                        rec.class("distribution_asset_switched");
                    }
                }
                Op::Claim { user } => ops_claims.push((*user % 4) as usize),
                Op::ClaimAll { rot } => {
                    for i in 0..4 {
                        ops_claims.push(((i + *rot as usize) % 4) as usize);
                    }
                }
                Op::Bond { user, denom, amount } => {
                    let u = (*user % 4) as usize;
                    let d = (*denom % 2) as usize;
                    let usr = bw.user(*user);
                    let a = amount.u128();
                    if bw.bond(&usr, &native(DENOMS[d]), a, &[coin(a, DENOMS[d])]).is_ok() {
                        rec.class("bond_ok");
                        if bonded[u][0] + bonded[u][1] == 0 {
                            stint[u] = Some(bw.w.now().nanos());
                        }
                        bonded[u][d] += a;
                    }
                }
                Op::Unbond { user, denom, k } => {
                    let u = (*user % 4) as usize;
                    let d = (*denom % 2) as usize;
                    let usr = bw.user(*user);
                    let a = gen::frac(*k, bonded[u][d]);
                    if a > 0 && bw.unbond(&usr, &native(DENOMS[d]), a).is_ok() {
                        rec.class("unbond_ok");
                        bonded[u][d] -= a;
                        if bonded[u][0] + bonded[u][1] == 0 {
                            stint[u] = None;
                        }
                    }
                }
                Op::Withdraw { user, denom } => {
                    let usr = bw.user(*user);
                    let _ = bw.withdraw(&usr, DENOMS[(*denom % 2) as usize]);
                }
                Op::IncreaseGrace { by } => {
                    let owner = bw.w.owner.clone();
                    let d = bw.dist.clone();
                    let to = grace + *by as u64;
                    let r = bw.w.exec(
                        &owner,
                        &d,
                        &fd::ExecuteMsg::UpdateConfig {
                            owner: None,
                            bonding_contract_addr: None,
                            fee_collector_addr: None,
                            grace_period: Some(Uint64::new(to)),
                            distribution_asset: None,
                            epoch_config: None,
                        },
                        &[],
                    );
                    if r.is_ok() {
                        rec.class("grace_increased");
                        grace = to;
                    }
                }
                Op::Advance { ns } => {
                    bw.w.advance(*ns, 1);
                }
            }

            // claims are judged one transaction at a time
            if !ops_claims.is_empty() {
                for u in ops_claims {
                    let usr = bw.user(u as u8);
                    let b0 = bw.w.bank(&usr, "uwhale");
                    let e0 = read_epochs(&bw)?;
                    let d0 = bw.w.bank(&bw.dist, "uwhale");
                    if bw.claim(&usr).is_err() {
                        rec.class("claim_rejected");
                        continue;
                    }
                    rec.class("claim_ok");
                    claimers.insert(u);
                    let got = bw.w.bank(&usr, "uwhale") - b0;
                    let e1 = read_epochs(&bw)?;
                    ensure!(e1.len() == e0.len(), "step {step}: a claim changed the number of epochs");
                    let mut dclaimed = 0u128;
                    let mut davail = 0u128;
                    for (a, b) in e0.iter().zip(e1.iter()) {
                        ensure!(
                            b.total == a.total && b.start_ns == a.start_ns,
                            "step {step}: a claim changed total/start of epoch {}",
                            a.id
                        );
                        ensure!(
                            b.claimed >= a.claimed && b.available <= a.available,
                            "step {step}: claim moved epoch {} ledgers the wrong way: claimed {} -> {}, available {} -> {}",
                            a.id, a.claimed, b.claimed, a.available, b.available
                        );
                        let dc = b.claimed - a.claimed;
                        let da = a.available - b.available;
                        ensure!(dc == da, "step {step}: epoch {}: claimed +{dc} but available -{da}", a.id);
                        if dc > 0 {
                            ensure!(
                                paid.insert((u, a.id)),
                                "step {step}: {usr} was paid a second time for epoch {}",
                                a.id
                            );
                            match stint[u] {
                                Some(s) => ensure!(
                                    a.start_ns >= s,
                                    "step {step}: {usr} was paid {dc} for epoch {} which started at {} before its bonding at {s}",
                                    a.id,
                                    a.start_ns
                                ),
                                None => {
                                    return Err(Fail::new(format!(
                                        "step {step}: {usr} has nothing bonded but was paid {dc} for epoch {}",
                                        a.id
                                    )))
                                }
                            }
                            ensure!(
                                !rolled.contains(&a.id),
                                "step {step}: epoch {} was paid from after it had expired",
                                a.id
                            );
                        }
                        dclaimed += dc;
                        davail += da;
                    }
                    ensure!(
                        got == dclaimed && got == davail,
                        "step {step}: {usr} received {got} but the epoch ledgers moved by {dclaimed} (claimed) / {davail} (available)"
                    );
                    ensure!(
                        d0 - bw.w.bank(&bw.dist, "uwhale") == got,
                        "step {step}: the distributor paid out {} but the claimer received {got}",
                        d0 - bw.w.bank(&bw.dist, "uwhale")
                    );
                    claim_by = Some((u, got));
                }
            }
            let _ = claim_by;

            let after = read_epochs(&bw)?;
            if new_epoch_created {
                ensure!(
                    after.len() == before.len() + 1,
                    "step {step}: NewEpoch succeeded but the number of epochs went {} -> {}",
                    before.len(),
                    after.len()
                );
                let new = after.last().unwrap().clone();
                let forwarded = bw.w.bank(&bw.dist, "uwhale") - dist_bal_before;
                // which epoch leaves the window? the oldest of the last `grace` epochs before creation
                let expiring: Option<&EpochView> = if before.len() as u64 >= grace {
                    Some(&before[before.len() - grace as usize])
                } else {
                    None
                };
                let mut rolled_amount = 0u128;
                if let Some(e) = expiring {
                    let now_e = &after[(e.id - 1) as usize];
                    if !rolled.contains(&e.id) {
                        rolled_amount = e.available;
                        if e.available > 0 {
                            expired_with_remainder += 1;
                            rec.class("expired_with_remainder");
                        }
                        rolled.insert(e.id);
                    } else {
                        // window was widened by a grace increase: an already-rolled epoch is
                        // inside again, its remainder must not be added a second time
                        rolled_amount = e.available;
                        ensure!(
                            e.available == 0,
                            "step {step}: epoch {} expired before but has available {} again",
                            e.id,
                            e.available
                        );
                    }
                    ensure!(
                        now_e.available == 0 && !now_e.has_available_entry,
                        "step {step}: expiring epoch {} still has available {} after the new epoch was created",
                        e.id,
                        now_e.available
                    );
                    frozen.insert(e.id, now_e.clone());
                }
                ensure!(
                    new.total == forwarded + rolled_amount && new.available == new.total && new.claimed == 0,
                    "step {step}: new epoch {} has total {} / available {} / claimed {}, but {forwarded} was forwarded and {rolled_amount} rolled over from epoch {:?}",
                    new.id,
                    new.total,
                    new.available,
                    new.claimed,
                    expiring.map(|e| e.id)
                );
                // all other epochs untouched
                for e in before.iter() {
                    if Some(e.id) == expiring.map(|x| x.id) {
                        continue;
                    }
                    ensure!(
                        &after[(e.id - 1) as usize] == e,
                        "step {step}: creating epoch {} changed epoch {}: {:?} -> {:?}",
                        new.id,
                        e.id,
                        e,
                        after[(e.id - 1) as usize]
                    );
                }
            }
            // invariants over all epochs
            let n = after.len() as u64;
            let mut sum_avail = 0u128;
            for e in &after {
                sum_avail += e.available;
                let in_window = e.id + grace > n;
                if in_window && !rolled.contains(&e.id) {
                    ensure!(
                        e.claimed + e.available == e.total,
                        "step {step} ({op:?}): epoch {}: claimed {} + available {} != total {}",
                        e.id,
                        e.claimed,
                        e.available,
                        e.total
                    );
                }
                if let Some(f) = frozen.get(&e.id) {
                    ensure!(
                        e == f,
                        "step {step} ({op:?}): expired epoch {} changed after expiry: {:?} -> {:?}",
                        e.id,
                        f,
                        e
                    );
                }
            }
            let bal = bw.w.bank(&bw.dist, "uwhale");
            ensure!(
                bal >= sum_avail,
                "step {step} ({op:?}): the distributor holds {bal} but the epochs' available amounts sum to {sum_avail}"
            );
            // ids and start times strictly increasing, gap-free
            for (i, e) in after.iter().enumerate() {
                ensure!(e.id == i as u64 + 1, "step {step}: epoch ids are not gap-free");
                if i > 0 {
                    ensure!(
                        e.start_ns == after[i - 1].start_ns + DAY_NS,
                        "step {step}: epoch {} starts at {} but epoch {} at {}",
                        e.id,
                        e.start_ns,
                        after[i - 1].id,
                        after[i - 1].start_ns
                    );
                }
            }
            before = after;
        }
        if expired_with_remainder >= 1 && claimers.len() >= 2 {
            rec.nontrivial(hash_of(c));
            rec.sample(c);
        }
        Ok(())
    }
}

pub fn property() -> Property {
    Property {
        id: "C09",
        checks: vec![Box::new(DistributorHistory)],
        assumptions: vec![
            "distribution asset and epoch configuration are fixed within a history (they are not in the property's quantifier)",
            "fee inflows are plain transfers of the distribution asset to the collector (the pipeline from pools/vaults is C10)",
            "cw-multi-test 0.16.5 stands in for the chain; block time is owned by the harness",
        ],
    }
}

#[allow(dead_code)]
fn _unused(_: Addr) {}
