//! C05 — vault share price never decreases (stateful, real vault through the real factory).

use proptest::prelude::*;

use crate::engine::{hash_of, Check, Property, Rec, TResult, Tier};
use crate::vaults::{run_history, vcfg, vop, VCase};

pub struct VaultSharePrice;

impl Check for VaultSharePrice {
    type Case = VCase;
    fn name(&self) -> &'static str {
        "vault_share_price_history"
    }
    fn rule(&self) -> &'static str {
        "vault over a native or cw20 asset created through the vault factory, valid fee triple; history of up to 40/100 operations by 4 users and the borrower contract {deposit, withdraw, deposit-then-withdraw, flash loan with a generated borrower program (repay modes, re-entrant deposit/withdraw/collect, nested loans, failure), router loan, fee collection by anyone, fee change through the factory, donation, block advance}; amounts absolute (log-uniform + boundaries) or relative to the vault balance / the sender's balance. After every step: (balance - pending fees) per share not lower (exact), deposits mint <= pro-rata, withdrawals pay <= pro-rata, deposit-then-withdraw <= deposited (vault with shareholders), first deposit locks 1000 shares in the vault, rejected steps leave the world unchanged, fee ledgers equal the model. Non-trivial: >= 1 successful loan with a non-zero protocol fee followed by >= 1 successful share operation."
    }
    fn strategy(&self, tier: Tier) -> BoxedStrategy<VCase> {
        let max_ops = tier.pick(40usize, 100usize);
        (vcfg(), prop::collection::vec(vop(3, 2, 1, 2), 0..max_ops), crate::engine::gen::amount(2000, 1u128 << 100), 0u8..8)
            .prop_map(|(cfg, mut ops, init, shape)| {
                if shape != 0 {
                    ops.insert(
                        0,
                        crate::vaults::VOp::Deposit {
                            user: 0,
                            amt: crate::vaults::VAmt::Abs(cosmwasm_std::Uint128::new(init)),
                        },
                    );
                }
                VCase { cfg, ops }
            })
            .boxed()
    }
    fn cases(&self, tier: Tier) -> u32 {
        tier.pick(30_000, 1_200_000)
    }
    fn min_nontrivial(&self) -> f64 {
        0.02
    }
    fn test(&self, c: &VCase, rec: &Rec) -> TResult {
        let st = run_history(c, rec, true)?;
        if st.share_ops_after_loan >= 1 {
            rec.nontrivial(hash_of(c));
            rec.sample(c);
        }
        Ok(())
    }
}

pub fn property() -> Property {
    Property {
        id: "C05",
        checks: vec![Box::new(VaultSharePrice)],
        assumptions: vec![
            "cw-multi-test 0.16.5 stands in for the chain; a contract panic is a rejected transaction",
            "the borrower is a harness contract executing generated programs; token-factory LP not exercised",
        ],
    }
}
