//! C15 — slippage limits and minimum-receive are enforced (pure, dense around every threshold, with
//! a three-way oracle; plus live swaps and router minimum-receive).

use cosmwasm_std::{Decimal, Uint128};
use proptest::prelude::*;
use serde::{Deserialize, Serialize};

use stableswap_3pool::verif_hooks::assert_slippage_tolerance as trio_assert_slippage;
use terraswap_pair::verif_hooks::assert_slippage_tolerance as pair_assert_slippage;
use white_whale_std::pool_network::asset::{Asset, PairType};
use white_whale_std::pool_network::router;
use white_whale_std::pool_network::swap::assert_max_spread;

use crate::engine::{gen, hash_of, Check, Fail, Property, Rec, TResult, Tier};
use crate::ensure;
use crate::pools::{fees_u, swap_attrs, PairCfg, PairWorld};
use crate::props::c01::{resolve, Amt};
use crate::props::c14::build_chain;
use crate::refmath::{ceil_div, to_u128, u, E18, U};
use crate::world::{dec, native};

pub const HALF: u128 = 500_000_000_000_000_000;
pub const DEFAULT: u128 = 10_000_000_000_000_000;

#[derive(Clone, Debug, PartialEq)]
pub enum Verdict {
    MustAccept,
    MustReject,
    Either,
}

fn effective_spread(max_spread: Option<u128>) -> u128 {
    max_spread.unwrap_or(DEFAULT).min(HALF)
}

/// reference for the no-belief-price rule
fn verdict_plain(ret: u128, spread: u128, s: u128) -> Verdict {
    let total = u(ret) + u(spread);
    // ratio r = spread/total; accept-required iff r ≤ s; reject-required iff r ≥ s + 1e-18
    if u(spread) * u(E18) <= u(s) * total {
        Verdict::MustAccept
    } else if u(spread) * u(E18) >= (u(s) + U::ONE) * total {
        Verdict::MustReject
    } else {
        Verdict::Either
    }
}

/// reference for the belief-price rule: E = offer/p exactly.
fn verdict_belief(offer: u128, ret: u128, p_atomics: u128, s: u128) -> Verdict {
    // E(1−s) ≤ ret  ⇔  offer·1e18·(1e18 − s) ≤ ret·p·1e18   (E = offer·1e18/p)
    let lhs = u(offer) * u(E18) * (u(E18) - u(s));
    let rhs = u(ret) * u(p_atomics) * u(E18);
    if lhs <= rhs {
        return Verdict::MustAccept;
    }
    // reject-required: ret + 1 < (E − ceil(offer/1e18) − 1)·(1 − s − 1e-18) − 1, conservatively
    // evaluated with integers: E_low = floor(offer·1e18/p) − ceil(offer/1e18) − 2
    let e_floor = u(offer) * u(E18) / u(p_atomics);
    let slack = ceil_div(u(offer), u(E18)) + u(2);
    if e_floor <= slack {
        return Verdict::Either;
    }
    let e_low = e_floor - slack;
    let keep = u(E18) - u(s) - U::ONE; // (1 − s − 1e-18) in atomics; s ≤ 0.5 so positive
    // ret + 2 ≤ floor(e_low·keep/1e18)  ⇒ reject required
    if (u(ret) + u(2)) * u(E18) <= e_low * keep {
        Verdict::MustReject
    } else {
        Verdict::Either
    }
}

// ---------------------------------------------------------------------------------------------
// pure: assert_max_spread
// ---------------------------------------------------------------------------------------------

#[derive(Clone, Debug, Serialize, Deserialize)]
pub struct SpreadCase {
    pub belief_atomics: Option<Uint128>,
    pub max_spread_atomics: Option<Uint128>,
    pub offer: Uint128,
    pub ret: Uint128,
    pub spread: Uint128,
}

pub struct MaxSpreadPure;

fn spread_setting() -> BoxedStrategy<Option<u128>> {
    prop_oneof![
        2 => Just(None),
        1 => Just(Some(0u128)),
        1 => Just(Some(DEFAULT - 1)),
        1 => Just(Some(DEFAULT)),
        1 => Just(Some(DEFAULT + 1)),
        1 => Just(Some(HALF - 1)),
        1 => Just(Some(HALF)),
        1 => Just(Some(HALF + 1)),
        1 => Just(Some(E18)),
        1 => Just(Some(7 * E18)),
        3 => (0u128..E18).prop_map(Some),
    ]
    .boxed()
}

impl Check for MaxSpreadPure {
    type Case = SpreadCase;
    fn name(&self) -> &'static str {
        "assert_max_spread_threshold"
    }
    fn rule(&self) -> &'static str {
        "assert_max_spread (package function used by pair and trio swaps) with max_spread in {None, 0, 1% -/+ 1e-18, 50% -/+ 1e-18, 1, 7, random}, with and without belief price; returns log-uniform up to 2^120; the spread (or, with a belief price, the return) is placed on, one and two units above and below the exact threshold, or far from it. Reference in exact rationals: s = min(max_spread or 1%, 50%); no belief price: must accept iff spread/(return+spread) <= s, must reject iff >= s + 1e-18; belief price p: must accept iff return >= (offer/p)(1-s), must reject when return is below that by more than the 18-decimal rounding of 1/p plus two units; inside the band either answer is allowed. Non-trivial: the reference verdict is MustAccept or MustReject and the case lies within 2 units of the threshold."
    }
    fn strategy(&self, _tier: Tier) -> BoxedStrategy<SpreadCase> {
        (
            spread_setting(),
            gen::amount(1, 1u128 << 120),
            proptest::option::weighted(0.5, prop_oneof![
                2 => Just(E18),
                2 => gen::log_uniform(1, 1u128 << 100),
                2 => (E18 / 1000..E18 * 1000),
                1 => Just(0u128),
            ]),
            -3i8..=3,
            any::<bool>(),
            gen::amount(0, 1u128 << 120),
        )
            .prop_map(|(ms, ret, belief, off, far, rnd)| {
                let s = effective_spread(ms);
                match belief {
                    None => {
                        // threshold spread*: spread/(ret+spread) = s  ⇔ spread = s·ret/(1−s)
                        let star = if s >= E18 { u128::MAX >> 8 } else { to_u128(u(s) * u(ret) / (u(E18) - u(s))).unwrap_or(u128::MAX >> 8) };
                        let spread = if far { rnd } else { (star as i128 + off as i128).max(0) as u128 };
                        SpreadCase {
                            belief_atomics: None,
                            max_spread_atomics: ms.map(Uint128::new),
                            offer: Uint128::new(rnd.max(1)),
                            ret: Uint128::new(ret),
                            spread: Uint128::new(spread),
                        }
                    }
                    Some(p) => {
                        // offer random; return placed around E(1−s)
                        let offer = rnd.max(1);
                        let r = if p == 0 {
                            ret
                        } else {
                            let e = u(offer) * u(E18) / u(p);
                            let star = to_u128((e * (u(E18) - u(s)) / u(E18)).min(u(u128::MAX >> 4))).unwrap();
                            if far { ret } else { (star as i128 + off as i128).max(0) as u128 }
                        };
                        SpreadCase {
                            belief_atomics: Some(Uint128::new(p)),
                            max_spread_atomics: ms.map(Uint128::new),
                            offer: Uint128::new(offer),
                            ret: Uint128::new(r),
                            spread: Uint128::new(ret % 1000),
                        }
                    }
                }
            })
            .boxed()
    }
    fn cases(&self, tier: Tier) -> u32 {
        tier.pick(3_000_000, 300_000_000)
    }
    fn min_nontrivial(&self) -> f64 {
        0.05
    }
    fn test(&self, c: &SpreadCase, rec: &Rec) -> TResult {
        let ms = c.max_spread_atomics.map(|m| m.u128());
        let s = effective_spread(ms);
        let (offer, ret, spread) = (c.offer.u128(), c.ret.u128(), c.spread.u128());
        let cc = c.clone();
        let got = std::panic::catch_unwind(move || {
            assert_max_spread(
                cc.belief_atomics.map(|p| Decimal::new(p)),
                cc.max_spread_atomics.map(|m| Decimal::new(m)),
                cc.offer,
                cc.ret,
                cc.spread,
            )
        });
        let accepted = matches!(got, Ok(Ok(())));
        let verdict = match c.belief_atomics.map(|p| p.u128()) {
            None => {
                if ret.checked_add(spread).map(|t| t == 0).unwrap_or(true) {
                    rec.class("degenerate_zero_or_overflow");
                    return Ok(());
                }
                verdict_plain(ret, spread, s)
            }
            Some(0) => {
                ensure!(!accepted, "a zero belief price was accepted");
                rec.class("zero_belief_price_rejected");
                return Ok(());
            }
            Some(p) => {
                // the contract computes offer·(1/p) in 128 bits; outside that range only rejection
                // (an abort) can happen, which the property does not forbid
                let e = u(offer) * u(E18) / u(p);
                if e.bits() > 127 || (u(E18) * u(E18) / u(p)).bits() > 127 {
                    rec.class("belief_out_of_128_bit_range");
                    return Ok(());
                }
                verdict_belief(offer, ret, p, s)
            }
        };
        match verdict {
            Verdict::MustAccept => {
                rec.class("must_accept");
                rec.nontrivial(hash_of(c));
                rec.sample(c);
                ensure!(
                    accepted,
                    "within the limit but rejected: belief {:?}, max_spread {:?} (effective {s}), offer {offer}, return {ret}, spread {spread}: {got:?}",
                    c.belief_atomics,
                    c.max_spread_atomics
                );
            }
            Verdict::MustReject => {
                rec.class("must_reject");
                rec.nontrivial(hash_of(c));
                ensure!(
                    !accepted,
                    "beyond the limit but accepted: belief {:?}, max_spread {:?} (effective {s}), offer {offer}, return {ret}, spread {spread}",
                    c.belief_atomics,
                    c.max_spread_atomics
                );
            }
            Verdict::Either => rec.class("inside_granularity_band"),
        }
        Ok(())
    }
}

// ---------------------------------------------------------------------------------------------
// pure: the spread figure the limit is enforced on (constant product)
// ---------------------------------------------------------------------------------------------

pub struct SpreadFigure;

impl Check for SpreadFigure {
    type Case = crate::props::c02::Case;
    fn name(&self) -> &'static str {
        "reported_spread_is_the_price_impact"
    }
    fn rule(&self) -> &'static str {
        "constant-product compute_swap through the hook over the C02 input domain (reserves and offers in [1,2^128), extreme-ratio shapes, valid fee triples): the spread_amount it reports — the figure max_spread is enforced on, and which the live checks read back from the swap's attributes — must equal the price impact max(0, floor(offer * floor(ask_pool*1e18/offer_pool) / 1e18) - gross return), computed independently in 1024-bit integers, up to one base unit plus the 18-decimal granularity of the rate (offer/1e18). Non-trivial: the computation succeeded and the spread is positive."
    }
    fn strategy(&self, tier: Tier) -> BoxedStrategy<Self::Case> {
        crate::props::c02::CpSwapExact.strategy(tier)
    }
    fn cases(&self, tier: Tier) -> u32 {
        tier.pick(1_000_000, 60_000_000)
    }
    fn min_nontrivial(&self) -> f64 {
        0.05
    }
    fn test(&self, c: &Self::Case, rec: &Rec) -> TResult {
        use crate::props::c02::{call, Out};
        let (op, ap, offer) = (c.offer_pool.u128(), c.ask_pool.u128(), c.offer.u128());
        let fees = [c.fees[0].u128(), c.fees[1].u128(), c.fees[2].u128()];
        if let Out::Ok { spread, .. } = call(op, ap, offer, fees, c.decimals) {
            let reference = crate::refmath::cp_swap(op, ap, offer, fees);
            if spread > 0 {
                rec.nontrivial(hash_of(c));
                rec.sample(c);
            }
            // tolerance: one base unit plus the 18-decimal granularity of the rate on this offer — a
            // different but equally valid rounding of the rate must not be reported
            let tol = u(1) + u(offer) / u(E18);
            let diff = if u(spread) > reference.spread { u(spread) - reference.spread } else { reference.spread - u(spread) };
            ensure!(
                diff <= tol,
                "spread {spread} differs from the price impact max(0, floor(offer*floor(ask*1e18/offer_pool)/1e18) - gross) = {} by more than {tol} (offer_pool={op} ask_pool={ap} offer={offer})",
                reference.spread
            );
            rec.class("spread_compared");
        } else {
            rec.class("not_computed");
        }
        Ok(())
    }
}

// ---------------------------------------------------------------------------------------------
// pure: deposit slippage tolerance (pair constant product / stableswap, trio)
// ---------------------------------------------------------------------------------------------

#[derive(Clone, Debug, Serialize, Deserialize)]
pub struct DepositCase {
    /// 0 = pair constant product, 1 = pair stableswap, 2 = trio
    pub kind: u8,
    pub tolerance_atomics: Option<Uint128>,
    pub deposits: [Uint128; 3],
    pub pools: [Uint128; 3],
    pub minted: Uint128,
    pub supply: Uint128,
}

pub struct DepositSlippagePure;

/// A·(1−t) vs B as exact rationals (a_n/a_d, b_n/b_d): accept-required iff A(1−t) ≤ B − 1e-18,
/// reject-required iff A(1−t) − 2e-18 ≥ B.
fn ratio_verdict(a_n: U, a_d: U, b_n: U, b_d: U, t: u128) -> Verdict {
    // compare in units of 1e-18: L = A(1−t)·1e18 = a_n(1e18−t)/a_d ; R = b_n·1e18/b_d
    // L ≤ R − 1  ⇔  a_n(1e18−t)·b_d + a_d·b_d ≤ b_n·1e18·a_d
    let l = a_n * (u(E18) - u(t)) * b_d;
    let r = b_n * u(E18) * a_d;
    let unit = a_d * b_d;
    if l + unit <= r {
        Verdict::MustAccept
    } else if l >= r + u(2) * unit {
        Verdict::MustReject
    } else {
        Verdict::Either
    }
}

impl Check for DepositSlippagePure {
    type Case = DepositCase;
    fn name(&self) -> &'static str {
        "deposit_slippage_tolerance_threshold"
    }
    fn rule(&self) -> &'static str {
        "assert_slippage_tolerance of the pair (constant-product ratio test in both directions; stableswap pool-ratio vs deposit-ratio test) and of the trio through the hooks; tolerance in {None, 0, 1e-18, 1%, 50%, 1 - 1e-18, 1, 1 + 1e-18, random}; pools/deposits/minted/supply log-uniform up to 2^100 with the decisive quantity placed on / around the exact threshold or far from it. Reference in exact rationals with a three-way verdict (18-decimal granularity band). tolerance > 1 must be rejected. Non-trivial: verdict MustAccept or MustReject with a tolerance given."
    }
    fn strategy(&self, _tier: Tier) -> BoxedStrategy<DepositCase> {
        let tol = prop_oneof![
            1 => Just(None),
            1 => Just(Some(0u128)),
            1 => Just(Some(1u128)),
            2 => Just(Some(DEFAULT)),
            1 => Just(Some(HALF)),
            1 => Just(Some(E18 - 1)),
            1 => Just(Some(E18)),
            1 => Just(Some(E18 + 1)),
            4 => (0u128..E18).prop_map(Some),
        ];
        let a = || gen::log_uniform(1, 1u128 << 100);
        (0u8..3, tol, [a(), a(), a()], [a(), a(), a()], a(), a(), -2i8..=2, any::<bool>())
            .prop_map(|(kind, t, d, p, minted, supply, off, far)| {
                let mut d = d;
                let mut minted = minted;
                let tt = t.unwrap_or(0).min(E18);
                if !far {
                    if kind == 0 {
                        // place d0 at the threshold of clause 1: d0/d1·(1−t) = p0/p1 ⇒ d0 = p0·d1/(p1(1−t))
                        if tt < E18 {
                            let star = u(p[0]) * u(d[1]) * u(E18) / (u(p[1]) * (u(E18) - u(tt)));
                            d[0] = (to_u128(star.min(u(1u128 << 110))).unwrap() as i128 + off as i128).max(1) as u128;
                        }
                    } else {
                        // deposit_ratio = Σd/minted at pool_ratio·(1−t): minted = Σd·supply/(Σp(1−t))
                        let n = if kind == 1 { 2 } else { 3 };
                        let sd: U = d.iter().take(n).fold(U::ZERO, |acc, x| acc + u(*x));
                        let sp: U = p.iter().take(n).fold(U::ZERO, |acc, x| acc + u(*x));
                        if tt < E18 {
                            let star = sd * u(supply) * u(E18) / (sp * (u(E18) - u(tt)));
                            minted = (to_u128(star.min(u(1u128 << 110))).unwrap() as i128 + off as i128).max(1) as u128;
                        }
                    }
                }
                DepositCase {
                    kind,
                    tolerance_atomics: t.map(Uint128::new),
                    deposits: [Uint128::new(d[0]), Uint128::new(d[1]), Uint128::new(d[2])],
                    pools: [Uint128::new(p[0]), Uint128::new(p[1]), Uint128::new(p[2])],
                    minted: Uint128::new(minted),
                    supply: Uint128::new(supply),
                }
            })
            .boxed()
    }
    fn cases(&self, tier: Tier) -> u32 {
        tier.pick(2_000_000, 200_000_000)
    }
    fn min_nontrivial(&self) -> f64 {
        0.05
    }
    fn test(&self, c: &DepositCase, rec: &Rec) -> TResult {
        let t = c.tolerance_atomics.map(|t| t.u128());
        let d = [c.deposits[0].u128(), c.deposits[1].u128(), c.deposits[2].u128()];
        let p = [c.pools[0].u128(), c.pools[1].u128(), c.pools[2].u128()];
        let mk = |i: usize| Asset {
            info: native(["ua", "ub", "uc"][i]),
            amount: c.pools[i],
        };
        let cc = c.clone();
        let tol = t.map(Decimal::new_from_u128_atomics);
        let got: Result<bool, ()> = match c.kind {
            0 | 1 => {
                let pools = [mk(0), mk(1)];
                let pt = if c.kind == 0 { PairType::ConstantProduct } else { PairType::StableSwap { amp: 100 } };
                std::panic::catch_unwind(move || {
                    pair_assert_slippage(&tol, &[cc.deposits[0], cc.deposits[1]], &pools, pt, cc.minted, cc.supply).is_ok()
                })
                .map_err(|_| ())
            }
            _ => {
                let pools = [mk(0), mk(1), mk(2)];
                std::panic::catch_unwind(move || trio_assert_slippage(&tol, &cc.deposits, &pools, cc.minted, cc.supply).is_ok()).map_err(|_| ())
            }
        };
        let accepted = got == Ok(true);
        let Some(t) = t else {
            ensure!(accepted, "a deposit without a slippage tolerance was rejected by the slippage assertion");
            rec.class("no_tolerance_accepted");
            return Ok(());
        };
        if t > E18 {
            ensure!(!accepted, "slippage tolerance {t} > 1 accepted");
            rec.class("tolerance_above_one_rejected");
            return Ok(());
        }
        let verdict = match c.kind {
            0 => {
                let v1 = ratio_verdict(u(d[0]), u(d[1]), u(p[0]), u(p[1]), t);
                let v2 = ratio_verdict(u(d[1]), u(d[0]), u(p[1]), u(p[0]), t);
                if v1 == Verdict::MustReject || v2 == Verdict::MustReject {
                    Verdict::MustReject
                } else if v1 == Verdict::MustAccept && v2 == Verdict::MustAccept {
                    Verdict::MustAccept
                } else {
                    Verdict::Either
                }
            }
            k => {
                let n = if k == 1 { 2 } else { 3 };
                let sd: U = d.iter().take(n).fold(U::ZERO, |acc, x| acc + u(*x));
                let sp: U = p.iter().take(n).fold(U::ZERO, |acc, x| acc + u(*x));
                // reject iff pool_ratio(1−t) > deposit_ratio
                ratio_verdict(sp, u(c.supply.u128()), sd, u(c.minted.u128()), t)
            }
        };
        match verdict {
            Verdict::MustAccept => {
                rec.class("must_accept");
                rec.nontrivial(hash_of(c));
                rec.sample(c);
                ensure!(accepted, "deposit within the slippage tolerance was rejected: {c:?} ({got:?})");
            }
            Verdict::MustReject => {
                rec.class("must_reject");
                rec.nontrivial(hash_of(c));
                ensure!(!accepted, "deposit beyond the slippage tolerance was accepted: {c:?}");
            }
            Verdict::Either => rec.class("inside_granularity_band"),
        }
        Ok(())
    }
}

trait DecNew {
    fn new_from_u128_atomics(a: u128) -> Decimal;
}
impl DecNew for Decimal {
    fn new_from_u128_atomics(a: u128) -> Decimal {
        Decimal::new(Uint128::new(a))
    }
}

// ---------------------------------------------------------------------------------------------
// live deposits with a slippage tolerance (constant-product pair)
// ---------------------------------------------------------------------------------------------

#[derive(Clone, Debug, Serialize, Deserialize)]
pub struct LiveDeposit {
    pub user: u8,
    /// amount of the pool's second asset
    pub d1: Uint128,
    pub tolerance_atomics: Option<Uint128>,
    /// amount of the pool's first asset: the exact threshold of the ratio test plus `off`, or `far`
    pub off: i8,
    pub far: Option<Uint128>,
    /// list the assets in the message in the opposite order to the pool's own
    pub reversed: bool,
}

#[derive(Clone, Debug, Serialize, Deserialize)]
pub struct LiveDepositCase {
    pub cw20: [bool; 2],
    pub fees: [Uint128; 3],
    pub init: (Uint128, Uint128),
    /// an optional swap (direction, k/65536 of the offer reserve) before the deposits, so that the
    /// pool ratio is not the initial one and protocol fees are pending
    pub swap_first: Option<(bool, u16)>,
    pub deposits: Vec<LiveDeposit>,
}

pub struct LiveDepositSlippage;

impl Check for LiveDepositSlippage {
    type Case = LiveDepositCase;
    fn name(&self) -> &'static str {
        "live_deposit_slippage_tolerance"
    }
    fn rule(&self) -> &'static str {
        "constant-product pair (native/cw20 kinds) created through the factory with an initial deposit at a ratio up to 2^20 : 1 either way and an optional swap first; then 1..6 ProvideLiquidity messages with a slippage tolerance in {None, 0, 1e-18, 1%, 50%, 1 - 1e-18, 1, 1 + 1e-18, random}, the first asset's amount placed on / one or two units around the exact threshold of the documented ratio test (deposit ratio x (1 - t) <= pool ratio, both ways round) or far from it, the assets listed in the message in the pool's order or in the opposite order. Reference verdict from the reported reserves in exact rationals (three-way, 18-decimal band): a deposit beyond the tolerance must not succeed, a deposit within it must not be rejected with the slippage error, no tolerance never fails for slippage, a tolerance > 1 is rejected. Non-trivial: a forced verdict (MustAccept or MustReject) was exercised with the assets listed in the opposite order on a pool that is not 1:1."
    }
    fn strategy(&self, _tier: Tier) -> BoxedStrategy<LiveDepositCase> {
        let tol = prop_oneof![
            1 => Just(None),
            1 => Just(Some(0u128)),
            1 => Just(Some(1u128)),
            3 => Just(Some(DEFAULT)),
            2 => Just(Some(HALF)),
            1 => Just(Some(E18 - 1)),
            1 => Just(Some(E18)),
            1 => Just(Some(E18 + 1)),
            4 => (0u128..E18).prop_map(Some),
        ];
        let dep = (
            0u8..4,
            gen::log_uniform(1, 1u128 << 60),
            tol,
            -2i8..=2,
            proptest::option::weighted(0.3, gen::log_uniform(1, 1u128 << 70)),
            any::<bool>(),
        )
            .prop_map(|(user, d1, t, off, far, reversed)| LiveDeposit {
                user,
                d1: Uint128::new(d1),
                tolerance_atomics: t.map(Uint128::new),
                off,
                far: far.map(Uint128::new),
                reversed,
            });
        (
            any::<[bool; 2]>(),
            gen::small_fee_triple(),
            gen::log_uniform(100_000, 1u128 << 60),
            0u32..21,
            any::<bool>(),
            proptest::option::weighted(0.5, (any::<bool>(), 1u16..20000)),
            prop::collection::vec(dep, 1..6),
        )
            .prop_map(|(cw20, f, base, sh, flip, swap_first, deposits)| {
                let other = (base >> sh).max(1000);
                LiveDepositCase {
                    cw20,
                    fees: [Uint128::new(f[0]), Uint128::new(f[1]), Uint128::new(f[2])],
                    init: if flip { (Uint128::new(other), Uint128::new(base)) } else { (Uint128::new(base), Uint128::new(other)) },
                    swap_first,
                    deposits,
                }
            })
            .boxed()
    }
    fn cases(&self, tier: Tier) -> u32 {
        tier.pick(10_000, 800_000)
    }
    fn min_nontrivial(&self) -> f64 {
        0.05
    }
    fn test(&self, c: &LiveDepositCase, rec: &Rec) -> TResult {
        let cfg = PairCfg { cw20: c.cw20, decimals: [6, 6], fees: c.fees, amp: None };
        let mut pw = PairWorld::build(&cfg).map_err(|e| Fail::new(format!("world build failed: {e}")))?;
        let u0 = pw.user(0);
        if pw.provide(&u0, [c.init.0.u128(), c.init.1.u128()], None, None).is_err() {
            rec.class("init_rejected");
            return Ok(());
        }
        if let Some((dir, k)) = c.swap_first {
            let v = pw.view().map_err(Fail::new)?;
            let oi = if dir { 1 } else { 0 };
            let u1 = pw.user(1);
            let _ = pw.swap(&u1, oi, gen::frac(k, v.reserves[oi]).max(1), None, Some(dec(HALF)), None);
        }
        for (step, d) in c.deposits.iter().enumerate() {
            let v = pw.view().map_err(|e| Fail::new(format!("Pool query failed: {e}")))?;
            let p = [v.reserves[0], v.reserves[1]];
            if p[0] == 0 || p[1] == 0 {
                break;
            }
            let t = d.tolerance_atomics.map(|t| t.u128());
            let tt = t.unwrap_or(0).min(E18);
            let d1 = d.d1.u128();
            let d0 = match d.far {
                Some(f) => f.u128(),
                None if tt < E18 => {
                    let star = u(p[0]) * u(d1) * u(E18) / (u(p[1]) * (u(E18) - u(tt)));
                    (to_u128(star.min(u(1u128 << 100))).unwrap() as i128 + d.off as i128).max(1) as u128
                }
                None => (u(p[0]) * u(d1) / u(p[1])).min(u(1u128 << 100)).try_into().map(|x: u128| x.max(1)).unwrap_or(1),
            };
            let usr = pw.user(d.user);
            pw.grant(&usr, [d0, d1]);
            pw.reversed_msgs = d.reversed;
            let r = pw.provide_exec(&usr, [d0, d1], t.map(Decimal::new_from_u128_atomics), None);
            pw.reversed_msgs = false;
            let slippage_err = r.as_ref().err().map(|e| e.contains("Slippage tolerance exceeded")).unwrap_or(false);
            let one_to_one = p[0] == p[1];
            let Some(t) = t else {
                ensure!(!slippage_err, "step {step}: a deposit without a slippage tolerance was rejected for slippage (deposit [{d0}, {d1}], reserves {p:?})");
                rec.class("no_tolerance");
                continue;
            };
            if t > E18 {
                ensure!(r.is_err(), "step {step}: a deposit with slippage tolerance {t} > 1 was accepted");
                rec.class("tolerance_above_one_rejected");
                continue;
            }
            let v1 = ratio_verdict(u(d0), u(d1), u(p[0]), u(p[1]), t);
            let v2 = ratio_verdict(u(d1), u(d0), u(p[1]), u(p[0]), t);
            let verdict = if v1 == Verdict::MustReject || v2 == Verdict::MustReject {
                Verdict::MustReject
            } else if v1 == Verdict::MustAccept && v2 == Verdict::MustAccept {
                Verdict::MustAccept
            } else {
                Verdict::Either
            };
            if verdict != Verdict::Either && d.reversed && !one_to_one {
                rec.nontrivial(hash_of(&(c, step)));
                rec.sample(c);
            }
            match verdict {
                Verdict::MustAccept => {
                    rec.class(if d.reversed { "must_accept_reversed_order" } else { "must_accept_pool_order" });
                    ensure!(
                        !slippage_err,
                        "step {step}: deposit [{d0}, {d1}] into reserves {p:?} is within the slippage tolerance {t} but was rejected for slippage (assets listed in {} order)",
                        if d.reversed { "the opposite" } else { "the pool's" }
                    );
                }
                Verdict::MustReject => {
                    rec.class(if d.reversed { "must_reject_reversed_order" } else { "must_reject_pool_order" });
                    ensure!(
                        r.is_err(),
                        "step {step}: deposit [{d0}, {d1}] into reserves {p:?} is beyond the slippage tolerance {t} but succeeded (assets listed in {} order)",
                        if d.reversed { "the opposite" } else { "the pool's" }
                    );
                }
                Verdict::Either => rec.class("inside_granularity_band"),
            }
        }
        Ok(())
    }
}

// ---------------------------------------------------------------------------------------------
// live swaps with spread limits
// ---------------------------------------------------------------------------------------------

#[derive(Clone, Debug, Serialize, Deserialize)]
pub struct LiveSwap {
    pub user: u8,
    pub dir: bool,
    pub amt: Amt,
    pub max_spread_atomics: Option<Uint128>,
    /// belief price = pool price × k/32768
    pub belief_k: Option<u16>,
}

#[derive(Clone, Debug, Serialize, Deserialize)]
pub struct LiveCase {
    pub cfg: PairCfg,
    pub init: (Uint128, Uint128),
    pub swaps: Vec<LiveSwap>,
}

pub struct LiveSpread;

impl Check for LiveSpread {
    type Case = LiveCase;
    fn name(&self) -> &'static str {
        "live_swap_spread_limits"
    }
    fn rule(&self) -> &'static str {
        "constant-product and stableswap pairs with liquidity; sequences of swaps with generated max_spread settings (None, 0, tight, 1%, 50%, >50%) and belief prices around the pool price. A swap that succeeds must satisfy the realised bound computed from its actual amounts (spread/(gross+spread) <= s, or gross >= (offer/p)(1-s) up to one base unit and the 18-decimal rounding of 1/p); a swap that is rejected although the same swap without a limit succeeds strictly inside the bound is a violation (requests within the limits are not rejected). Non-trivial: both an accepted and a rejected limited swap occurred."
    }
    fn strategy(&self, tier: Tier) -> BoxedStrategy<LiveCase> {
        let n = tier.pick(20usize, 50usize);
        let sw = (
            0u8..4,
            any::<bool>(),
            prop_oneof![4 => (1u16..30000).prop_map(Amt::OfReserve), 1 => gen::amount(1, 1u128 << 70).prop_map(|a| Amt::Abs(Uint128::new(a)))],
            spread_setting(),
            proptest::option::weighted(0.4, 16384u16..49152),
        )
            .prop_map(|(user, dir, amt, ms, belief_k)| LiveSwap {
                user,
                dir,
                amt,
                max_spread_atomics: ms.map(Uint128::new),
                belief_k,
            });
        (
            any::<[bool; 2]>(),
            proptest::option::weighted(0.4, prop_oneof![Just(1u64), Just(100), 1u64..10_000]),
            gen::small_fee_triple(),
            gen::log_uniform(10_000_000, 1u128 << 70),
            0u32..6,
            prop::collection::vec(sw, 2..n),
        )
            .prop_map(|(cw20, amp, f, base, sh, swaps)| LiveCase {
                cfg: PairCfg {
                    cw20,
                    decimals: [6, 6],
                    fees: [Uint128::new(f[0]), Uint128::new(f[1]), Uint128::new(f[2])],
                    amp,
                },
                init: (Uint128::new(base), Uint128::new((base >> sh).max(10_000_000))),
                swaps,
            })
            .boxed()
    }
    fn cases(&self, tier: Tier) -> u32 {
        tier.pick(30_000, 1_500_000)
    }
    fn min_nontrivial(&self) -> f64 {
        0.05
    }
    fn test(&self, c: &LiveCase, rec: &Rec) -> TResult {
        let mut pw = PairWorld::build(&c.cfg).map_err(|e| Fail::new(format!("world build failed: {e}")))?;
        let u0 = pw.user(0);
        if pw.provide(&u0, [c.init.0.u128(), c.init.1.u128()], None, None).is_err() {
            return Ok(());
        }
        let _ = fees_u(&c.cfg.fees);
        let (mut acc, mut rej) = (0, 0);
        for (step, s) in c.swaps.iter().enumerate() {
            let v = pw.view().map_err(|e| Fail::new(format!("Pool query failed: {e}")))?;
            let usr = pw.user(s.user);
            let oi = if s.dir { 1 } else { 0 };
            let ai = 1 - oi;
            let amount = resolve(&s.amt, v.reserves[oi], pw.w.bal(&pw.infos[oi], &usr)).max(1);
            let ms = s.max_spread_atomics.map(|m| m.u128());
            let eff = effective_spread(ms);
            let belief = s.belief_k.and_then(|k| {
                if v.reserves[ai] == 0 {
                    return None;
                }
                // price = offer per ask unit
                Decimal::checked_from_ratio(v.reserves[oi], v.reserves[ai])
                    .ok()
                    .and_then(|p| p.checked_mul(Decimal::from_ratio(k as u128, 32768u128)).ok())
            });
            if let Some(b) = belief {
                if b.is_zero() {
                    continue;
                }
            }
            let r = pw.swap(&usr, oi, amount, belief, ms.map(|m| Decimal::new(Uint128::new(m))), None);
            match r {
                Ok(resp) => {
                    acc += 1;
                    rec.class("limited_swap_accepted");
                    let at = swap_attrs(&resp, &pw.pair).ok_or_else(|| Fail::unobservable("the swap response carries no parsable return / spread / fee attributes"))?;
                    let gross = at.return_amount + at.swap_fee + at.protocol_fee + at.burn_fee;
                    match belief {
                        None => {
                            if gross + at.spread_amount > 0 {
                                ensure!(
                                    verdict_plain(gross, at.spread_amount, eff) != Verdict::MustReject,
                                    "step {step}: swap succeeded with max_spread {:?} (effective {eff}) but spread {} / (gross {gross} + spread) exceeds it",
                                    ms,
                                    at.spread_amount
                                );
                            }
                        }
                        Some(b) => {
                            let pa = b.atomics().u128();
                            let e = u(amount) * u(E18) / u(pa);
                            if e.bits() <= 127 {
                                ensure!(
                                    verdict_belief(amount, gross, pa, eff) != Verdict::MustReject,
                                    "step {step}: swap of {amount} succeeded with belief price {b} and max_spread {:?} (effective {eff}) but the gross return {gross} is below (offer/p)(1-s)",
                                    ms
                                );
                            }
                        }
                    }
                }
                Err(_) => {
                    // would the same swap go through without a limit, strictly inside the bound?
                    let r2 = pw.swap(&usr, oi, amount, None, Some(dec(HALF)), None);
                    if let Ok(resp) = r2 {
                        let at = swap_attrs(&resp, &pw.pair).ok_or_else(|| Fail::unobservable("the swap response carries no parsable return / spread / fee attributes"))?;
                        let gross = at.return_amount + at.swap_fee + at.protocol_fee + at.burn_fee;
                        let inside = match belief {
                            None => gross + at.spread_amount > 0 && verdict_plain(gross, at.spread_amount, eff) == Verdict::MustAccept,
                            Some(b) => {
                                let pa = b.atomics().u128();
                                let e = u(amount) * u(E18) / u(pa);
                                e.bits() <= 127 && (u(E18) * u(E18) / u(pa)).bits() <= 127 && verdict_belief(amount, gross, pa, eff) == Verdict::MustAccept
                            }
                        };
                        ensure!(
                            !inside,
                            "step {step}: swap of {amount} (gross {gross}, spread {}) was rejected with belief {belief:?} / max_spread {:?} (effective {eff}) although it is within the limit",
                            at.spread_amount,
                            ms
                        );
                        rej += 1;
                        rec.class("limited_swap_rejected_beyond_limit");
                    } else {
                        rec.class("swap_rejected_for_other_reasons");
                    }
                }
            }
        }
        if acc >= 1 && rej >= 1 {
            rec.nontrivial(hash_of(c));
            rec.sample(c);
        }
        Ok(())
    }
}

// ---------------------------------------------------------------------------------------------
// live deposits with a slippage tolerance (stableswap pair and three-asset pool)
// ---------------------------------------------------------------------------------------------

#[derive(Clone, Debug, Serialize, Deserialize)]
pub struct StableDeposit {
    pub user: u8,
    /// k/4096 of each reserve, per asset (skewed deposits move the minted amount away from pro-rata)
    pub k: [u16; 3],
    pub tolerance_atomics: Option<Uint128>,
    pub order: u8,
    /// a swap (offer asset, ask asset, k/4096 of the offer reserve) executed right before the deposit, so
    /// that protocol fees are pending in the pool when the tolerance is judged
    #[serde(default)]
    pub swap_before: Option<(u8, u8, u16)>,
}

#[derive(Clone, Debug, Serialize, Deserialize)]
pub struct StableDepositCase {
    pub trio: bool,
    pub cw20: [bool; 3],
    pub amp: u64,
    pub fees: [Uint128; 3],
    pub init: [Uint128; 3],
    pub deposits: Vec<StableDeposit>,
}

pub struct LiveDepositSlippageStable;

impl Check for LiveDepositSlippageStable {
    type Case = StableDepositCase;
    fn name(&self) -> &'static str {
        "live_deposit_slippage_tolerance_stableswap"
    }
    fn rule(&self) -> &'static str {
        "stableswap pair or three-asset pool (native/cw20 kinds, amp 1..10^4) with an initial, possibly unbalanced deposit; then 1..6 ProvideLiquidity messages, half of them preceded by a swap (so that protocol fees are pending when the tolerance is judged), depositing k/4096 of each reserve per asset (balanced, skewed, nearly one-sided) with a slippage tolerance in {None, 0, 1e-18, 0.1%, 1%, 50%, 1, random}, assets listed in any order. Reference: the documented rule (pool ratio = sum of reserves / LP supply, deposit ratio = sum of deposits / LP minted; reject iff pool ratio x (1 - t) > deposit ratio) evaluated in exact rationals from the reported reserves and the LP actually minted, with the three-way 18-decimal band. An accepted deposit must not be MustReject; a deposit rejected for slippage is re-executed without a tolerance in the same state and must not turn out MustAccept. Non-trivial: a forced verdict was exercised."
    }
    fn strategy(&self, _tier: Tier) -> BoxedStrategy<StableDepositCase> {
        let tol = prop_oneof![
            1 => Just(None),
            2 => Just(Some(0u128)),
            1 => Just(Some(1u128)),
            2 => Just(Some(1_000_000_000_000_000u128)),
            2 => Just(Some(DEFAULT)),
            1 => Just(Some(HALF)),
            1 => Just(Some(E18)),
            3 => (0u128..E18 / 50).prop_map(Some),
        ];
        let dep = (0u8..4, [1u16..4096, 0u16..4096, 0u16..4096], tol, 0u8..6, proptest::option::weighted(0.5, (0u8..3, 0u8..3, 1u16..2048)))
            .prop_map(|(user, k, t, order, swap_before)| StableDeposit { user, k, tolerance_atomics: t.map(Uint128::new), order, swap_before });
        (
            any::<bool>(),
            any::<[bool; 3]>(),
            prop_oneof![Just(1u64), Just(100), 1u64..10_000],
            gen::small_fee_triple(),
            gen::log_uniform(10_000_000, 1u128 << 60),
            [0u32..4, 0u32..4],
            prop::collection::vec(dep, 1..6),
        )
            .prop_map(|(trio, cw20, amp, f, base, sh, deposits)| StableDepositCase {
                trio,
                cw20,
                amp,
                fees: [Uint128::new(f[0]), Uint128::new(f[1]), Uint128::new(f[2])],
                init: [Uint128::new(base), Uint128::new((base >> sh[0]).max(10_000_000)), Uint128::new((base >> sh[1]).max(10_000_000))],
                deposits,
            })
            .boxed()
    }
    fn cases(&self, tier: Tier) -> u32 {
        tier.pick(8_000, 500_000)
    }
    fn min_nontrivial(&self) -> f64 {
        0.05
    }
    fn test(&self, c: &StableDepositCase, rec: &Rec) -> TResult {
        use crate::pools::{TrioCfg, TrioWorld};
        enum P {
            Pair(PairWorld),
            Trio(TrioWorld),
        }
        let n = if c.trio { 3 } else { 2 };
        let mut p = if c.trio {
            P::Trio(TrioWorld::build(&TrioCfg { cw20: c.cw20, decimals: [6, 6, 6], fees: c.fees, amp: c.amp }).map_err(|e| Fail::new(format!("world build failed: {e}")))?)
        } else {
            P::Pair(PairWorld::build(&PairCfg { cw20: [c.cw20[0], c.cw20[1]], decimals: [6, 6], fees: c.fees, amp: Some(c.amp) }).map_err(|e| Fail::new(format!("world build failed: {e}")))?)
        };
        let init = [c.init[0].u128(), c.init[1].u128(), c.init[2].u128()];
        let ok = match &mut p {
            P::Pair(pw) => {
                let u0 = pw.user(0);
                pw.provide(&u0, [init[0], init[1]], None, None).is_ok()
            }
            P::Trio(tw) => {
                let u0 = tw.user(0);
                tw.provide(&u0, init, None, None).is_ok()
            }
        };
        if !ok {
            rec.class("init_rejected");
            return Ok(());
        }
        let mut forced = false;
        for (step, d) in c.deposits.iter().enumerate() {
            if let Some((o, a, k)) = d.swap_before {
                let (o, a) = ((o as usize) % n, (a as usize) % n);
                if o != a {
                    let half = Some(Decimal::percent(50));
                    let ok = match &mut p {
                        P::Pair(pw) => {
                            let usr = pw.user(1);
                            let r0 = pw.view().map_err(Fail::new)?.reserves[o];
                            pw.swap(&usr, o, (u(r0) * u(k as u128) / u(4096)).try_into().unwrap_or(0u128).max(1), None, half, None).is_ok()
                        }
                        P::Trio(tw) => {
                            let usr = tw.user(1);
                            let r0 = tw.view().map_err(Fail::new)?.reserves[o];
                            tw.swap(&usr, o, a, (u(r0) * u(k as u128) / u(4096)).try_into().unwrap_or(0u128).max(1), None, half, None).is_ok()
                        }
                    };
                    if ok {
                        rec.class("swap_before_the_deposit_ok");
                    }
                }
            }
            let (reserves, supply) = match &p {
                P::Pair(pw) => {
                    let v = pw.view().map_err(Fail::new)?;
                    (v.reserves.clone(), v.total_share)
                }
                P::Trio(tw) => {
                    let v = tw.view().map_err(Fail::new)?;
                    (v.reserves.clone(), v.total_share)
                }
            };
            let amounts: Vec<u128> = (0..n).map(|i| (u(reserves[i]) * u(d.k[i] as u128) / u(4096)).try_into().unwrap_or(0u128)).collect();
            if amounts.iter().all(|a| *a == 0) || supply == 0 {
                continue;
            }
            let t = d.tolerance_atomics.map(|t| t.u128());
            let tol = t.map(Decimal::new_from_u128_atomics);
            let sp: U = reserves.iter().take(n).fold(U::ZERO, |a, x| a + u(*x));
            let sd: U = amounts.iter().fold(U::ZERO, |a, x| a + u(*x));
            // one attempt with the tolerance; on a slippage rejection, a second one without it
            let mut attempt = |p: &mut P, tol: Option<Decimal>| -> (Result<(), String>, u128) {
                match p {
                    P::Pair(pw) => {
                        let usr = pw.user(d.user);
                        let lp0 = pw.lp_balance(&usr);
                        pw.reversed_msgs = d.order % 2 == 1;
                        let r = pw.provide(&usr, [amounts[0], amounts[1]], tol, None).map(|_| ());
                        pw.reversed_msgs = false;
                        (r, pw.lp_balance(&usr) - lp0)
                    }
                    P::Trio(tw) => {
                        let usr = tw.user(d.user);
                        let lp0 = tw.lp_balance(&usr);
                        tw.msg_order = [[0, 1, 2], [0, 2, 1], [1, 0, 2], [1, 2, 0], [2, 0, 1], [2, 1, 0]][(d.order % 6) as usize];
                        let r = tw.provide(&usr, [amounts[0], amounts[1], amounts[2]], tol, None).map(|_| ());
                        tw.msg_order = [0, 1, 2];
                        (r, tw.lp_balance(&usr) - lp0)
                    }
                }
            };
            let (r, minted) = attempt(&mut p, tol);
            match (&r, t) {
                (Ok(()), Some(t)) if t <= E18 && minted > 0 => {
                    let v = ratio_verdict(sp, u(supply), sd, u(minted), t);
                    rec.class("deposit_with_tolerance_accepted");
                    if v != Verdict::Either {
                        forced = true;
                    }
                    ensure!(
                        v != Verdict::MustReject,
                        "step {step}: deposit {amounts:?} into reserves {reserves:?} (supply {supply}) minted {minted} and was accepted with tolerance {t}, but pool ratio x (1 - t) exceeds the deposit ratio"
                    );
                }
                (Err(e), Some(t)) if t <= E18 && e.contains("Slippage tolerance exceeded") => {
                    rec.class("deposit_rejected_for_slippage");
                    let (r2, minted2) = attempt(&mut p, None);
                    if r2.is_ok() && minted2 > 0 {
                        let v = ratio_verdict(sp, u(supply), sd, u(minted2), t);
                        if v != Verdict::Either {
                            forced = true;
                        }
                        ensure!(
                            v != Verdict::MustAccept,
                            "step {step}: deposit {amounts:?} into reserves {reserves:?} (supply {supply}) mints {minted2} and is within tolerance {t}, but it was rejected for slippage"
                        );
                    }
                }
                (Err(e), None) => {
                    ensure!(!e.contains("Slippage tolerance exceeded"), "step {step}: a deposit without a tolerance was rejected for slippage");
                }
                _ => rec.class("other"),
            }
        }
        if forced {
            rec.nontrivial(hash_of(c));
            rec.sample(c);
        }
        Ok(())
    }
}

// ---------------------------------------------------------------------------------------------
// live swaps with spread limits on the three-asset pool
// ---------------------------------------------------------------------------------------------

#[derive(Clone, Debug, Serialize, Deserialize)]
pub struct LiveSwap3 {
    pub user: u8,
    pub from: u8,
    pub to: u8,
    pub amt: Amt,
    pub max_spread_atomics: Option<Uint128>,
    pub belief_k: Option<u16>,
}

#[derive(Clone, Debug, Serialize, Deserialize)]
pub struct LiveCase3 {
    pub cw20: [bool; 3],
    pub amp: u64,
    pub fees: [Uint128; 3],
    pub init: [Uint128; 3],
    pub swaps: Vec<LiveSwap3>,
}

pub struct LiveSpreadTrio;

impl Check for LiveSpreadTrio {
    type Case = LiveCase3;
    fn name(&self) -> &'static str {
        "live_swap_spread_limits_trio"
    }
    fn rule(&self) -> &'static str {
        "three-asset stableswap pool (native/cw20 kinds, amp 1..10^4, reserves up to 2^70 with imbalance up to 2^5 per asset) with liquidity; sequences of swaps in all six directions with generated max_spread settings (None, 0, tight, 1%, 50%, >50%) and belief prices around the ratio of the two reserves. Same rule as for the pairs: a swap that succeeds satisfies the realised bound computed from its own reported amounts; a swap that is rejected although the same swap without a limit succeeds strictly inside the bound is a violation. Non-trivial: both an accepted and a rejected limited swap occurred."
    }
    fn strategy(&self, tier: Tier) -> BoxedStrategy<LiveCase3> {
        let n = tier.pick(16usize, 40usize);
        let sw = (
            0u8..4,
            0u8..3,
            1u8..3,
            prop_oneof![4 => (1u16..30000).prop_map(Amt::OfReserve), 1 => gen::amount(1, 1u128 << 70).prop_map(|a| Amt::Abs(Uint128::new(a)))],
            spread_setting(),
            proptest::option::weighted(0.4, 16384u16..49152),
        )
            .prop_map(|(user, from, d, amt, ms, belief_k)| LiveSwap3 { user, from, to: (from + d) % 3, amt, max_spread_atomics: ms.map(Uint128::new), belief_k });
        (
            any::<[bool; 3]>(),
            prop_oneof![Just(1u64), Just(100), 1u64..10_000],
            gen::small_fee_triple(),
            gen::log_uniform(10_000_000, 1u128 << 70),
            [0u32..6, 0u32..6],
            prop::collection::vec(sw, 2..n),
        )
            .prop_map(|(cw20, amp, f, base, sh, swaps)| LiveCase3 {
                cw20,
                amp,
                fees: [Uint128::new(f[0]), Uint128::new(f[1]), Uint128::new(f[2])],
                init: [Uint128::new(base), Uint128::new((base >> sh[0]).max(10_000_000)), Uint128::new((base >> sh[1]).max(10_000_000))],
                swaps,
            })
            .boxed()
    }
    fn cases(&self, tier: Tier) -> u32 {
        tier.pick(12_000, 600_000)
    }
    fn min_nontrivial(&self) -> f64 {
        0.05
    }
    fn test(&self, c: &LiveCase3, rec: &Rec) -> TResult {
        use crate::pools::{TrioCfg, TrioWorld};
        let mut tw = TrioWorld::build(&TrioCfg { cw20: c.cw20, decimals: [6, 6, 6], fees: c.fees, amp: c.amp }).map_err(|e| Fail::new(format!("world build failed: {e}")))?;
        let u0 = tw.user(0);
        if tw.provide(&u0, [c.init[0].u128(), c.init[1].u128(), c.init[2].u128()], None, None).is_err() {
            return Ok(());
        }
        let (mut acc, mut rej) = (0, 0);
        for (step, s) in c.swaps.iter().enumerate() {
            let v = tw.view().map_err(|e| Fail::new(format!("Pool query failed: {e}")))?;
            let usr = tw.user(s.user);
            let (oi, ai) = ((s.from % 3) as usize, (s.to % 3) as usize);
            if oi == ai {
                continue;
            }
            let amount = resolve(&s.amt, v.reserves[oi], tw.w.bal(&tw.infos[oi], &usr)).max(1);
            let ms = s.max_spread_atomics.map(|m| m.u128());
            let eff = effective_spread(ms);
            let belief = s.belief_k.and_then(|k| {
                if v.reserves[ai] == 0 {
                    return None;
                }
                Decimal::checked_from_ratio(v.reserves[oi], v.reserves[ai])
                    .ok()
                    .and_then(|p| p.checked_mul(Decimal::from_ratio(k as u128, 32768u128)).ok())
            });
            if let Some(b) = belief {
                if b.is_zero() {
                    continue;
                }
            }
            let r = tw.swap(&usr, oi, ai, amount, belief, ms.map(|m| Decimal::new(Uint128::new(m))), None);
            match r {
                Ok(resp) => {
                    acc += 1;
                    rec.class("limited_swap_accepted");
                    let at = swap_attrs(&resp, &tw.trio).ok_or_else(|| Fail::unobservable("the swap response carries no parsable return / spread / fee attributes"))?;
                    let gross = at.return_amount + at.swap_fee + at.protocol_fee + at.burn_fee;
                    match belief {
                        None => {
                            if gross + at.spread_amount > 0 {
                                ensure!(
                                    verdict_plain(gross, at.spread_amount, eff) != Verdict::MustReject,
                                    "step {step}: trio swap {oi}->{ai} succeeded with max_spread {:?} (effective {eff}) but spread {} / (gross {gross} + spread) exceeds it",
                                    ms,
                                    at.spread_amount
                                );
                            }
                        }
                        Some(b) => {
                            let pa = b.atomics().u128();
                            let e = u(amount) * u(E18) / u(pa);
                            if e.bits() <= 127 {
                                ensure!(
                                    verdict_belief(amount, gross, pa, eff) != Verdict::MustReject,
                                    "step {step}: trio swap {oi}->{ai} of {amount} succeeded with belief price {b} and max_spread {:?} (effective {eff}) but the gross return {gross} is below (offer/p)(1-s)",
                                    ms
                                );
                            }
                        }
                    }
                }
                Err(_) => {
                    let r2 = tw.swap(&usr, oi, ai, amount, None, Some(dec(HALF)), None);
                    if let Ok(resp) = r2 {
                        let at = swap_attrs(&resp, &tw.trio).ok_or_else(|| Fail::unobservable("the swap response carries no parsable return / spread / fee attributes"))?;
                        let gross = at.return_amount + at.swap_fee + at.protocol_fee + at.burn_fee;
                        let inside = match belief {
                            None => gross + at.spread_amount > 0 && verdict_plain(gross, at.spread_amount, eff) == Verdict::MustAccept,
                            Some(b) => {
                                let pa = b.atomics().u128();
                                let e = u(amount) * u(E18) / u(pa);
                                e.bits() <= 127 && (u(E18) * u(E18) / u(pa)).bits() <= 127 && verdict_belief(amount, gross, pa, eff) == Verdict::MustAccept
                            }
                        };
                        ensure!(
                            !inside,
                            "step {step}: trio swap {oi}->{ai} of {amount} (gross {gross}, spread {}) was rejected with belief {belief:?} / max_spread {:?} (effective {eff}) although it is within the limit",
                            at.spread_amount,
                            ms
                        );
                        rej += 1;
                        rec.class("limited_swap_rejected_beyond_limit");
                    } else {
                        rec.class("swap_rejected_for_other_reasons");
                    }
                }
            }
        }
        if acc >= 1 && rej >= 1 {
            rec.nontrivial(hash_of(c));
            rec.sample(c);
        }
        Ok(())
    }
}

// ---------------------------------------------------------------------------------------------
// router minimum receive
// ---------------------------------------------------------------------------------------------

#[derive(Clone, Debug, Serialize, Deserialize)]
pub struct MinRecvProbe {
    pub start: u8,
    pub hops: u8,
    pub back: bool,
    pub k: u16,
    /// minimum_receive = simulated amount + delta
    pub delta: i8,
    pub recv: Option<u8>,
    pub user: u8,
    /// the receiver is given this much of the final asset beforehand
    pub pre_balance: Uint128,
}

#[derive(Clone, Debug, Serialize, Deserialize)]
pub struct MinRecvCase {
    pub cw20: [bool; 4],
    pub stable: [bool; 3],
    pub fees: [Uint128; 3],
    pub probes: Vec<MinRecvProbe>,
}

pub struct RouterMinimumReceive;

impl Check for RouterMinimumReceive {
    type Case = MinRecvCase;
    fn name(&self) -> &'static str {
        "router_minimum_receive"
    }
    fn rule(&self) -> &'static str {
        "three-pair chain (native/cw20 assets, constant-product/stableswap pairs); 1..3-hop routes executed with minimum_receive = simulated amount + delta, delta in {-3..3} or far, to the sender or to another receiver that already holds a balance of the final asset. A route that succeeds must have increased the receiver's balance by >= minimum_receive; a route whose delivery (known from the simulation, equal to execution by C14) is >= minimum_receive must not be rejected; one whose delivery is below it must be rejected. Non-trivial: both outcomes occurred."
    }
    fn strategy(&self, tier: Tier) -> BoxedStrategy<MinRecvCase> {
        let n = tier.pick(12usize, 30usize);
        let pr = (0u8..4, 1u8..4, any::<bool>(), 1u16..20000, prop_oneof![6 => -3i8..=3, 1 => Just(-100i8), 1 => Just(100i8)], proptest::option::weighted(0.5, 0u8..4), 0u8..4, gen::amount(0, 1u128 << 60))
            .prop_map(|(start, hops, back, k, delta, recv, user, pre)| MinRecvProbe { start, hops, back, k, delta, recv, user, pre_balance: Uint128::new(pre) });
        (any::<[bool; 4]>(), any::<[bool; 3]>(), gen::small_fee_triple(), prop::collection::vec(pr, 2..n))
            .prop_map(|(cw20, stable, f, probes)| MinRecvCase {
                cw20,
                stable,
                fees: [Uint128::new(f[0]), Uint128::new(f[1]), Uint128::new(f[2])],
                probes,
            })
            .boxed()
    }
    fn cases(&self, tier: Tier) -> u32 {
        tier.pick(20_000, 1_000_000)
    }
    fn min_nontrivial(&self) -> f64 {
        0.05
    }
    fn test(&self, c: &MinRecvCase, rec: &Rec) -> TResult {
        let mut cw = build_chain(c.cw20, c.stable, fees_u(&c.fees)).map_err(|e| Fail::new(format!("world build failed: {e}")))?;
        let (mut ok, mut no) = (0, 0);
        for (step, p) in c.probes.iter().enumerate() {
            let s = (p.start % 4) as usize;
            let Some((ops, end)) = cw.ops_for(s, p.hops as usize, p.back) else { continue };
            let who = cw.w.users[(p.user % 4) as usize].clone();
            let first_pair = if p.back { s - 1 } else { s };
            let res = cw.w.bal(&cw.assets[s], &cw.pairs[first_pair]);
            let amount = gen::frac(p.k, res).max(1);
            let sim: Result<router::SimulateSwapOperationsResponse, String> = cw.w.query(
                &cw.router,
                &router::QueryMsg::SimulateSwapOperations {
                    offer_amount: Uint128::new(amount),
                    operations: ops.clone(),
                },
            );
            let Ok(sim) = sim else { continue };
            let a = sim.amount.u128();
            let m = (a as i128 + p.delta as i128).max(0) as u128;
            let receiver = p.recv.map(|r| cw.w.users[(r % 4) as usize].clone()).unwrap_or(who.clone());
            // pre-existing balance of the receiver
            if p.pre_balance.u128() > 0 && receiver != who {
                let owner = cw.w.owner.clone();
                let fa = cw.assets[end].clone();
                let _ = cw.w.transfer(&owner, &receiver, &fa, p.pre_balance.u128());
            }
            let rb = cw.w.bal(&cw.assets[end], &receiver);
            let r = cw.route_exec(&who, s, amount, ops.clone(), Some(m), p.recv.map(|_| &receiver), Some(dec(HALF)));
            match r {
                Ok(_) => {
                    ok += 1;
                    rec.class("min_receive_accepted");
                    let got = cw.w.bal(&cw.assets[end], &receiver) - rb;
                    ensure!(
                        got >= m,
                        "step {step}: route succeeded with minimum_receive {m} but the receiver's balance grew by only {got}"
                    );
                }
                Err(e) => {
                    // delivery is a (equal to the simulation by C14); if a >= m the assertion must not
                    // have been the reason: check by running the same route without a minimum
                    let r2 = cw.route_exec(&who, s, amount, ops, None, p.recv.map(|_| &receiver), Some(dec(HALF)));
                    if r2.is_ok() {
                        let got = cw.w.bal(&cw.assets[end], &receiver) - rb;
                        ensure!(
                            got < m,
                            "step {step}: route delivering {got} was rejected with minimum_receive {m}: {e}"
                        );
                        no += 1;
                        rec.class("min_receive_rejected_below_minimum");
                    } else {
                        rec.class("route_rejected_for_other_reasons");
                    }
                }
            }
        }
        if ok >= 1 && no >= 1 {
            rec.nontrivial(hash_of(c));
            rec.sample(c);
        }
        Ok(())
    }
}

pub fn property() -> Property {
    Property {
        id: "C15",
        checks: vec![
            Box::new(MaxSpreadPure),
            Box::new(SpreadFigure),
            Box::new(DepositSlippagePure),
            Box::new(LiveSpread),
            Box::new(LiveDepositSlippage),
            Box::new(LiveSpreadTrio),
            Box::new(LiveDepositSlippageStable),
            Box::new(RouterMinimumReceive),
        ],
        assumptions: vec![
            "three-way oracle: outside the 18-decimal granularity band the verdict is forced, inside it either answer is accepted (Decimal floors are not a defect)",
            "the belief-price rule is judged only where offer/p and 1/p fit the contract's 128-bit / 18-decimal types; elsewhere only rejection can occur",
            "'not rejected for slippage' is tested differentially: the same request is re-executed without the limit in the same state",
        ],
    }
}
