//! C04 — three-asset stableswap: solvent, LP value monotone, amp ramps bounded.

use cosmwasm_std::{Decimal, Uint128};
use proptest::prelude::*;
use serde::{Deserialize, Serialize};

use stableswap_3pool::verif_hooks::{compute_swap as trio_compute_swap, StableSwap};
use white_whale_std::pool_network::trio;

use crate::engine::{gen, hash_of, Check, Fail, Property, Rec, TResult, Tier};
use crate::pools::{fees_u, PoolView, TrioCfg, TrioWorld};
use crate::props::c01::{resolve, Amt};
use crate::refmath::{exact_d3, fee_floor, int_mint3, int_swap3, to_u128, u, U};
use crate::world::{dec, trio_fee};
use crate::{ensure, ensure_sig};

pub const MAX_RES: u128 = 1u128 << 110;

pub const MIN_AMP: u64 = 1;
pub const MAX_AMP: u64 = 1_000_000;
pub const MAX_AMP_CHANGE: u64 = 10;
pub const MIN_RAMP_BLOCKS: u64 = 10_000;

fn amp_strategy() -> BoxedStrategy<u64> {
    prop_oneof![
        4 => gen::log_uniform(1, 1_000_000).prop_map(|a| a as u64),
        2 => prop_oneof![Just(1u64), Just(2), Just(100), Just(1_000_000), Just(85), Just(1000)],
    ]
    .boxed()
}

/// three reserves in [lo, 2^110) with pairwise imbalance ≤ 2^30
fn reserves3(lo: u128) -> BoxedStrategy<[u128; 3]> {
    (gen::log_uniform(lo, MAX_RES - 1), 0u32..=30, 0u32..=30, any::<[u64; 2]>(), 0u8..6)
        .prop_map(move |(base, i1, i2, noise, perm)| {
            let cap = MAX_RES - 1;
            let a = base;
            let b = (base >> i1).max(lo).saturating_add(noise[0] as u128 % (base >> i1).max(1)).min(cap);
            let c = (base >> i2).max(lo).saturating_add(noise[1] as u128 % (base >> i2).max(1)).min(cap);
            let v = [a, b, c];
            let p = [[0, 1, 2], [0, 2, 1], [1, 0, 2], [1, 2, 0], [2, 0, 1], [2, 1, 0]][perm as usize];
            [v[p[0]], v[p[1]], v[p[2]]]
        })
        .boxed()
}

fn d3(r: [u128; 3], amp: u64) -> U {
    exact_d3(u(r[0]), u(r[1]), u(r[2]), amp)
}

/// (D1+1)·S0 ≥ D0·S1
fn per_lp_not_lower(d0: U, d1: U, s0: u128, s1: u128) -> bool {
    (d1 + U::ONE) * u(s0) >= d0 * u(s1)
}

/// Judges "D per LP never decreases" exactly (exact D by bisection). A decrease is the listed
/// finding only when the operation gave out no more than the documented integer Newton scheme
/// (refmath::int_*) gives for the same input, i.e. when the loss is inherent to that scheme's
/// truncating divisions: for a swap the ask reserve fell by no more than the scheme's gross
/// output, for a deposit no more LP was minted than the scheme mints. Every other decrease —
/// whatever its size — is a violation.
pub fn judge_d_per_lp(
    amp: u64,
    before: [u128; 3],
    after: [u128; 3],
    s0: u128,
    s1: u128,
    rec: &Rec,
    what: &str,
) -> TResult {
    let d0 = d3(before, amp);
    let d1 = d3(after, amp);
    if per_lp_not_lower(d0, d1, s0, s1) {
        return Ok(());
    }
    let fallen: Vec<usize> = (0..3).filter(|i| after[*i] < before[*i]).collect();
    let risen: Vec<usize> = (0..3).filter(|i| after[*i] > before[*i]).collect();
    if s1 == s0 && fallen.len() == 1 && risen.len() == 1 {
        let (oi, ai) = (risen[0], fallen[0]);
        let ni = 3 - oi - ai;
        let paid = before[ai] - after[ai];
        let scheme = int_swap3(amp, after[oi] - before[oi], before[oi], before[ai], before[ni]);
        if scheme.map(|g| paid <= g).unwrap_or(false) {
            rec.class("d_fall_inherent_to_integer_scheme_swap");
            return rec.known_or_fail(
                "trio-d-per-lp-rounding",
                format!("{what}: exact D per LP fell ({d0}/{s0} -> {d1}/{s1}, amp {amp}, reserves {before:?} -> {after:?}); the ask reserve fell by {paid} <= {} = gross output of the integer Newton scheme", scheme.unwrap()),
            );
        }
        return Err(Fail::new(format!(
            "{what}: exact D per LP fell: {d0}/{s0} -> {d1}/{s1} (amp {amp}, reserves {before:?} -> {after:?}); the ask reserve fell by {paid}, the integer Newton scheme gives {scheme:?}"
        )));
    }
    if s1 > s0 && fallen.is_empty() {
        let dep = [after[0] - before[0], after[1] - before[1], after[2] - before[2]];
        let scheme = int_mint3(amp, dep, before, s0);
        if scheme.map(|m| s1 - s0 <= m).unwrap_or(false) {
            rec.class("d_fall_inherent_to_integer_scheme_mint");
            return rec.known_or_fail(
                "trio-d-per-lp-rounding",
                format!("{what}: exact D per LP fell ({d0}/{s0} -> {d1}/{s1}, amp {amp}, reserves {before:?} -> {after:?}); minted {} <= {} = mint of the integer Newton scheme", s1 - s0, scheme.unwrap()),
            );
        }
        return Err(Fail::new(format!(
            "{what}: exact D per LP fell: {d0}/{s0} -> {d1}/{s1} (amp {amp}, reserves {before:?} -> {after:?}); minted {}, the integer Newton scheme mints {scheme:?}", s1 - s0
        )));
    }
    Err(Fail::new(format!(
        "{what}: exact D per LP fell: {d0}/{s0} -> {d1}/{s1} (amp {amp}, reserves {before:?} -> {after:?})"
    )))
}

// ---------------------------------------------------------------------------------------------
// pure swap
// ---------------------------------------------------------------------------------------------

#[derive(Clone, Debug, Serialize, Deserialize)]
pub struct SwapCase {
    pub amp: u64,
    /// (offer pool, ask pool, unswapped pool)
    pub pools: [Uint128; 3],
    pub offer: Uint128,
    pub fees: [Uint128; 3],
}

fn swap_to(amp: u64, offer: u128, x: u128, y: u128, z: u128) -> Option<u128> {
    let r = std::panic::catch_unwind(|| {
        StableSwap::new(amp, amp, 0, 0, 0).swap_to(
            Uint128::new(offer),
            Uint128::new(x),
            Uint128::new(y),
            Uint128::new(z),
        )
    });
    match r {
        Ok(Some(s)) => {
            if s.new_source_amount.u128() != x + offer || s.new_destination_amount.u128() != y - s.amount_swapped.u128() {
                return None;
            }
            Some(s.amount_swapped.u128())
        }
        _ => None,
    }
}

pub struct TrioSwapPure;

impl Check for TrioSwapPure {
    type Case = SwapCase;
    fn name(&self) -> &'static str {
        "trio_swap_invariant"
    }
    fn rule(&self) -> &'static str {
        "amp in [1,10^6], three reserves in [1000,2^110) with pairwise imbalance up to 2^30 in every permutation (= all six directions), offers log-uniform in [1,2^110) or relative to the offer reserve, valid fee triples; StableSwap::swap_to and helpers::compute_swap through the hook; oracle: exact D* (bisection on the n=3 invariant polynomial, U1024) must not fall (exactly; a fall is the listed finding only when the operation gave out no more than an independent transcription of the documented integer Newton scheme, any other fall is a violation), amount_swapped <= ask reserve, there-and-back with zero fees returns <= the offer, return+fees == amount_swapped with each fee = floor(share*amount_swapped). Non-trivial: amount_swapped >= 1."
    }
    fn strategy(&self, _tier: Tier) -> BoxedStrategy<SwapCase> {
        (
            amp_strategy(),
            reserves3(1000),
            prop_oneof![
                2 => gen::amount(1, MAX_RES - 1),
                3 => (1u16..u16::MAX).prop_map(|k| (k as u128) | (1u128 << 127)),
            ],
            gen::valid_fee_triple(),
        )
            .prop_map(|(amp, r, offer, fees)| {
                let offer = if offer >> 127 == 1 {
                    let k = offer & 0xFFFF;
                    to_u128((u(r[0]) * u(k) / u(16384)).min(u(MAX_RES - 1))).unwrap().max(1)
                } else {
                    offer
                };
                SwapCase {
                    amp,
                    pools: [Uint128::new(r[0]), Uint128::new(r[1]), Uint128::new(r[2])],
                    offer: Uint128::new(offer),
                    fees: [Uint128::new(fees[0]), Uint128::new(fees[1]), Uint128::new(fees[2])],
                }
            })
            .boxed()
    }
    fn cases(&self, tier: Tier) -> u32 {
        tier.pick(150_000, 15_000_000)
    }
    fn min_nontrivial(&self) -> f64 {
        0.05
    }
    fn test(&self, c: &SwapCase, rec: &Rec) -> TResult {
        let (x, y, z) = (c.pools[0].u128(), c.pools[1].u128(), c.pools[2].u128());
        let dx = c.offer.u128();
        if x + dx >= MAX_RES {
            rec.class("offer_leaves_domain");
            return Ok(());
        }
        let Some(dy) = swap_to(c.amp, dx, x, y, z) else {
            rec.class("not_computed");
            return Ok(());
        };
        if dy >= 1 {
            rec.nontrivial(hash_of(c));
            rec.sample(c);
        }
        ensure!(dy <= y, "amount swapped {dy} exceeds the ask reserve {y}");
        judge_d_per_lp(c.amp, [x, y, z], [x + dx, y - dy, z], 1, 1, rec, "pure swap")?;
        // there and back, zero fees
        if dy >= 1 {
            if let Some(back) = swap_to(c.amp, dy, y - dy, x + dx, z) {
                rec.class("roundtrip_checked");
                // A profit means the pool ends with less of the offer asset and the same of the
                // others, i.e. with a strictly lower exact D: one of the two legs lowered D. Each leg
                // is judged on its own (the first one above): a leg that lowers D by more than the
                // listed rounding class explains is a violation of its own; when both legs stay inside
                // the class, the profit is that class seen from the trader's side.
                if back > dx {
                    judge_d_per_lp(c.amp, [x + dx, y - dy, z], [x + dx - back, y, z], 1, 1, rec, "pure swap back")?;
                    rec.known_or_fail(
                        "trio-there-and-back-rounding",
                        format!("there-and-back profit of {} base units: {dx} -> {dy} -> {back} (amp {}, pools {x}/{y}/{z}); each leg gives out no more than the integer Newton scheme", back - dx, c.amp),
                    )?;
                }
            }
        }
        // fee split through helpers::compute_swap
        let fees = fees_u(&c.fees);
        let r = std::panic::catch_unwind(|| {
            trio_compute_swap(
                Uint128::new(x),
                Uint128::new(y),
                Uint128::new(z),
                Uint128::new(dx),
                trio_fee(fees),
                StableSwap::new(c.amp, c.amp, 0, 0, 0),
            )
        });
        if let Ok(Ok(s)) = r {
            let total = u(s.return_amount.u128())
                + u(s.swap_fee_amount.u128())
                + u(s.protocol_fee_amount.u128())
                + u(s.burn_fee_amount.u128());
            ensure!(
                total == u(dy),
                "return+fees {total} != curve output {dy}"
            );
            ensure!(
                u(s.protocol_fee_amount.u128()) == fee_floor(u(dy), fees[0])
                    && u(s.swap_fee_amount.u128()) == fee_floor(u(dy), fees[1])
                    && u(s.burn_fee_amount.u128()) == fee_floor(u(dy), fees[2]),
                "fee split ({},{},{}) is not the floors of the shares of {dy}",
                s.protocol_fee_amount,
                s.swap_fee_amount,
                s.burn_fee_amount
            );
            rec.class("fee_split_checked");
        }
        Ok(())
    }
}

// ---------------------------------------------------------------------------------------------
// pure mint
// ---------------------------------------------------------------------------------------------

#[derive(Clone, Debug, Serialize, Deserialize)]
pub struct MintCase {
    pub amp: u64,
    pub pools: [Uint128; 3],
    pub deposits: [Uint128; 3],
    pub supply: Uint128,
}

pub struct TrioMintPure;

impl Check for TrioMintPure {
    type Case = MintCase;
    fn name(&self) -> &'static str {
        "trio_mint_invariant"
    }
    fn rule(&self) -> &'static str {
        "amp, reserves as for swaps; deposits absolute or k/4096 of each reserve (balanced, skewed, near one-sided); supply = D of the pool, a third of it, or arbitrary; compute_mint_amount_for_deposit through the hook; oracle: exact D* per LP must not fall (listed finding matched as for swaps: minted <= the integer scheme's mint). Non-trivial: mint > 0."
    }
    fn strategy(&self, _tier: Tier) -> BoxedStrategy<MintCase> {
        (
            amp_strategy(),
            reserves3(1000),
            prop_oneof![
                2 => (gen::amount(1, MAX_RES >> 1), gen::amount(1, MAX_RES >> 1), gen::amount(1, MAX_RES >> 1)).prop_map(|(a, b, c)| (0u8, [a, b, c])),
                3 => any::<[u16; 3]>().prop_map(|k| (1u8, [k[0] as u128, k[1] as u128, k[2] as u128])),
                2 => (any::<u16>(), 0u8..3).prop_map(|(k, i)| { let mut v = [0u128; 3]; v[i as usize] = k as u128; (1u8, v) }),
            ],
            0u8..3,
            gen::amount(3000, 1u128 << 112),
        )
            .prop_map(|(amp, r, (mode, d), smode, sabs)| {
                let mut dep = [0u128; 3];
                for i in 0..3 {
                    dep[i] = if mode == 0 {
                        d[i]
                    } else {
                        to_u128(u(r[i]) * u(d[i]) / u(4096)).unwrap()
                    }
                    .max(1)
                    .min(MAX_RES - 1 - r[i].min(MAX_RES - 2));
                    dep[i] = dep[i].max(1);
                }
                let dd = to_u128(d3(r, amp).min(u(u128::MAX >> 2))).unwrap().max(3000);
                let supply = match smode {
                    0 => dd,
                    1 => dd / 3 + 3000,
                    _ => sabs,
                };
                MintCase {
                    amp,
                    pools: [Uint128::new(r[0]), Uint128::new(r[1]), Uint128::new(r[2])],
                    deposits: [Uint128::new(dep[0]), Uint128::new(dep[1]), Uint128::new(dep[2])],
                    supply: Uint128::new(supply),
                }
            })
            .boxed()
    }
    fn cases(&self, tier: Tier) -> u32 {
        tier.pick(100_000, 10_000_000)
    }
    fn min_nontrivial(&self) -> f64 {
        0.05
    }
    fn test(&self, c: &MintCase, rec: &Rec) -> TResult {
        let p = [c.pools[0].u128(), c.pools[1].u128(), c.pools[2].u128()];
        let d = [c.deposits[0].u128(), c.deposits[1].u128(), c.deposits[2].u128()];
        let amp = c.amp;
        let r = std::panic::catch_unwind(|| {
            StableSwap::new(amp, amp, 0, 0, 0).compute_mint_amount_for_deposit(
                c.deposits[0],
                c.deposits[1],
                c.deposits[2],
                c.pools[0],
                c.pools[1],
                c.pools[2],
                c.supply,
            )
        });
        let m = match r {
            Ok(Some(m)) => m.u128(),
            Ok(None) => {
                rec.class("none");
                return Ok(());
            }
            Err(_) => {
                rec.class("aborted");
                return Ok(());
            }
        };
        if m > 0 {
            rec.nontrivial(hash_of(c));
            rec.sample(c);
        }
        let s0 = c.supply.u128();
        let Some(s1) = s0.checked_add(m) else { return Ok(()) };
        judge_d_per_lp(amp, p, [p[0] + d[0], p[1] + d[1], p[2] + d[2]], s0, s1, rec, "pure mint")
    }
}

// ---------------------------------------------------------------------------------------------
// pure amp ramp
// ---------------------------------------------------------------------------------------------

#[derive(Clone, Debug, Serialize, Deserialize)]
pub struct AmpCase {
    pub initial: u64,
    pub target: u64,
    pub start: u64,
    pub stop: u64,
    pub now: u64,
}

pub fn model_amp(initial: u64, target: u64, start: u64, stop: u64, now: u64) -> u64 {
    if now >= stop {
        return target;
    }
    let range = (stop - start) as u128;
    let delta = (now - start) as u128;
    if target >= initial {
        initial + ((target - initial) as u128 * delta / range) as u64
    } else {
        initial - ((initial - target) as u128 * delta / range) as u64
    }
}

pub struct AmpRampPure;

impl Check for AmpRampPure {
    type Case = AmpCase;
    fn name(&self) -> &'static str {
        "amp_interpolation"
    }
    fn rule(&self) -> &'static str {
        "ramp states (initial, target in [1,10^6]; start < stop block heights; now on / inside / after the ramp incl. start, start+1, stop-1, stop); StableSwap::compute_amp_factor through the hook vs. the linear-interpolation model with integer floor; result must lie between initial and target. Non-trivial: start < now < stop and initial != target."
    }
    fn strategy(&self, _tier: Tier) -> BoxedStrategy<AmpCase> {
        (
            amp_strategy(),
            amp_strategy(),
            0u64..1_000_000_000,
            1u64..50_000_000,
            prop_oneof![
                3 => any::<u32>().prop_map(|k| (0u8, k as u64)),
                1 => (0u64..4).prop_map(|k| (1u8, k)),
                1 => (0u64..100_000).prop_map(|k| (2u8, k)),
            ],
        )
            .prop_map(|(initial, target, start, len, (mode, k))| {
                let stop = start + len;
                let now = match mode {
                    0 => start + (k as u128 * len as u128 >> 32) as u64,
                    1 => [start, start + 1, stop.saturating_sub(1).max(start), stop][k as usize],
                    _ => stop + k,
                };
                AmpCase {
                    initial,
                    target,
                    start,
                    stop,
                    now,
                }
            })
            .boxed()
    }
    fn cases(&self, tier: Tier) -> u32 {
        tier.pick(300_000, 30_000_000)
    }
    fn test(&self, c: &AmpCase, rec: &Rec) -> TResult {
        let cc = c.clone();
        let got = std::panic::catch_unwind(move || {
            StableSwap::new(cc.initial, cc.target, cc.now, cc.start, cc.stop).compute_amp_factor()
        });
        let want = model_amp(c.initial, c.target, c.start, c.stop, c.now);
        if c.now > c.start && c.now < c.stop && c.initial != c.target {
            rec.nontrivial(hash_of(c));
            rec.sample(c);
        }
        match got {
            Ok(Some(a)) => {
                ensure!(a == want, "effective amp {a} != linear model {want} for {c:?}");
                let (lo, hi) = (c.initial.min(c.target), c.initial.max(c.target));
                ensure!(a >= lo && a <= hi, "effective amp {a} outside [{lo},{hi}] for {c:?}");
                Ok(())
            }
            other => Err(Fail::new(format!("compute_amp_factor failed ({other:?}) for {c:?}"))),
        }
    }
}

// ---------------------------------------------------------------------------------------------
// live trio histories
// ---------------------------------------------------------------------------------------------

#[derive(Clone, Debug, Serialize, Deserialize)]
pub enum RampA {
    Abs(u64),
    /// current × 10, ×10+1, /10, /10−1, ×2, /2, same
    Rel(u8),
}

#[derive(Clone, Debug, Serialize, Deserialize)]
pub enum Op {
    Provide {
        user: u8,
        a: [Amt; 3],
        /// which permutation of the three assets the message lists them in
        #[serde(default)]
        ord: u8,
    },
    ProvideBalanced { user: u8, k: u16 },
    Withdraw { user: u8, k: u16 },
    Swap { user: u8, from: u8, to: u8, amt: Amt },
    SwapThereAndBack { user: u8, from: u8, to: u8, amt: Amt },
    Collect { caller: u8 },
    /// a swap sized by bisection over the Simulation query so that the pending protocol fee of the
    /// ask asset lands exactly on `target` (999 / 1000 / 1001 = around the collection threshold),
    /// optionally followed by a separately judged collection
    SwapToPending { user: u8, from: u8, to: u8, target: u16, then_collect: bool },
    /// adversarial: direct `WithdrawLiquidity {}` with a native coin attached (cw20-LP pool)
    WithdrawDirect { user: u8, denom: u8, amount: Uint128 },
    /// adversarial: a cw20 Receive hook from the wrong place
    ForgedHook { user: u8, via: u8, swap_hook: bool, amount: Uint128 },
    SetFees { fees: [Uint128; 3] },
    Ramp { a: RampA, dblocks: u64 },
    AdvanceBlock { dheight: u64 },
}

#[derive(Clone, Debug, Serialize, Deserialize)]
pub struct Case {
    pub cfg: TrioCfg,
    pub init: [Uint128; 3],
    pub ops: Vec<Op>,
}

fn amt110() -> BoxedStrategy<Amt> {
    prop_oneof![
        3 => gen::amount(1, 1u128 << 100).prop_map(|a| Amt::Abs(Uint128::new(a))),
        6 => (0u16..30000).prop_map(Amt::OfReserve),
    ]
    .boxed()
}

fn op() -> BoxedStrategy<Op> {
    let ramp_a = prop_oneof![
        2 => prop_oneof![Just(0u64), Just(1), Just(2), Just(1_000_000), Just(1_000_001), 1u64..2_000_000].prop_map(RampA::Abs),
        5 => (0u8..7).prop_map(RampA::Rel),
    ];
    let dblocks = prop_oneof![Just(9_999u64), Just(10_000), Just(10_001), Just(0), 1u64..40_000];
    prop_oneof![
        2 => (0u8..4, [amt110(), amt110(), amt110()], 0u8..6).prop_map(|(user, a, ord)| Op::Provide { user, a, ord }),
        2 => (0u8..4, 1u16..30000).prop_map(|(user, k)| Op::ProvideBalanced { user, k }),
        3 => (0u8..4, gen::share_sel()).prop_map(|(user, k)| Op::Withdraw { user, k }),
        7 => (0u8..4, 0u8..3, 0u8..3, amt110()).prop_map(|(user, from, to, amt)| Op::Swap { user, from, to, amt }),
        2 => (0u8..4, 0u8..3, 0u8..3, amt110()).prop_map(|(user, from, to, amt)| Op::SwapThereAndBack { user, from, to, amt }),
        1 => (0u8..5).prop_map(|caller| Op::Collect { caller }),
        2 => (0u8..4, 0u8..3, 0u8..2, prop_oneof![3 => Just(1000u16), 1 => Just(999u16), 1 => Just(1001u16), 1 => 1u16..3000], proptest::bool::weighted(0.8))
            .prop_map(|(user, from, to, target, then_collect)| Op::SwapToPending { user, from, to, target, then_collect }),
        1 => (0u8..4, 0u8..3, prop_oneof![Just(1u128), Just(1000), gen::amount(1, 1u128 << 70)]).prop_map(|(user, denom, a)| Op::WithdrawDirect { user, denom, amount: Uint128::new(a) }),
        1 => (0u8..4, prop_oneof![Just(0u8), Just(2u8)], any::<bool>(), prop_oneof![Just(1u128), Just(1000), gen::amount(1, 1u128 << 60)]).prop_map(|(user, via, swap_hook, a)| Op::ForgedHook { user, via, swap_hook: if via == 2 { true } else { swap_hook }, amount: Uint128::new(a) }),
        1 => gen::small_fee_triple().prop_map(|f| Op::SetFees { fees: [Uint128::new(f[0]), Uint128::new(f[1]), Uint128::new(f[2])] }),
        3 => (ramp_a, dblocks).prop_map(|(a, dblocks)| Op::Ramp { a, dblocks }),
        3 => prop_oneof![Just(1u64), Just(100), Just(5_000), Just(9_999), Just(10_000), 1u64..30_000].prop_map(|dheight| Op::AdvanceBlock { dheight }),
    ]
    .boxed()
}

pub struct TrioHistory;

struct AmpModel {
    initial: u64,
    target: u64,
    start: u64,
    stop: u64,
}

impl AmpModel {
    fn at(&self, h: u64) -> u64 {
        if self.stop == 0 {
            return self.target;
        }
        model_amp(self.initial, self.target, self.start, self.stop, h.max(self.start))
    }
}

fn arr3(v: &PoolView) -> [u128; 3] {
    [v.reserves[0], v.reserves[1], v.reserves[2]]
}

impl Check for TrioHistory {
    type Case = Case;
    fn name(&self) -> &'static str {
        "trio_history"
    }
    fn rule(&self) -> &'static str {
        "live trio through the factory (kinds native/cw20, fees, amp) with an initial deposit, then up to 30/80 operations {provide, balanced provide, withdraw, swap i->j (all six directions, native or cw20), swap there-and-back, swap sized by bisection over the Simulation query so that the ask asset's pending protocol fee lands on 999 / 1000 / 1001 (the collection threshold) followed by a collection, collect, fee change, amp ramp with values on/inside/outside every bound, block advance}; after every step: Pool query succeeds and balance >= reserve + pending fee; exact D* per LP at the amp of the executing block not lower (listed finding matched against the integer Newton scheme); only offer and ask reserves move in a swap; a there-and-back pair of swaps leaves the trader with no more of either asset; Config's ramp parameters equal the reference model (linear in block height), an accepted ramp satisfies all three documented bounds (a rejected ramp inside the bounds is counted, not judged: the statement bounds acceptance only); the pool's simulation agrees with the hooked curve at the model's effective amp. Non-trivial: a ramp in progress during >= 1 successful swap and >= 1 successful deposit."
    }
    fn strategy(&self, tier: Tier) -> BoxedStrategy<Case> {
        let max_ops = tier.pick(30usize, 80usize);
        (
            any::<[bool; 3]>(),
            amp_strategy(),
            gen::small_fee_triple(),
            reserves3(1_000_000).prop_map(|r| [r[0] >> 12, r[1] >> 12, r[2] >> 12]),
            prop::collection::vec(op(), 1..max_ops),
        )
            .prop_map(|(cw20, amp, fees, init, ops)| Case {
                cfg: TrioCfg {
                    cw20,
                    decimals: [6, 6, 6],
                    fees: [Uint128::new(fees[0]), Uint128::new(fees[1]), Uint128::new(fees[2])],
                    amp,
                },
                init: [
                    Uint128::new(init[0].max(100_000)),
                    Uint128::new(init[1].max(100_000)),
                    Uint128::new(init[2].max(100_000)),
                ],
                ops,
            })
            .boxed()
    }
    fn cases(&self, tier: Tier) -> u32 {
        tier.pick(8_000, 800_000)
    }
    fn min_nontrivial(&self) -> f64 {
        0.01
    }
    fn test(&self, c: &Case, rec: &Rec) -> TResult {
        let mut tw = TrioWorld::build(&c.cfg).map_err(|e| Fail::new(format!("world build failed: {e}")))?;
        let u0 = tw.user(0);
        let init = [c.init[0].u128(), c.init[1].u128(), c.init[2].u128()];
        if tw.provide(&u0, init, None, None).is_err() {
            rec.class("init_rejected");
            return Ok(());
        }
        let mut amp = AmpModel {
            initial: c.cfg.amp,
            target: c.cfg.amp,
            start: 0,
            stop: 0,
        };
        let mut before = tw.view().map_err(|e| Fail::new(format!("Pool query failed: {e}")))?;
        let mut swaps_in_ramp = 0;
        let mut deposits_in_ramp = 0;
        let mut ops: Vec<Op> = Vec::with_capacity(c.ops.len() + 4);
        for op in &c.ops {
            ops.push(op.clone());
            if let Op::SwapToPending { user, then_collect: true, .. } = op {
                ops.push(Op::Collect { caller: *user });
            }
        }
        for (step, op) in ops.iter().enumerate() {
            tw.msg_order = [0, 1, 2];
            let h = tw.w.app.block_info().height;
            let a_now = amp.at(h);
            let in_ramp = amp.stop != 0 && h < amp.stop && amp.initial != amp.target;
            let mut check_value = false;
            let resolved: Op;
            let op = if let Op::SwapToPending { user, from, to, target, .. } = op {
                let usr = tw.user(*user);
                let fi = (*from % 3) as usize;
                let ti = (fi + 1 + (*to % 2) as usize) % 3;
                let target = *target as u128;
                if before.pending[ti] >= target || before.reserves[fi] == 0 {
                    continue;
                }
                let need = target - before.pending[ti];
                let fee_of = |tw: &TrioWorld, x: u128| tw.simulate(fi, ti, x).ok().map(|s| s.protocol_fee_amount.u128());
                let cap = before.reserves[fi].saturating_mul(4).min(tw.w.bal(&tw.infos[fi], &usr));
                let (mut lo, mut hi) = (1u128, cap);
                if hi < 1 || fee_of(&tw, hi).map(|f| f < need).unwrap_or(true) {
                    continue;
                }
                while lo < hi {
                    let mid = lo + (hi - lo) / 2;
                    match fee_of(&tw, mid) {
                        Some(f) if f >= need => hi = mid,
                        _ => lo = mid + 1,
                    }
                }
                if fee_of(&tw, lo) != Some(need) {
                    continue;
                }
                rec.class("swap_sized_to_pending_fee_target");
                if target == 1000 {
                    rec.class("pending_fee_aimed_exactly_at_collection_threshold");
                }
                resolved = Op::Swap { user: *user, from: fi as u8, to: ti as u8, amt: Amt::Abs(Uint128::new(lo)) };
                &resolved
            } else {
                op
            };
            match op {
                Op::Provide { user, a, ord } => {
                    tw.msg_order = [[0, 1, 2], [0, 2, 1], [1, 0, 2], [1, 2, 0], [2, 0, 1], [2, 1, 0]][(*ord % 6) as usize];
                    let usr = tw.user(*user);
                    let mut amounts = [0u128; 3];
                    for i in 0..3 {
                        amounts[i] = resolve(&a[i], before.reserves[i], tw.w.bal(&tw.infos[i], &usr)).max(1);
                    }
                    if tw.provide(&usr, amounts, None, None).is_ok() {
                        rec.class("provide_ok");
                        if in_ramp {
                            deposits_in_ramp += 1;
                        }
                        check_value = true;
                    }
                }
                Op::ProvideBalanced { user, k } => {
                    let usr = tw.user(*user);
                    let amounts = [
                        gen::frac(*k, before.reserves[0]).max(1),
                        gen::frac(*k, before.reserves[1]).max(1),
                        gen::frac(*k, before.reserves[2]).max(1),
                    ];
                    if tw.provide(&usr, amounts, None, None).is_ok() {
                        rec.class("provide_balanced_ok");
                        if in_ramp {
                            deposits_in_ramp += 1;
                        }
                        check_value = true;
                    }
                }
                Op::Withdraw { user, k } => {
                    let usr = tw.user(*user);
                    let shares = gen::frac(*k, tw.lp_balance(&usr));
                    let b: Vec<u128> = (0..3).map(|i| tw.w.bal(&tw.infos[i], &usr)).collect();
                    if tw.withdraw(&usr, shares).is_ok() {
                        rec.class("withdraw_ok");
                        for i in 0..3 {
                            let got = tw.w.bal(&tw.infos[i], &usr) - b[i];
                            ensure!(
                                u(got) * u(before.total_share) <= u(before.reserves[i]) * u(shares),
                                "step {step}: withdrawal of {shares}/{} paid {got} of asset {i} > pro-rata of {}",
                                before.total_share,
                                before.reserves[i]
                            );
                        }
                        check_value = true;
                    }
                }
                Op::Swap { user, from, to, amt } => {
                    if from == to {
                        // a swap of an asset for itself: refused (then nothing may change) or judged like any other step
                        let usr = tw.user(*user);
                        let i = *from as usize;
                        let amount = resolve(amt, before.reserves[i], tw.w.bal(&tw.infos[i], &usr)).max(1);
                        let snap0 = tw.w.snapshot();
                        let r = tw.swap(&usr, i, i, amount, None, Some(dec(500_000_000_000_000_000)), None);
                        rec.class("swap_same_asset_attempt");
                        if r.is_err() {
                            let snap1 = tw.w.snapshot();
                            ensure!(snap1 == snap0, "step {step}: a refused swap of asset {i} for itself changed the world: {}", snap0.diff(&snap1));
                            continue;
                        }
                        // accepted: whatever it did is judged by the solvency / D-per-LP clauses below
                        check_value = true;
                    } else {
                    let usr = tw.user(*user);
                    let (fi, ti) = (*from as usize, *to as usize);
                    let amount = resolve(amt, before.reserves[fi], tw.w.bal(&tw.infos[fi], &usr)).max(1);
                    // differential on the effective amp: the pool's own simulation must equal the
                    // hooked curve evaluated at the model's amp for this block
                    let ni = 3 - fi - ti;
                    let sim = tw.simulate(fi, ti, amount);
                    if let Ok(sim) = &sim {
                        if let Some(curve) = swap_to(a_now, amount, before.reserves[fi], before.reserves[ti], before.reserves[ni]) {
                            let gross = sim.return_amount.u128()
                                + sim.swap_fee_amount.u128()
                                + sim.protocol_fee_amount.u128()
                                + sim.burn_fee_amount.u128();
                            ensure!(
                                gross == curve,
                                "step {step}: simulation gross {gross} != curve output {curve} at the model's effective amp {a_now} (height {h}, ramp {}->{} over [{},{}])",
                                amp.initial, amp.target, amp.start, amp.stop
                            );
                            rec.class("amp_differential_checked");
                        }
                    }
                    let r = tw.swap(&usr, fi, ti, amount, None, Some(dec(500_000_000_000_000_000)), None);
                    if r.is_ok() {
                        rec.class(&format!("swap_{fi}{ti}_ok"));
                        if in_ramp {
                            swaps_in_ramp += 1;
                        }
                        let after = tw.view().map_err(|e| Fail::new(format!("Pool query failed: {e}")))?;
                        ensure!(
                            after.reserves[ni] == before.reserves[ni] && after.balances[ni] == before.balances[ni],
                            "step {step}: swap {fi}->{ti} moved the third asset: {} -> {}",
                            before.reserves[ni],
                            after.reserves[ni]
                        );
                        ensure!(
                            after.reserves[fi] == before.reserves[fi] + amount,
                            "step {step}: offer reserve {} -> {} for an offer of {amount}",
                            before.reserves[fi],
                            after.reserves[fi]
                        );
                        ensure!(
                            after.reserves[ti] <= before.reserves[ti],
                            "step {step}: ask reserve grew in a swap"
                        );
                        check_value = true;
                    } else {
                        rec.class("swap_rejected");
                    }
                    }
                }
                Op::SwapThereAndBack { user, from, to, amt } => {
                    if from == to {
                        continue;
                    }
                    let usr = tw.user(*user);
                    let (fi, ti) = (*from as usize, *to as usize);
                    let amount = resolve(amt, before.reserves[fi], tw.w.bal(&tw.infos[fi], &usr)).max(1);
                    let b = [tw.w.bal(&tw.infos[fi], &usr), tw.w.bal(&tw.infos[ti], &usr)];
                    let start = before.clone();
                    if tw.swap(&usr, fi, ti, amount, None, Some(dec(500_000_000_000_000_000)), None).is_ok() {
                        let got = tw.w.bal(&tw.infos[ti], &usr) - b[1];
                        let mid = tw.view().map_err(|e| Fail::new(format!("Pool query failed: {e}")))?;
                        judge_d_per_lp(a_now, arr3(&before), arr3(&mid), before.total_share, mid.total_share, rec, &format!("step {step} swap there"))?;
                        before = mid;
                        if got >= 1 && tw.swap(&usr, ti, fi, got, None, Some(dec(500_000_000_000_000_000)), None).is_ok() {
                            rec.class("there_and_back_ok");
                            let a = [tw.w.bal(&tw.infos[fi], &usr), tw.w.bal(&tw.infos[ti], &usr)];
                            if !(a[0] <= b[0] && a[1] <= b[1]) {
                                // The trader ends with more of the offer asset and the same of the ask
                                // asset, so the reserves ended lower and the exact D fell in one of the two
                                // legs. Each leg is judged on its own (the first above, the second here): a
                                // leg outside the listed rounding class is a violation of its own; with
                                // both legs inside it the profit is that class seen from the trader's side.
                                let endv = tw.view().map_err(|e| Fail::new(format!("Pool query failed: {e}")))?;
                                judge_d_per_lp(a_now, arr3(&before), arr3(&endv), before.total_share, endv.total_share, rec, &format!("step {step} swap back"))?;
                                let _ = &start;
                                rec.known_or_fail(
                                    "trio-there-and-back-rounding",
                                    format!("step {step}: swapping {amount} of asset {fi} to {ti} and straight back was profitable: balances {b:?} -> {a:?}; each leg gives out no more than the integer Newton scheme"),
                                )?;
                            }
                        }
                        check_value = true;
                    }
                }
                Op::SwapToPending { .. } => unreachable!(),
                Op::Collect { caller } => {
                    let who = if *caller == 4 { tw.w.owner.clone() } else { tw.user(*caller) };
                    if tw.collect(&who).is_ok() {
                        rec.class("collect_ok");
                        check_value = true;
                    }
                }
                Op::ForgedHook { user, via, swap_hook, amount } => {
                    let usr = tw.user(*user);
                    let lp_b = tw.lp_balance(&usr);
                    let supply_b = before.total_share;
                    let bals_b: Vec<u128> = (0..3).map(|i| tw.w.bal(&tw.infos[i], &usr)).collect();
                    if tw.forged_hook(&usr, *via, *swap_hook, amount.u128()).is_ok() {
                        rec.class("hook_message_accepted");
                        let lp_a = tw.lp_balance(&usr);
                        let v = tw.view().map_err(|e| Fail::new(format!("Pool query failed: {e}")))?;
                        let bals_a: Vec<u128> = (0..3).map(|i| tw.w.bal(&tw.infos[i], &usr)).collect();
                        ensure!(
                            v.total_share >= supply_b || lp_b.saturating_sub(lp_a) >= supply_b - v.total_share,
                            "step {step}: a cw20 hook (via {via}, swap hook {swap_hook}, amount {amount}) burnt LP nobody gave up: supply {supply_b} -> {}, sender's LP {lp_b} -> {lp_a}",
                            v.total_share
                        );
                        ensure!(
                            (0..3).all(|i| bals_a[i] <= bals_b[i]),
                            "step {step}: a forged cw20 hook (via {via}, swap hook {swap_hook}, amount {amount}) paid the sender: {bals_b:?} -> {bals_a:?}"
                        );
                        check_value = true;
                    }
                }
                Op::WithdrawDirect { user, denom, amount } => {
                    let usr = tw.user(*user);
                    let d = ["uaaa", "uaaab", "uccc"][(*denom % 3) as usize];
                    let b: Vec<u128> = (0..3).map(|i| tw.w.bal(&tw.infos[i], &usr)).collect();
                    let lp_b = tw.lp_balance(&usr);
                    if tw.withdraw_direct(&usr, d, amount.u128()).is_ok() {
                        rec.class("withdraw_direct_accepted");
                        let a: Vec<u128> = (0..3).map(|i| tw.w.bal(&tw.infos[i], &usr)).collect();
                        let lp_a = tw.lp_balance(&usr);
                        ensure!(
                            lp_a < lp_b || (0..3).all(|i| a[i] <= b[i]),
                            "step {step}: the direct WithdrawLiquidity message with {amount}{d} attached paid the sender out of the pool (balances {b:?} -> {a:?}) although its LP balance did not fall ({lp_b} -> {lp_a})"
                        );
                        check_value = true;
                    }
                }
                Op::SetFees { fees } => {
                    if tw.update(Some(fees_u(fees)), None, None).is_ok() {
                        check_value = true;
                    }
                }
                Op::Ramp { a, dblocks } => {
                    let future_a = match a {
                        RampA::Abs(v) => *v,
                        RampA::Rel(k) => match k {
                            0 => a_now.saturating_mul(10),
                            1 => a_now.saturating_mul(10) + 1,
                            2 => a_now / 10,
                            3 => (a_now / 10).saturating_sub(1),
                            4 => a_now * 2,
                            5 => a_now / 2,
                            _ => a_now,
                        },
                    };
                    let future_block = h + dblocks;
                    let within = future_a >= MIN_AMP
                        && future_a <= MAX_AMP
                        && (future_a as u128) <= (a_now as u128) * MAX_AMP_CHANGE as u128
                        && (future_a as u128) * MAX_AMP_CHANGE as u128 >= a_now as u128
                        && future_block >= h + MIN_RAMP_BLOCKS;
                    let r = tw.update(
                        None,
                        None,
                        Some(trio::RampAmp {
                            future_a,
                            future_block,
                        }),
                    );
                    match (&r, within) {
                        (Ok(_), true) => {
                            rec.class("ramp_accepted");
                            amp = AmpModel {
                                initial: a_now,
                                target: future_a,
                                start: h,
                                stop: future_block,
                            };
                        }
                        (Err(_), false) => rec.class("ramp_rejected_out_of_bounds"),
                        (Ok(_), false) => {
                            return Err(Fail::new(format!(
                                "step {step}: ramp to {future_a} over {dblocks} blocks accepted although outside the bounds (effective amp {a_now}, height {h})"
                            )));
                        }
                        // The statement bounds what may be ACCEPTED; it does not promise that every ramp inside
                        // the bounds is taken (a stricter pool still satisfies it), so this is counted, not judged.
                        (Err(_), true) => rec.class("ramp_within_bounds_rejected"),
                    }
                    // stored parameters equal the model
                    let cfg = tw.config().map_err(|e| Fail::new(format!("Config query failed: {e}")))?;
                    if amp.stop != 0 {
                        ensure!(
                            cfg.initial_amp == amp.initial
                                && cfg.future_amp == amp.target
                                && cfg.initial_amp_block == amp.start
                                && cfg.future_amp_block == amp.stop,
                            "step {step}: stored ramp ({},{},{},{}) != model ({},{},{},{})",
                            cfg.initial_amp,
                            cfg.future_amp,
                            cfg.initial_amp_block,
                            cfg.future_amp_block,
                            amp.initial,
                            amp.target,
                            amp.start,
                            amp.stop
                        );
                    }
                }
                Op::AdvanceBlock { dheight } => {
                    tw.w.advance(6_000_000_000 * dheight.min(&100), *dheight);
                    continue;
                }
            }
            let after = tw
                .view()
                .map_err(|e| Fail::new(format!("step {step} ({op:?}): Pool/ProtocolFees query failed: {e}")))?;
            for i in 0..3 {
                ensure!(
                    u(after.balances[i]) >= u(after.reserves[i]) + u(after.pending[i]),
                    "step {step} ({op:?}): insolvent in asset {i}: balance {} < reserve {} + owed {}",
                    after.balances[i],
                    after.reserves[i],
                    after.pending[i]
                );
            }
            if check_value && before.total_share > 0 && after.total_share > 0 {
                judge_d_per_lp(
                    a_now,
                    arr3(&before),
                    arr3(&after),
                    before.total_share,
                    after.total_share,
                    rec,
                    &format!("step {step} ({op:?})"),
                )?;
            }
            before = after;
        }
        if swaps_in_ramp >= 1 && deposits_in_ramp >= 1 {
            rec.nontrivial(hash_of(c));
            rec.sample(c);
        }
        Ok(())
    }
}

pub fn property() -> Property {
    Property {
        id: "C04",
        checks: vec![
            Box::new(TrioSwapPure),
            Box::new(TrioMintPure),
            Box::new(AmpRampPure),
            Box::new(TrioHistory),
        ],
        assumptions: vec![
            "reference D* = integer bisection on D^4 + (Ann-1)*27xyz*D <= Ann*27xyz*(x+y+z), Ann = 3*A, in the pool's own base units (refmath.rs)",
            "D per LP is compared within one operation at the amp of the executing block (a ramp moves D by itself)",
            "the reference's own integer floor (1 unit of D) is allowed in comparisons",
            "effective amp of the live pool is observed through its Simulation query compared with the hooked curve at the model's amp, and through Config",
        ],
    }
}

#[allow(dead_code)]
fn _unused(_: Decimal) {}
