//! C14 — quotes are honest: simulation equals execution (pairs, trio, router, vault share).

use cosmwasm_std::{coin, Addr, Uint128};
use proptest::prelude::*;
use serde::{Deserialize, Serialize};

use white_whale_std::pool_network::asset::{AssetInfo, PairType};
use white_whale_std::pool_network::{pair, router};
use white_whale_std::vault_network::vault;

use crate::engine::{gen, hash_of, Check, Fail, Property, Rec, TResult, Tier};
use crate::{ensure, ensure_sig};
use crate::pools::{fees_u, swap_attrs, PairCfg, PairWorld, TrioCfg, TrioWorld};
use crate::props::c01::{resolve, Amt};
use crate::vaults::{vcfg, vop, VAmt, VCase, VOp, VaultWorld};
use crate::world::{asset, dec, native, pool_fee, token, World};

#[derive(Clone, Debug, Serialize, Deserialize)]
pub enum Op {
    Provide { user: u8, k: [u16; 3] },
    Withdraw { user: u8, k: u16 },
    Donate { user: u8, which: u8, amt: Amt },
    Collect,
    SetFees { fees: [Uint128; 3] },
    Ramp { up: bool },
    AdvanceBlocks { n: u16 },
    /// simulate, then execute the same swap in the same block and compare
    Probe { user: u8, from: u8, to: u8, amt: Amt, recv: Option<u8> },
}

fn op(n: u8) -> BoxedStrategy<Op> {
    let a = prop_oneof![
        3 => gen::amount(1, 1u128 << 90).prop_map(|a| Amt::Abs(Uint128::new(a))),
        6 => (0u16..30000).prop_map(Amt::OfReserve),
        1 => any::<u16>().prop_map(Amt::OfBalance),
    ];
    prop_oneof![
        2 => (0u8..4, any::<[u16; 3]>()).prop_map(|(user, k)| Op::Provide { user, k }),
        2 => (0u8..4, gen::share_sel()).prop_map(|(user, k)| Op::Withdraw { user, k }),
        1 => (0u8..4, 0..n, a.clone()).prop_map(|(user, which, amt)| Op::Donate { user, which, amt }),
        1 => Just(Op::Collect),
        1 => gen::small_fee_triple().prop_map(|f| Op::SetFees { fees: [Uint128::new(f[0]), Uint128::new(f[1]), Uint128::new(f[2])] }),
        1 => any::<bool>().prop_map(|up| Op::Ramp { up }),
        1 => (1u16..20000).prop_map(|n| Op::AdvanceBlocks { n }),
        10 => (0u8..4, 0..n, 0..n, a, proptest::option::weighted(0.3, 0u8..4)).prop_map(|(user, from, to, amt, recv)| Op::Probe { user, from, to, amt, recv }),
    ]
    .boxed()
}

// ---------------------------------------------------------------------------------------------
// pair (constant product and stableswap)
// ---------------------------------------------------------------------------------------------

#[derive(Clone, Debug, Serialize, Deserialize)]
pub struct PairCase {
    pub cfg: PairCfg,
    pub init: (Uint128, Uint128),
    pub ops: Vec<Op>,
}

pub struct PairQuote;

impl Check for PairQuote {
    type Case = PairCase;
    fn name(&self) -> &'static str {
        "pair_simulation_equals_execution"
    }
    fn rule(&self) -> &'static str {
        "constant-product and two-asset stableswap pairs (native/cw20 assets, several decimal settings, fee triples, amp) brought into arbitrary reachable states by provide / withdraw / donation / collection / fee-change operations (so pending protocol fees and donated balances occur); probe = Simulation query followed by the same swap (max_spread 50%, exact funds) in the same block. Whenever the executed swap succeeds the simulation must have succeeded and every simulated amount (return, spread, swap fee, protocol fee, burn fee) must equal the executed swap's attributes, which in turn are validated against the receiver's balance delta, the circulating-supply delta (burn) and the pending-fee ledger delta. Non-trivial: >= 2 successful probes with return > 0, one after a state-changing operation other than a swap."
    }
    fn strategy(&self, tier: Tier) -> BoxedStrategy<PairCase> {
        let max_ops = tier.pick(30usize, 80usize);
        (
            any::<[bool; 2]>(),
            prop_oneof![Just([6u8, 6u8]), Just([6, 18]), Just([18, 6]), Just([8, 6])],
            proptest::option::weighted(0.45, prop_oneof![Just(1u64), Just(100), 1u64..100_000]),
            prop_oneof![3 => gen::small_fee_triple(), 1 => gen::valid_fee_triple()],
            gen::log_uniform(1_000_000, 1u128 << 70),
            0u32..12,
            prop::collection::vec(op(2), 2..max_ops),
        )
            .prop_map(|(cw20, decimals, amp, f, base, sh, ops)| {
                let e0 = 10u128.pow(decimals[0] as u32 - 6);
                let e1 = 10u128.pow(decimals[1] as u32 - 6);
                PairCase {
                    cfg: PairCfg {
                        cw20,
                        decimals,
                        fees: [Uint128::new(f[0]), Uint128::new(f[1]), Uint128::new(f[2])],
                        amp,
                    },
                    init: (
                        Uint128::new((base * e0).min(1u128 << 100)),
                        Uint128::new((((base >> sh).max(1_000_000)) * e1).min(1u128 << 100)),
                    ),
                    ops,
                }
            })
            .boxed()
    }
    fn cases(&self, tier: Tier) -> u32 {
        tier.pick(30_000, 750_000)
    }
    fn min_nontrivial(&self) -> f64 {
        0.05
    }
    fn test(&self, c: &PairCase, rec: &Rec) -> TResult {
        let mut pw = PairWorld::build(&c.cfg).map_err(|e| Fail::new(format!("world build failed: {e}")))?;
        let u0 = pw.user(0);
        if pw.provide(&u0, [c.init.0.u128(), c.init.1.u128()], None, None).is_err() {
            rec.class("init_rejected");
            return Ok(());
        }
        let mut good_probes = 0;
        let mut probes_after_change = 0;
        let mut changed = false;
        for (step, op) in c.ops.iter().enumerate() {
            let v = pw.view().map_err(|e| Fail::new(format!("Pool query failed: {e}")))?;
            match op {
                Op::Provide { user, k } => {
                    let usr = pw.user(*user);
                    let a = [gen::frac(k[0], v.reserves[0]).max(1), gen::frac(k[1], v.reserves[1]).max(1)];
                    if pw.provide(&usr, a, None, None).is_ok() {
                        changed = true;
                    }
                }
                Op::Withdraw { user, k } => {
                    let usr = pw.user(*user);
                    let sh = gen::frac(*k, pw.lp_balance(&usr));
                    if pw.withdraw(&usr, sh).is_ok() {
                        changed = true;
                    }
                }
                Op::Donate { user, which, amt } => {
                    let usr = pw.user(*user);
                    let i = (*which % 2) as usize;
                    let a = resolve(amt, v.reserves[i], pw.w.bal(&pw.infos[i], &usr)).min(1u128 << 90);
                    let info = pw.infos[i].clone();
                    let p = pw.pair.clone();
                    if pw.w.transfer(&usr, &p, &info, a).is_ok() {
                        changed = true;
                    }
                }
                Op::Collect => {
                    let usr = pw.user(3);
                    if pw.collect(&usr).is_ok() {
                        changed = true;
                    }
                }
                Op::SetFees { fees } => {
                    if pw.set_fees(fees_u(fees)).is_ok() {
                        changed = true;
                    }
                }
                Op::Ramp { .. } | Op::AdvanceBlocks { .. } => {
                    pw.w.advance(6_000_000_000, 1);
                }
                Op::Probe { user, from, amt, recv, .. } => {
                    let usr = pw.user(*user);
                    let oi = (*from % 2) as usize;
                    let ai = 1 - oi;
                    let amount = resolve(amt, v.reserves[oi], pw.w.bal(&pw.infos[oi], &usr)).max(1);
                    let sim = pw.simulate(oi, amount);
                    let receiver = recv.map(|r| pw.user(r)).unwrap_or(usr.clone());
                    let rb = pw.w.bal(&pw.infos[ai], &receiver);
                    let sb = pw.w.supply(&pw.infos[ai]);
                    let r = pw.swap(&usr, oi, amount, None, Some(dec(500_000_000_000_000_000)), recv.map(|_| &receiver));
                    let Ok(resp) = r else {
                        rec.class(if sim.is_ok() { "probe_exec_rejected_sim_ok" } else { "probe_both_rejected" });
                        continue;
                    };
                    let at = swap_attrs(&resp, &pw.pair).ok_or_else(|| Fail::unobservable("the swap response carries no parsable return / spread / fee attributes"))?;
                    let sim = sim.map_err(|e| {
                        Fail::new(format!(
                            "step {step}: swap of {amount} of asset {oi} executed (return {}) but the simulation in the same state failed: {e}",
                            at.return_amount
                        ))
                    })?;
                    ensure!(
                        sim.return_amount.u128() == at.return_amount
                            && sim.spread_amount.u128() == at.spread_amount
                            && sim.swap_fee_amount.u128() == at.swap_fee
                            && sim.protocol_fee_amount.u128() == at.protocol_fee
                            && sim.burn_fee_amount.u128() == at.burn_fee,
                        "step {step}: simulation of {amount} of asset {oi} said (return {}, spread {}, swap {}, protocol {}, burn {}) but the swap executed in the same state did (return {}, spread {}, swap {}, protocol {}, burn {})",
                        sim.return_amount, sim.spread_amount, sim.swap_fee_amount, sim.protocol_fee_amount, sim.burn_fee_amount,
                        at.return_amount, at.spread_amount, at.swap_fee, at.protocol_fee, at.burn_fee
                    );
                    // the attributes are claims: validate against real deltas
                    let va = pw.view().map_err(|e| Fail::new(format!("Pool query failed: {e}")))?;
                    let got = pw.w.bal(&pw.infos[ai], &receiver) - rb;
                    let burned = sb - pw.w.supply(&pw.infos[ai]);
                    ensure!(
                        got == sim.return_amount.u128() && burned == sim.burn_fee_amount.u128() && va.pending[ai] - v.pending[ai] == sim.protocol_fee_amount.u128(),
                        "step {step}: simulated (return {}, burn {}, protocol {}) but the receiver got {got}, {burned} left circulation and the fee ledger grew by {}",
                        sim.return_amount, sim.burn_fee_amount, sim.protocol_fee_amount, va.pending[ai] - v.pending[ai]
                    );
                    rec.class(if c.cfg.cw20[oi] { "probe_ok_cw20_offer" } else { "probe_ok_native_offer" });
                    if at.return_amount > 0 {
                        good_probes += 1;
                        if changed {
                            probes_after_change += 1;
                        }
                    }
                }
            }
        }
        if good_probes >= 2 && probes_after_change >= 1 {
            rec.nontrivial(hash_of(c));
            rec.sample(c);
        }
        Ok(())
    }
}

// ---------------------------------------------------------------------------------------------
// trio
// ---------------------------------------------------------------------------------------------

#[derive(Clone, Debug, Serialize, Deserialize)]
pub struct TrioCase {
    pub cfg: TrioCfg,
    pub init: [Uint128; 3],
    pub ops: Vec<Op>,
}

pub struct TrioQuote;

impl Check for TrioQuote {
    type Case = TrioCase;
    fn name(&self) -> &'static str {
        "trio_simulation_equals_execution"
    }
    fn rule(&self) -> &'static str {
        "three-asset stableswap pool in arbitrary reachable states (provide / withdraw / donation / collection / fee change / amp ramps in progress / block advances); probe = Simulation followed by the same swap in the same block over all six directions, native and cw20 offers; same oracle as the pair check."
    }
    fn strategy(&self, tier: Tier) -> BoxedStrategy<TrioCase> {
        let max_ops = tier.pick(30usize, 80usize);
        (
            any::<[bool; 3]>(),
            prop_oneof![Just(1u64), Just(100), 1u64..100_000],
            prop_oneof![3 => gen::small_fee_triple(), 1 => gen::valid_fee_triple()],
            gen::log_uniform(1_000_000, 1u128 << 70),
            0u32..10,
            0u32..10,
            prop::collection::vec(op(3), 2..max_ops),
        )
            .prop_map(|(cw20, amp, f, base, s1, s2, ops)| TrioCase {
                cfg: TrioCfg {
                    cw20,
                    decimals: [6, 6, 6],
                    fees: [Uint128::new(f[0]), Uint128::new(f[1]), Uint128::new(f[2])],
                    amp,
                },
                init: [
                    Uint128::new(base),
                    Uint128::new((base >> s1).max(100_000)),
                    Uint128::new((base >> s2).max(100_000)),
                ],
                ops,
            })
            .boxed()
    }
    fn cases(&self, tier: Tier) -> u32 {
        tier.pick(24_000, 600_000)
    }
    fn min_nontrivial(&self) -> f64 {
        0.05
    }
    fn test(&self, c: &TrioCase, rec: &Rec) -> TResult {
        let mut tw = TrioWorld::build(&c.cfg).map_err(|e| Fail::new(format!("world build failed: {e}")))?;
        let u0 = tw.user(0);
        if tw.provide(&u0, [c.init[0].u128(), c.init[1].u128(), c.init[2].u128()], None, None).is_err() {
            rec.class("init_rejected");
            return Ok(());
        }
        let mut good = 0;
        let mut after_change = 0;
        let mut changed = false;
        for (step, op) in c.ops.iter().enumerate() {
            let v = tw.view().map_err(|e| Fail::new(format!("Pool query failed: {e}")))?;
            match op {
                Op::Provide { user, k } => {
                    let usr = tw.user(*user);
                    let a = [
                        gen::frac(k[0], v.reserves[0]).max(1),
                        gen::frac(k[1], v.reserves[1]).max(1),
                        gen::frac(k[2], v.reserves[2]).max(1),
                    ];
                    if tw.provide(&usr, a, None, None).is_ok() {
                        changed = true;
                    }
                }
                Op::Withdraw { user, k } => {
                    let usr = tw.user(*user);
                    let sh = gen::frac(*k, tw.lp_balance(&usr));
                    if tw.withdraw(&usr, sh).is_ok() {
                        changed = true;
                    }
                }
                Op::Donate { user, which, amt } => {
                    let usr = tw.user(*user);
                    let i = (*which % 3) as usize;
                    let a = resolve(amt, v.reserves[i], tw.w.bal(&tw.infos[i], &usr)).min(1u128 << 90);
                    let info = tw.infos[i].clone();
                    let p = tw.trio.clone();
                    if tw.w.transfer(&usr, &p, &info, a).is_ok() {
                        changed = true;
                    }
                }
                Op::Collect => {
                    let usr = tw.user(3);
                    if tw.collect(&usr).is_ok() {
                        changed = true;
                    }
                }
                Op::SetFees { fees } => {
                    if tw.update(Some(fees_u(fees)), None, None).is_ok() {
                        changed = true;
                    }
                }
                Op::Ramp { up } => {
                    let cfg = tw.config().map_err(Fail::new)?;
                    let h = tw.w.app.block_info().height;
                    let cur = if h >= cfg.future_amp_block { cfg.future_amp } else { cfg.initial_amp };
                    let target = if *up { (cur * 5).min(1_000_000) } else { (cur / 5).max(1) };
                    if tw
                        .update(
                            None,
                            None,
                            Some(white_whale_std::pool_network::trio::RampAmp {
                                future_a: target,
                                future_block: h + 10_000,
                            }),
                        )
                        .is_ok()
                    {
                        rec.class("ramp_started");
                        changed = true;
                    }
                }
                Op::AdvanceBlocks { n } => {
                    tw.w.advance(6_000_000_000, *n as u64);
                }
                Op::Probe { user, from, to, amt, recv } => {
                    let usr = tw.user(*user);
                    let (oi, ai) = ((*from % 3) as usize, (*to % 3) as usize);
                    if oi == ai {
                        continue;
                    }
                    let amount = resolve(amt, v.reserves[oi], tw.w.bal(&tw.infos[oi], &usr)).max(1);
                    let sim = tw.simulate(oi, ai, amount);
                    let receiver = recv.map(|r| tw.user(r)).unwrap_or(usr.clone());
                    let rb = tw.w.bal(&tw.infos[ai], &receiver);
                    let sb = tw.w.supply(&tw.infos[ai]);
                    let r = tw.swap(&usr, oi, ai, amount, None, Some(dec(500_000_000_000_000_000)), recv.map(|_| &receiver));
                    let Ok(resp) = r else {
                        rec.class(if sim.is_ok() { "probe_exec_rejected_sim_ok" } else { "probe_both_rejected" });
                        continue;
                    };
                    let at = swap_attrs(&resp, &tw.trio).ok_or_else(|| Fail::unobservable("the swap response carries no parsable return / spread / fee attributes"))?;
                    let sim = sim.map_err(|e| {
                        Fail::new(format!(
                            "step {step}: swap {oi}->{ai} of {amount} executed (return {}) but the simulation in the same state failed: {e}",
                            at.return_amount
                        ))
                    })?;
                    ensure!(
                        sim.return_amount.u128() == at.return_amount
                            && sim.spread_amount.u128() == at.spread_amount
                            && sim.swap_fee_amount.u128() == at.swap_fee
                            && sim.protocol_fee_amount.u128() == at.protocol_fee
                            && sim.burn_fee_amount.u128() == at.burn_fee,
                        "step {step}: simulation {oi}->{ai} of {amount} said (return {}, spread {}, swap {}, protocol {}, burn {}) but the swap executed in the same state did (return {}, spread {}, swap {}, protocol {}, burn {})",
                        sim.return_amount, sim.spread_amount, sim.swap_fee_amount, sim.protocol_fee_amount, sim.burn_fee_amount,
                        at.return_amount, at.spread_amount, at.swap_fee, at.protocol_fee, at.burn_fee
                    );
                    let va = tw.view().map_err(|e| Fail::new(format!("Pool query failed: {e}")))?;
                    let got = tw.w.bal(&tw.infos[ai], &receiver) - rb;
                    let burned = sb - tw.w.supply(&tw.infos[ai]);
                    ensure!(
                        got == sim.return_amount.u128() && burned == sim.burn_fee_amount.u128() && va.pending[ai] - v.pending[ai] == sim.protocol_fee_amount.u128(),
                        "step {step}: simulated (return {}, burn {}, protocol {}) but the receiver got {got}, {burned} left circulation and the fee ledger grew by {}",
                        sim.return_amount, sim.burn_fee_amount, sim.protocol_fee_amount, va.pending[ai] - v.pending[ai]
                    );
                    rec.class(&format!("probe_ok_{oi}{ai}"));
                    if at.return_amount > 0 {
                        good += 1;
                        if changed {
                            after_change += 1;
                        }
                    }
                }
            }
        }
        if good >= 2 && after_change >= 1 {
            rec.nontrivial(hash_of(c));
            rec.sample(c);
        }
        Ok(())
    }
}

// ---------------------------------------------------------------------------------------------
// router
// ---------------------------------------------------------------------------------------------

#[derive(Clone, Debug, Serialize, Deserialize)]
pub enum ROp {
    /// perturb pair i by a direct swap
    Swap { pair: u8, dir: bool, k: u16 },
    /// dust sent to the router beforehand (asset index)
    Dust { which: u8, amount: Uint128 },
    /// route from asset `start` over `hops` pairs of the chain (forwards or backwards)
    Route { start: u8, hops: u8, back: bool, amt: Amt, recv: Option<u8>, user: u8 },
    /// route that goes through the same pair twice: start -> neighbour -> start (-> neighbour when `three`)
    Bounce { start: u8, back: bool, three: bool, amt: Amt, user: u8 },
}

#[derive(Clone, Debug, Serialize, Deserialize)]
pub struct RouterCase {
    /// chain assets A-B-C-D: which are cw20
    pub cw20: [bool; 4],
    pub stable: [bool; 3],
    pub fees: [Uint128; 3],
    pub ops: Vec<ROp>,
}

pub struct RouterQuote;

pub struct ChainWorld {
    pub w: World,
    pub assets: Vec<AssetInfo>,
    pub pairs: Vec<Addr>,
    pub router: Addr,
}

pub fn build_chain(cw20: [bool; 4], stable: [bool; 3], fees: [u128; 3]) -> Result<ChainWorld, String> {
    let mut w = World::new_with_fund(&["alice", "bob", "carol", "dave"], &["ua", "ub", "uc", "ud"], 1u128 << 110);
    w.setup_pool_network();
    let mut assets = vec![];
    for (i, d) in ["ua", "ub", "uc", "ud"].iter().enumerate() {
        if cw20[i] {
            assets.push(token(&w.create_cw20_with_fund(&format!("tk{}", ["a", "b", "c", "d"][i]), 6, 1u128 << 110)));
        } else {
            w.register_native_decimals(d, 6);
            assets.push(native(d));
        }
    }
    let mut pairs = vec![];
    let alice = w.users[0].clone();
    for i in 0..3 {
        let pt = if stable[i] { PairType::StableSwap { amp: 100 } } else { PairType::ConstantProduct };
        let info = w.create_pair([assets[i].clone(), assets[i + 1].clone()], pool_fee(fees), pt)?;
        let p = Addr::unchecked(info.contract_addr);
        let a = 1_000_000_000_000u128 * (i as u128 + 1);
        let mut funds = vec![];
        for k in [i, i + 1] {
            match &assets[k] {
                AssetInfo::NativeToken { denom } => funds.push(coin(a, denom)),
                AssetInfo::Token { contract_addr } => {
                    let t = Addr::unchecked(contract_addr);
                    w.increase_allowance(&alice, &t, &p, a);
                }
            }
        }
        funds.sort_by(|x, y| x.denom.cmp(&y.denom));
        w.exec(
            &alice,
            &p,
            &pair::ExecuteMsg::ProvideLiquidity {
                assets: [asset(&assets[i], a), asset(&assets[i + 1], a)],
                slippage_tolerance: None,
                receiver: None,
            },
            &funds,
        )?;
        pairs.push(p);
    }
    let router = w.router.clone().unwrap();
    Ok(ChainWorld { w, assets, pairs, router })
}

impl ChainWorld {
    pub fn ops_for(&self, start: usize, hops: usize, back: bool) -> Option<(Vec<router::SwapOperation>, usize)> {
        let mut ops = vec![];
        let mut cur = start as i64;
        for _ in 0..hops {
            let next = if back { cur - 1 } else { cur + 1 };
            if !(0..4).contains(&next) {
                return None;
            }
            ops.push(router::SwapOperation::TerraSwap {
                offer_asset_info: self.assets[cur as usize].clone(),
                ask_asset_info: self.assets[next as usize].clone(),
            });
            cur = next;
        }
        Some((ops, cur as usize))
    }

    pub fn direct_swap(&mut self, i: usize, dir: bool, amount: u128, who: &Addr) -> Result<(), String> {
        let oi = if dir { i + 1 } else { i };
        let p = self.pairs[i].clone();
        match &self.assets[oi] {
            AssetInfo::NativeToken { denom } => self
                .w
                .exec(
                    who,
                    &p,
                    &pair::ExecuteMsg::Swap {
                        offer_asset: asset(&self.assets[oi], amount),
                        belief_price: None,
                        max_spread: Some(dec(500_000_000_000_000_000)),
                        to: None,
                    },
                    &[coin(amount, denom)],
                )
                .map(|_| ()),
            AssetInfo::Token { contract_addr } => {
                let t = Addr::unchecked(contract_addr);
                self.w
                    .cw20_send(
                        who,
                        &t,
                        &p,
                        amount,
                        &pair::Cw20HookMsg::Swap {
                            belief_price: None,
                            max_spread: Some(dec(500_000_000_000_000_000)),
                            to: None,
                        },
                    )
                    .map(|_| ())
            }
        }
    }

    pub fn route_exec(
        &mut self,
        who: &Addr,
        start: usize,
        amount: u128,
        operations: Vec<router::SwapOperation>,
        minimum_receive: Option<u128>,
        to: Option<&Addr>,
        max_spread: Option<cosmwasm_std::Decimal>,
    ) -> crate::world::ExecResult {
        let r = self.router.clone();
        match &self.assets[start] {
            AssetInfo::NativeToken { denom } => self.w.exec(
                who,
                &r,
                &router::ExecuteMsg::ExecuteSwapOperations {
                    operations,
                    minimum_receive: minimum_receive.map(Uint128::new),
                    to: to.map(|a| a.to_string()),
                    max_spread,
                },
                &[coin(amount, denom)],
            ),
            AssetInfo::Token { contract_addr } => {
                let t = Addr::unchecked(contract_addr);
                self.w.cw20_send(
                    who,
                    &t,
                    &r,
                    amount,
                    &router::Cw20HookMsg::ExecuteSwapOperations {
                        operations,
                        minimum_receive: minimum_receive.map(Uint128::new),
                        to: to.map(|a| a.to_string()),
                        max_spread,
                    },
                )
            }
        }
    }
}

impl Check for RouterQuote {
    type Case = RouterCase;
    fn name(&self) -> &'static str {
        "router_simulation_equals_execution"
    }
    fn rule(&self) -> &'static str {
        "chain of three pairs A-B, B-C, C-D (each asset native or cw20, each pair constant-product or stableswap, one fee triple) perturbed by direct swaps; probe = SimulateSwapOperations for a 1..3-hop route (forwards or backwards along the chain, native or cw20 offer, optional receiver) followed by ExecuteSwapOperations with the same operations in the same block. Whenever execution succeeds: the receiver's balance delta of the final asset == the simulated amount when the router held none of the route's assets beforehand, (probes where dust had been sent to the router beforehand are only counted: the router swaps its whole balance). Non-trivial: successful multi-hop probe."
    }
    fn strategy(&self, tier: Tier) -> BoxedStrategy<RouterCase> {
        let max_ops = tier.pick(20usize, 60usize);
        let rop = prop_oneof![
            3 => (0u8..3, any::<bool>(), 1u16..20000).prop_map(|(pair, dir, k)| ROp::Swap { pair, dir, k }),
            1 => (0u8..4, gen::amount(1, 1u128 << 40)).prop_map(|(which, a)| ROp::Dust { which, amount: Uint128::new(a) }),
            8 => (0u8..4, 1u8..4, any::<bool>(), prop_oneof![2 => gen::amount(1, 1u128 << 60).prop_map(|a| Amt::Abs(Uint128::new(a))), 5 => (1u16..20000).prop_map(Amt::OfReserve)], proptest::option::weighted(0.4, 0u8..4), 0u8..4)
                .prop_map(|(start, hops, back, amt, recv, user)| ROp::Route { start, hops, back, amt, recv, user }),
            2 => (0u8..4, any::<bool>(), any::<bool>(), (1u16..20000).prop_map(Amt::OfReserve), 0u8..3)
                .prop_map(|(start, back, three, amt, user)| ROp::Bounce { start, back, three, amt, user }),
        ];
        (any::<[bool; 4]>(), any::<[bool; 3]>(), gen::small_fee_triple(), prop::collection::vec(rop, 2..max_ops))
            .prop_map(|(cw20, stable, f, ops)| RouterCase {
                cw20,
                stable,
                fees: [Uint128::new(f[0]), Uint128::new(f[1]), Uint128::new(f[2])],
                ops,
            })
            .boxed()
    }
    fn cases(&self, tier: Tier) -> u32 {
        tier.pick(20_000, 500_000)
    }
    fn min_nontrivial(&self) -> f64 {
        0.05
    }
    fn test(&self, c: &RouterCase, rec: &Rec) -> TResult {
        let mut cw = build_chain(c.cw20, c.stable, fees_u(&c.fees)).map_err(|e| Fail::new(format!("world build failed: {e}")))?;
        let mut multi = 0;
        for (step, op) in c.ops.iter().enumerate() {
            match op {
                ROp::Swap { pair, dir, k } => {
                    let i = (*pair % 3) as usize;
                    let oi = if *dir { i + 1 } else { i };
                    let res = cw.w.bal(&cw.assets[oi], &cw.pairs[i]);
                    let who = cw.w.users[1].clone();
                    let _ = cw.direct_swap(i, *dir, gen::frac(*k, res).max(1), &who);
                }
                ROp::Dust { which, amount } => {
                    let who = cw.w.users[2].clone();
                    let r = cw.router.clone();
                    let a = cw.assets[(*which % 4) as usize].clone();
                    let _ = cw.w.transfer(&who, &r, &a, amount.u128());
                }
                ROp::Bounce { start, back, three, amt, user } => {
                    let s = (*start % 4) as usize;
                    let n = if *back { s as i64 - 1 } else { s as i64 + 1 };
                    if !(0..4).contains(&n) {
                        continue;
                    }
                    let n = n as usize;
                    let hop = |a: usize, b: usize| router::SwapOperation::TerraSwap { offer_asset_info: cw.assets[a].clone(), ask_asset_info: cw.assets[b].clone() };
                    let mut ops = vec![hop(s, n), hop(n, s)];
                    let mut end = s;
                    if *three {
                        ops.push(hop(s, n));
                        end = n;
                    }
                    if [s, n].iter().any(|k| cw.w.bal(&cw.assets[*k], &cw.router) > 0) {
                        continue;
                    }
                    let who = cw.w.users[(*user % 3) as usize].clone();
                    // a receiver other than the sender, so that the delta of the final asset is the delivery
                    let receiver = cw.w.users[3].clone();
                    let pair_i = s.min(n);
                    let res = cw.w.bal(&cw.assets[s], &cw.pairs[pair_i]);
                    let amount = resolve(amt, res, cw.w.bal(&cw.assets[s], &who)).max(1);
                    let sim: Result<router::SimulateSwapOperationsResponse, String> = cw.w.query(
                        &cw.router,
                        &router::QueryMsg::SimulateSwapOperations { offer_amount: Uint128::new(amount), operations: ops.clone() },
                    );
                    let rb = cw.w.bal(&cw.assets[end], &receiver);
                    let r = cw.route_exec(&who, s, amount, ops, None, Some(&receiver), Some(dec(500_000_000_000_000_000)));
                    if r.is_err() {
                        rec.class("bounce_route_rejected");
                        continue;
                    }
                    let got = cw.w.bal(&cw.assets[end], &receiver) - rb;
                    rec.class("bounce_route_ok");
                    let sim = sim.map_err(|e| Fail::new(format!("step {step}: bounce route executed (receiver got {got}) but its simulation failed: {e}")))?;
                    ensure_sig!(
                        got == sim.amount.u128(),
                        "router-simulation-revisited-pair",
                        "step {step}: {}-hop route {s}->{n}->{s}{} of {amount} through the same pair twice: simulation said {} but the receiver got {got}",
                        if *three { 3 } else { 2 },
                        if *three { format!("->{n}") } else { String::new() },
                        sim.amount
                    );
                }
                ROp::Route { start, hops, back, amt, recv, user } => {
                    let s = (*start % 4) as usize;
                    let Some((ops, end)) = cw.ops_for(s, *hops as usize, *back) else { continue };
                    let who = cw.w.users[(*user % 4) as usize].clone();
                    let first_pair = if *back { s - 1 } else { s };
                    let res = cw.w.bal(&cw.assets[s], &cw.pairs[first_pair]);
                    let amount = resolve(amt, res, cw.w.bal(&cw.assets[s], &who)).max(1);
                    let sim: Result<router::SimulateSwapOperationsResponse, String> = cw.w.query(
                        &cw.router,
                        &router::QueryMsg::SimulateSwapOperations {
                            offer_amount: Uint128::new(amount),
                            operations: ops.clone(),
                        },
                    );
                    // does the router hold any of the route's assets?
                    let mut route_assets = vec![s];
                    let mut cur = s as i64;
                    for _ in 0..*hops {
                        cur = if *back { cur - 1 } else { cur + 1 };
                        route_assets.push(cur as usize);
                    }
                    let dusty = route_assets.iter().any(|k| cw.w.bal(&cw.assets[*k], &cw.router) > 0);
                    let receiver = recv.map(|r| cw.w.users[(r % 4) as usize].clone()).unwrap_or(who.clone());
                    let rb = cw.w.bal(&cw.assets[end], &receiver);
                    let r = cw.route_exec(&who, s, amount, ops, None, recv.map(|_| &receiver), Some(dec(500_000_000_000_000_000)));
                    if r.is_err() {
                        rec.class("route_rejected");
                        continue;
                    }
                    let got = cw.w.bal(&cw.assets[end], &receiver) - rb;
                    let sim = sim.map_err(|e| Fail::new(format!("step {step}: route executed (receiver got {got}) but its simulation failed: {e}")))?;
                    if dusty {
                        // the router swaps its whole balance, so the receiver gets the proceeds of a
                        // larger offer; equality is not promised then (and because every hop floors up
                        // to three fees independently, net proceeds are not even monotone in the offer),
                        // so such probes are only counted
                        rec.class("route_ok_with_router_dust");
                        let _ = got;
                    } else {
                        rec.class(&format!("route_ok_{}hop", hops));
                        ensure!(
                            got == sim.amount.u128(),
                            "step {step}: {}-hop route from asset {s} of {amount}: simulation said {} but the receiver got {got}",
                            hops,
                            sim.amount
                        );
                        if *hops >= 2 {
                            multi += 1;
                        }
                    }
                    for k in &route_assets {
                        if !dusty {
                            ensure!(
                                cw.w.bal(&cw.assets[*k], &cw.router) == 0,
                                "step {step}: the router kept {} of asset {k} after the route",
                                cw.w.bal(&cw.assets[*k], &cw.router)
                            );
                        }
                    }
                }
            }
        }
        if multi >= 1 {
            rec.nontrivial(hash_of(c));
            rec.sample(c);
        }
        Ok(())
    }
}

// ---------------------------------------------------------------------------------------------
// vault share
// ---------------------------------------------------------------------------------------------

#[derive(Clone, Debug, Serialize, Deserialize)]
pub struct ShareCase {
    pub base: VCase,
    pub probes: Vec<(u8, u16)>,
}

pub struct VaultShareQuote;

impl Check for VaultShareQuote {
    type Case = ShareCase;
    fn name(&self) -> &'static str {
        "vault_share_equals_withdrawal"
    }
    fn rule(&self) -> &'static str {
        "vault (native / cw20, fee triple) after a generated history of deposits, loans (pending protocol fees), donations, collections and fee changes; probes: Share{n} query for n = k/65536 of a holder's shares followed by the withdrawal of n shares in the same block; the withdrawer's balance delta must equal the quoted amount. Non-trivial: >= 1 probe with a non-zero payout while protocol fees are pending."
    }
    fn strategy(&self, tier: Tier) -> BoxedStrategy<ShareCase> {
        let max_ops = tier.pick(15usize, 40usize);
        (
            vcfg(),
            prop::collection::vec(vop(2, 3, 1, 1), 0..max_ops),
            gen::amount(10_000, 1u128 << 100),
            prop::collection::vec((0u8..5, 1u16..=u16::MAX), 1..6),
        )
            .prop_map(|(cfg, mut ops, d0, probes)| {
                ops.insert(0, VOp::Deposit { user: 0, amt: VAmt::Abs(Uint128::new(d0)) });
                ops.insert(1, VOp::Deposit { user: 4, amt: VAmt::Abs(Uint128::new(d0 / 5 + 2000)) });
                ops.insert(2, VOp::Deposit { user: 1, amt: VAmt::Abs(Uint128::new(d0 / 3 + 1)) });
                ShareCase { base: VCase { cfg, ops }, probes }
            })
            .boxed()
    }
    fn cases(&self, tier: Tier) -> u32 {
        tier.pick(24_000, 600_000)
    }
    fn min_nontrivial(&self) -> f64 {
        0.02
    }
    fn test(&self, c: &ShareCase, rec: &Rec) -> TResult {
        // replay the base history without judging it (C05/C06 do), then probe
        let mut vw = VaultWorld::build(&c.base.cfg).map_err(|e| Fail::new(format!("world build failed: {e}")))?;
        crate::vaults::apply_ops_unjudged(&mut vw, &c.base.ops);
        let mut nt = false;
        for (user, k) in &c.probes {
            let who = vw.user(*user);
            let shares = gen::frac(*k, vw.w.cw20_balance(&vw.lp, &who));
            if shares == 0 {
                continue;
            }
            let q: Result<Uint128, String> = vw.w.query(&vw.vault, &vault::QueryMsg::Share { amount: Uint128::new(shares) });
            let pending = vw.view().map(|v| v.pending).unwrap_or(0);
            let b0 = vw.w.bal(&vw.info, &who);
            if vw.withdraw(&who, shares).is_ok() {
                let got = vw.w.bal(&vw.info, &who) - b0;
                let q = q.map_err(|e| Fail::new(format!("withdrawal of {shares} shares paid {got} but the Share query failed: {e}")))?;
                ensure!(
                    q.u128() == got,
                    "Share{{{shares}}} quoted {q} but withdrawing {shares} shares in the same block paid {got}"
                );
                rec.class("share_probe_ok");
                if got > 0 && pending > 0 {
                    nt = true;
                }
            } else {
                rec.class("share_probe_withdraw_rejected");
            }
        }
        if nt {
            rec.nontrivial(hash_of(c));
            rec.sample(c);
        }
        Ok(())
    }
}

pub fn property() -> Property {
    Property {
        id: "C14",
        checks: vec![
            Box::new(PairQuote),
            Box::new(TrioQuote),
            Box::new(RouterQuote),
            Box::new(VaultShareQuote),
        ],
        assumptions: vec![
            "only the direction 'execution succeeded => simulation equal' is judged (execution has additional legitimate reasons to be rejected); probes use max_spread 50%, exact funds and all toggles on",
            "executed amounts come from swap attributes that are themselves validated against balance / supply / ledger deltas",
            "router equality is claimed only when the router held none of the route's assets beforehand (it swaps its whole balance)",
        ],
    }
}
