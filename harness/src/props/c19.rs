//! C19 — factories and router registries: one child per asset set; the registry tells the truth.

use std::collections::{BTreeMap, BTreeSet};

use cosmwasm_std::{coin, Addr, Uint128};
use proptest::prelude::*;
use serde::{Deserialize, Serialize};

use white_whale_std::pool_network::asset::{AssetInfo, PairInfo, PairType, TrioInfo};
use white_whale_std::pool_network::{factory, incentive, incentive_factory, pair, router, trio};
use white_whale_std::vault_network::{vault, vault_factory};

use crate::engine::{gen, hash_of, Check, Fail, Property, Rec, TResult, Tier};
use crate::ensure;
use crate::world::{asset, dec, native, pool_fee, token, trio_fee, vault_fee, World};

pub const N_ASSETS: usize = 11;
/// two more native denoms, appended after the cw20s so that saved cases keep their meaning: each is a
/// proper prefix of the next (uaaa < uaaab < uaaabc), which single-asset registries (vaults, incentives)
/// must page through without losing an entry
const PREFIX_NATIVES: [&str; 2] = ["uaaab", "uaaabc"];
const NATIVES: [&str; 5] = ["uaaa", "ubbb", "uccc", "uddd", "ueee"];

#[derive(Clone, Debug, Serialize, Deserialize)]
pub enum Op {
    CreatePair { a: u8, b: u8, stable: bool },
    RemovePair { sel: u16, swap_order: bool },
    CreateTrio { a: u8, b: u8, c: u8, perm: u8 },
    RemoveTrio { sel: u16, perm: u8 },
    CreateVault { a: u8 },
    RemoveVault { sel: u16 },
    CreateIncentive { a: u8 },
    AddRoute { hops: Vec<(u8, u8)> },
    /// a route along registered pairs: start pair picked by `first`, then up to two more hops
    /// continuing from the previous ask asset through registered pairs picked by `next`
    AddRouteValid { first: u16, flip: bool, next: Vec<u16> },
    /// several routes in ONE AddSwapRoutes message: routes along registered pairs (resolved like
    /// `AddRouteValid`) and free ones (mostly with an unregistered hop), the free ones first or last
    AddRouteBatch { valid: Vec<(u16, bool, Vec<u16>)>, free: Vec<Vec<(u8, u8)>>, free_first: bool },
    /// remove a registered pair and create it again with the assets in the other order
    RecreatePair { sel: u16 },
    /// a registered trio: first a second creation in permutation `dup` (must be refused), then remove
    /// it (naming the assets in permutation `rm`) and create it again in permutation `again`
    RecreateTrio { sel: u16, dup: u8, rm: u8, again: u8 },
    RemoveRoute { sel: u16 },
    ExecRoute { sel: u16, amount: Uint128 },
    List { what: u8, limit: u8 },
    /// a paged walk (pairs / trios / vaults) during which the entry that serves as the cursor is removed
    /// right after page number `remove_at` has been fetched; the walk then goes on from that cursor
    ListWhileRemoving { what: u8, limit: u8, remove_at: u8 },
}

#[derive(Clone, Debug, Serialize, Deserialize)]
pub struct Case {
    pub ops: Vec<Op>,
}

fn op() -> BoxedStrategy<Op> {
    let a = || 0u8..N_ASSETS as u8;
    prop_oneof![
        8 => (a(), a(), proptest::bool::weighted(0.25)).prop_map(|(a, b, stable)| Op::CreatePair { a, b, stable }),
        3 => (any::<u16>(), any::<bool>()).prop_map(|(sel, swap_order)| Op::RemovePair { sel, swap_order }),
        4 => (a(), a(), a(), 0u8..6).prop_map(|(a, b, c, perm)| Op::CreateTrio { a, b, c, perm }),
        2 => (any::<u16>(), 0u8..6).prop_map(|(sel, perm)| Op::RemoveTrio { sel, perm }),
        4 => a().prop_map(|a| Op::CreateVault { a }),
        2 => any::<u16>().prop_map(|sel| Op::RemoveVault { sel }),
        3 => a().prop_map(|a| Op::CreateIncentive { a }),
        2 => prop::collection::vec((a(), a()), 1..4).prop_map(|hops| Op::AddRoute { hops }),
        5 => (any::<u16>(), any::<bool>(), prop::collection::vec(any::<u16>(), 0..3)).prop_map(|(first, flip, next)| Op::AddRouteValid { first, flip, next }),
        3 => (
            prop::collection::vec((any::<u16>(), any::<bool>(), prop::collection::vec(any::<u16>(), 0..3)), 1..3),
            prop::collection::vec(prop::collection::vec((a(), a()), 1..3), 0..2),
            any::<bool>()
        )
            .prop_map(|(valid, free, free_first)| Op::AddRouteBatch { valid, free, free_first }),
        2 => any::<u16>().prop_map(|sel| Op::RecreatePair { sel }),
        2 => (any::<u16>(), 0u8..6, 0u8..6, 0u8..6).prop_map(|(sel, dup, rm, again)| Op::RecreateTrio { sel, dup, rm, again }),
        1 => any::<u16>().prop_map(|sel| Op::RemoveRoute { sel }),
        3 => (any::<u16>(), gen::log_uniform(1, 1u128 << 30)).prop_map(|(sel, amount)| Op::ExecRoute { sel, amount: Uint128::new(amount) }),
        7 => (0u8..4, prop_oneof![4 => 1u8..4, 2 => 1u8..=31, 1 => Just(30u8), 1 => Just(31u8), 2 => Just(0u8)]).prop_map(|(what, limit)| Op::List { what, limit }),
        3 => (0u8..3, 1u8..4, 0u8..3).prop_map(|(what, limit, remove_at)| Op::ListWhileRemoving { what, limit, remove_at }),
    ]
    .boxed()
}

/// A route along registered pairs: the start pair is picked by `first`, each further hop continues
/// from the previous ask asset through a registered pair picked by `next`.
fn resolve_route(keys: &[(usize, usize)], first: u16, flip: bool, next: &[u16]) -> Vec<(u8, u8)> {
    let (x, y) = keys[gen::idx(first, keys.len())];
    let mut hops = vec![if flip { (y, x) } else { (x, y) }];
    for n in next {
        let cur = hops.last().unwrap().1;
        let prev = hops.last().unwrap().0;
        let cands: Vec<usize> = keys
            .iter()
            .filter_map(|(p, q)| if *p == cur && *q != prev { Some(*q) } else if *q == cur && *p != prev { Some(*p) } else { None })
            .collect();
        if cands.is_empty() {
            break;
        }
        hops.push((cur, cands[gen::idx(*n, cands.len())]));
    }
    hops.iter().map(|(a, b)| (*a as u8, *b as u8)).collect()
}

const PERMS: [[usize; 3]; 6] = [[0, 1, 2], [0, 2, 1], [1, 0, 2], [1, 2, 0], [2, 0, 1], [2, 1, 0]];

struct Reg {
    w: World,
    assets: Vec<AssetInfo>,
    inc_factory: Addr,
    pairs: BTreeMap<(usize, usize), (Addr, PairType, [usize; 2])>,
    trios: BTreeMap<[usize; 3], (Addr, [usize; 3])>,
    vaults: BTreeMap<usize, Addr>,
    incentives: BTreeMap<usize, Addr>,
    routes: Vec<(usize, usize, Vec<(usize, usize)>)>,
    ever_created_pairs: u32,
}

impl Reg {
    fn build() -> Result<Reg, String> {
        let mut w = World::new_with_fund(&["alice", "bob"], &["uaaa", "ubbb", "uccc", "uddd", "ueee", "ufee", "uaaab", "uaaabc"], 1u128 << 100);
        w.setup_pool_network();
        w.setup_vault_network();
        let mut assets = vec![];
        for d in NATIVES {
            w.register_native_decimals(d, 6);
            assets.push(native(d));
        }
        for i in 0..4 {
            assets.push(token(&w.create_cw20_with_fund(&format!("tok{}", ["w", "x", "y", "z"][i]), 6 + i as u8, 1u128 << 90)));
        }
        for d in PREFIX_NATIVES {
            w.register_native_decimals(d, 6);
            assets.push(native(d));
        }
        let owner = w.owner.clone();
        let col = w.fee_collector.clone().unwrap();
        let clock = w.instantiate(w.code.fee_distributor_mock, &owner, &fee_distributor_mock::msg::InstantiateMsg {}, "clock", None)?;
        let inc_factory = w.instantiate(
            w.code.incentive_factory,
            &owner,
            &incentive_factory::InstantiateMsg {
                fee_collector_addr: col.to_string(),
                fee_distributor_addr: clock.to_string(),
                create_flow_fee: asset(&native("ufee"), 1000),
                max_concurrent_flows: 3,
                incentive_code_id: w.code.incentive,
                max_flow_epoch_buffer: 14,
                min_unbonding_duration: 86_400,
                max_unbonding_duration: 31_556_926,
            },
            "incentive_factory",
            None,
        )?;
        Ok(Reg {
            w,
            assets,
            inc_factory,
            pairs: BTreeMap::new(),
            trios: BTreeMap::new(),
            vaults: BTreeMap::new(),
            incentives: BTreeMap::new(),
            routes: vec![],
            ever_created_pairs: 0,
        })
    }

    fn provide_pair(&mut self, p: &Addr, a: usize, b: usize) -> Result<(), String> {
        let alice = self.w.users[0].clone();
        let amt = 1_000_000_000u128;
        let mut funds = vec![];
        for k in [a, b] {
            match &self.assets[k] {
                AssetInfo::NativeToken { denom } => funds.push(coin(amt, denom)),
                AssetInfo::Token { contract_addr } => {
                    let t = Addr::unchecked(contract_addr);
                    self.w.increase_allowance(&alice, &t, p, amt);
                }
            }
        }
        funds.sort_by(|x, y| x.denom.cmp(&y.denom));
        self.w
            .exec(
                &alice,
                p,
                &pair::ExecuteMsg::ProvideLiquidity {
                    assets: [asset(&self.assets[a], amt), asset(&self.assets[b], amt)],
                    slippage_tolerance: None,
                    receiver: None,
                },
                &funds,
            )
            .map(|_| ())
    }

    fn check_pair_entry(&self, a: usize, b: usize, step: usize) -> TResult {
        let f = self.w.factory.clone().unwrap();
        let (addr, pt, order) = self.pairs.get(&(a.min(b), a.max(b))).unwrap();
        for infos in [[self.assets[a].clone(), self.assets[b].clone()], [self.assets[b].clone(), self.assets[a].clone()]] {
            let reg: PairInfo = self
                .w
                .query(&f, &factory::QueryMsg::Pair { asset_infos: infos })
                .map_err(|e| Fail::new(format!("step {step}: factory does not know the registered pair ({a},{b}): {e}")))?;
            let child: PairInfo = self.w.query(addr, &pair::QueryMsg::Pair {}).map_err(Fail::new)?;
            ensure!(
                reg.contract_addr == addr.as_str() && reg == child,
                "step {step}: registry entry for pair ({a},{b}) {:?} differs from what the pair itself reports {:?}",
                reg,
                child
            );
            ensure!(&reg.pair_type == pt, "step {step}: pair type of ({a},{b}) recorded as {:?}, created as {:?}", reg.pair_type, pt);
            ensure!(
                reg.asset_infos == [self.assets[order[0]].clone(), self.assets[order[1]].clone()],
                "step {step}: registry lists assets {:?} for the pair created with {:?}",
                reg.asset_infos,
                order
            );
            for (k, ai) in reg.asset_infos.iter().enumerate() {
                let want = match ai {
                    AssetInfo::NativeToken { .. } => 6,
                    AssetInfo::Token { contract_addr } => {
                        let ti: cw20::TokenInfoResponse = self.w.query(&Addr::unchecked(contract_addr), &cw20::Cw20QueryMsg::TokenInfo {}).map_err(Fail::new)?;
                        ti.decimals
                    }
                };
                ensure!(reg.asset_decimals[k] == want, "step {step}: registry decimals {:?} for assets {:?}", reg.asset_decimals, reg.asset_infos);
            }
        }
        Ok(())
    }
}

pub struct Registries;

impl Check for Registries {
    type Case = Case;
    fn name(&self) -> &'static str {
        "registry_history"
    }
    fn rule(&self) -> &'static str {
        "universe of 9 assets (5 native denoms with registered decimals, 4 cw20 tokens with different decimals; fixed-length names so that no two asset sets concatenate to the same key); up to 40/120 operations {create pair / trio / vault / incentive with the assets in a generated order, remove pair / trio / vault (assets again in a generated order), add / remove swap route of 1..3 generated hops, execute a stored route, list pairs / trios / vaults / incentives with a page limit in 1..31 or none (default page size) following the cursor to the end}. Reference model = sets of unordered asset sets. A create of an existing set in any order must be rejected and a new one accepted; every registry entry (queried with the assets in both orders) must equal what the child reports (address, assets in creation order, decimals, pool type, LP token; vault/incentive Config asset); removed entries are absent and can be created again; the concatenated pages equal the model set, each entry exactly once; a route is stored iff every hop is a registered pair and the hops chain, and executing a route with a de-registered hop fails. Non-trivial: >= 1 removal followed by a re-creation and >= 1 paginated listing spanning more than one page."
    }
    fn strategy(&self, tier: Tier) -> BoxedStrategy<Case> {
        let max_ops = tier.pick(40usize, 120usize);
        let free = prop::collection::vec(op(), 5..max_ops).prop_map(|ops| Case { ops }).boxed();
        // directed shape: a crowded registry — more entries of one kind than the listings' default page
        // (10): 11-13 pairs, or a vault / an incentive for every asset of the universe (11), in a
        // generated order, then listings without a limit, walks with removals, and a random tail
        let crowded = (0u8..3, Just((0..N_ASSETS as u8).collect::<Vec<u8>>()).prop_shuffle(), 11usize..14, prop::collection::vec(op(), 0..10))
            .prop_map(|(kind, order, n_pairs, tail)| {
                let mut ops = vec![];
                match kind {
                    0 => {
                        let mut made = 0;
                        'outer: for i in 0..order.len() {
                            for j in (i + 1)..order.len() {
                                ops.push(Op::CreatePair { a: order[i], b: order[j], stable: false });
                                made += 1;
                                if made >= n_pairs {
                                    break 'outer;
                                }
                            }
                        }
                    }
                    1 => ops.extend(order.iter().map(|a| Op::CreateVault { a: *a })),
                    _ => ops.extend(order.iter().map(|a| Op::CreateIncentive { a: *a })),
                }
                let what = match kind {
                    0 => 0u8,
                    1 => 2,
                    _ => 3,
                };
                ops.push(Op::List { what, limit: 0 });
                ops.push(Op::List { what, limit: 30 });
                if kind < 2 {
                    ops.push(Op::ListWhileRemoving { what: if kind == 0 { 0 } else { 2 }, limit: 3, remove_at: 1 });
                    ops.push(Op::List { what, limit: 0 });
                }
                ops.extend(tail);
                Case { ops }
            })
            .boxed();
        prop_oneof![12 => free, 1 => crowded].boxed()
    }
    fn cases(&self, tier: Tier) -> u32 {
        tier.pick(25_000, 1_200_000)
    }
    fn min_nontrivial(&self) -> f64 {
        0.02
    }
    fn test(&self, c: &Case, rec: &Rec) -> TResult {
        let mut r = Reg::build().map_err(|e| Fail::new(format!("world build failed: {e}")))?;
        let owner = r.w.owner.clone();
        let f = r.w.factory.clone().unwrap();
        let vf = r.w.vault_factory.clone().unwrap();
        let router_addr = r.w.router.clone().unwrap();
        let mut removed_then_recreated = 0;
        let mut removed_pairs: BTreeSet<(usize, usize)> = BTreeSet::new();
        let mut multi_page = 0;
        // directed shapes are resolved against the current registry and then run through the
        // same handlers as the free operations
        let mut queue: std::collections::VecDeque<(usize, Op)> = c.ops.iter().cloned().enumerate().collect();
        while let Some((step, op)) = queue.pop_front() {
            // every pair entry still equals what its child reports (not only right after creation: a
            // later create / remove must not disturb the other entries)
            for (a, b) in r.pairs.keys().cloned().collect::<Vec<_>>() {
                r.check_pair_entry(a, b, step)?;
            }
            let op = match &op {
                Op::AddRouteValid { first, flip, next } => {
                    let keys: Vec<(usize, usize)> = r.pairs.keys().cloned().collect();
                    if keys.is_empty() {
                        continue;
                    }
                    Op::AddRoute { hops: resolve_route(&keys, *first, *flip, next) }
                }
                Op::AddRouteBatch { valid, free, free_first } if !valid.is_empty() => {
                    // resolved into free routes here; handled by the batch arm below
                    let keys: Vec<(usize, usize)> = r.pairs.keys().cloned().collect();
                    if keys.is_empty() {
                        continue;
                    }
                    let mut routes: Vec<Vec<(u8, u8)>> = valid.iter().map(|(f, fl, n)| resolve_route(&keys, *f, *fl, n)).collect();
                    if *free_first {
                        let mut v = free.clone();
                        v.append(&mut routes);
                        routes = v;
                    } else {
                        routes.extend(free.iter().cloned());
                    }
                    Op::AddRouteBatch { valid: vec![], free: routes, free_first: false }
                }
                Op::RecreatePair { sel } => {
                    let keys: Vec<(usize, usize)> = r.pairs.keys().cloned().collect();
                    if keys.is_empty() {
                        continue;
                    }
                    let (x, y) = keys[gen::idx(*sel, keys.len())];
                    queue.push_front((step, Op::CreatePair { a: y as u8, b: x as u8, stable: false }));
                    Op::RemovePair { sel: *sel, swap_order: true }
                }
                Op::RecreateTrio { sel, dup, rm, again } => {
                    let keys: Vec<[usize; 3]> = r.trios.keys().cloned().collect();
                    if keys.is_empty() {
                        continue;
                    }
                    let k = keys[gen::idx(*sel, keys.len())];
                    // queued in reverse: duplicate attempt (runs now), removal, re-creation
                    queue.push_front((step, Op::CreateTrio { a: k[0] as u8, b: k[1] as u8, c: k[2] as u8, perm: *again }));
                    queue.push_front((step, Op::RemoveTrio { sel: *sel, perm: *rm }));
                    rec.class("trio_recreated_after_removal_attempt");
                    Op::CreateTrio { a: k[0] as u8, b: k[1] as u8, c: k[2] as u8, perm: *dup }
                }
                other => other.clone(),
            };
            let op = &op;
            match op {
                Op::AddRouteValid { .. } | Op::RecreatePair { .. } | Op::RecreateTrio { .. } => unreachable!(),
                Op::AddRouteBatch { valid, .. } if !valid.is_empty() => unreachable!(),
                Op::CreatePair { a, b, stable } => {
                    let (a, b) = (*a as usize % N_ASSETS, *b as usize % N_ASSETS);
                    let key = (a.min(b), a.max(b));
                    let pt = if *stable { PairType::StableSwap { amp: 100 } } else { PairType::ConstantProduct };
                    let res = r.w.create_pair([r.assets[a].clone(), r.assets[b].clone()], pool_fee([1_000_000_000_000_000, 2_000_000_000_000_000, 0]), pt.clone());
                    if a == b {
                        ensure!(res.is_err(), "step {step}: a pair of an asset with itself was created");
                        continue;
                    }
                    if r.pairs.contains_key(&key) {
                        rec.class("duplicate_pair_attempt");
                        ensure!(res.is_err(), "step {step}: a second pair for the asset set ({a},{b}) was created (given order {a},{b})");
                    } else {
                        let info = res.map_err(|e| Fail::new(format!("step {step}: creating a new pair ({a},{b}) failed: {e}")))?;
                        let addr = Addr::unchecked(info.contract_addr);
                        ensure!(
                            !r.pairs.values().any(|(x, _, _)| *x == addr),
                            "step {step}: new pair reuses the address of a registered pair"
                        );
                        r.pairs.insert(key, (addr.clone(), pt, [a, b]));
                        r.ever_created_pairs += 1;
                        if removed_pairs.contains(&key) {
                            removed_then_recreated += 1;
                            rec.class("pair_recreated_after_removal");
                        }
                        r.provide_pair(&addr, a, b).map_err(|e| Fail::unobservable(format!("set-up: providing liquidity to a new pair failed: {e}")))?;
                        r.check_pair_entry(a, b, step)?;
                    }
                }
                Op::RemovePair { sel, swap_order } => {
                    if r.pairs.is_empty() {
                        continue;
                    }
                    let keys: Vec<(usize, usize)> = r.pairs.keys().cloned().collect();
                    let (a, b) = keys[gen::idx(*sel, keys.len())];
                    let infos = if *swap_order { [r.assets[b].clone(), r.assets[a].clone()] } else { [r.assets[a].clone(), r.assets[b].clone()] };
                    r.w.exec(&owner, &f, &factory::ExecuteMsg::RemovePair { asset_infos: infos.clone() }, &[])
                        .map_err(|e| Fail::new(format!("step {step}: removing the registered pair ({a},{b}) failed: {e}")))?;
                    r.pairs.remove(&(a, b));
                    removed_pairs.insert((a, b));
                    rec.class("pair_removed");
                    let q: Result<PairInfo, String> = r.w.query(&f, &factory::QueryMsg::Pair { asset_infos: infos });
                    ensure!(q.is_err(), "step {step}: removed pair ({a},{b}) is still returned by the factory");
                }
                Op::CreateTrio { a, b, c: cc, perm } => {
                    let v = [*a as usize % N_ASSETS, *b as usize % N_ASSETS, *cc as usize % N_ASSETS];
                    let p = PERMS[(*perm % 6) as usize];
                    let given = [v[p[0]], v[p[1]], v[p[2]]];
                    let mut key = v;
                    key.sort();
                    let distinct = key[0] != key[1] && key[1] != key[2];
                    let res = r.w.create_trio(
                        [r.assets[given[0]].clone(), r.assets[given[1]].clone(), r.assets[given[2]].clone()],
                        trio_fee([1_000_000_000_000_000, 0, 0]),
                        100,
                    );
                    if !distinct {
                        ensure!(res.is_err(), "step {step}: a trio with a repeated asset was created");
                        continue;
                    }
                    if r.trios.contains_key(&key) {
                        rec.class("duplicate_trio_attempt");
                        ensure!(res.is_err(), "step {step}: a second trio for the asset set {key:?} was created (given order {given:?})");
                    } else {
                        let info = res.map_err(|e| Fail::new(format!("step {step}: creating a new trio {given:?} failed: {e}")))?;
                        let addr = Addr::unchecked(info.contract_addr.clone());
                        r.trios.insert(key, (addr.clone(), given));
                        // registry == child, for every order
                        for pp in PERMS {
                            let infos = [r.assets[key[pp[0]]].clone(), r.assets[key[pp[1]]].clone(), r.assets[key[pp[2]]].clone()];
                            let reg: TrioInfo = r
                                .w
                                .query(&f, &factory::QueryMsg::Trio { asset_infos: infos })
                                .map_err(|e| Fail::new(format!("step {step}: factory does not know the registered trio {key:?}: {e}")))?;
                            let child: TrioInfo = r.w.query(&addr, &trio::QueryMsg::Trio {}).map_err(Fail::new)?;
                            ensure!(reg == child && reg.contract_addr == addr.as_str(), "step {step}: registry entry for trio {key:?} {:?} differs from the trio's own report {:?}", reg, child);
                            ensure!(
                                reg.asset_infos == [r.assets[given[0]].clone(), r.assets[given[1]].clone(), r.assets[given[2]].clone()],
                                "step {step}: registry lists assets {:?} for the trio created with {given:?}",
                                reg.asset_infos
                            );
                        }
                    }
                }
                Op::RemoveTrio { sel, perm } => {
                    if r.trios.is_empty() {
                        continue;
                    }
                    let keys: Vec<[usize; 3]> = r.trios.keys().cloned().collect();
                    let key = keys[gen::idx(*sel, keys.len())];
                    let p = PERMS[(*perm % 6) as usize];
                    let infos = [r.assets[key[p[0]]].clone(), r.assets[key[p[1]]].clone(), r.assets[key[p[2]]].clone()];
                    r.w.exec(&owner, &f, &factory::ExecuteMsg::RemoveTrio { asset_infos: infos.clone() }, &[])
                        .map_err(|e| Fail::new(format!("step {step}: removing the registered trio {key:?} failed: {e}")))?;
                    r.trios.remove(&key);
                    rec.class("trio_removed");
                    let q: Result<TrioInfo, String> = r.w.query(&f, &factory::QueryMsg::Trio { asset_infos: infos });
                    ensure!(q.is_err(), "step {step}: removed trio {key:?} is still returned by the factory");
                }
                Op::CreateVault { a } => {
                    let a = *a as usize % N_ASSETS;
                    let res = r.w.create_vault(&r.assets[a].clone(), vault_fee([1_000_000_000_000_000, 0, 0]));
                    if r.vaults.contains_key(&a) {
                        rec.class("duplicate_vault_attempt");
                        ensure!(res.is_err(), "step {step}: a second vault for asset {a} was created");
                    } else {
                        let (v, _) = res.map_err(|e| Fail::new(format!("step {step}: creating a vault for asset {a} failed: {e}")))?;
                        let cfg: vault::Config = r.w.query(&v, &vault::QueryMsg::Config {}).map_err(Fail::new)?;
                        ensure!(cfg.asset_info == r.assets[a], "step {step}: vault registered for asset {a} reports asset {:?}", cfg.asset_info);
                        r.vaults.insert(a, v);
                    }
                }
                Op::RemoveVault { sel } => {
                    if r.vaults.is_empty() {
                        continue;
                    }
                    let keys: Vec<usize> = r.vaults.keys().cloned().collect();
                    let a = keys[gen::idx(*sel, keys.len())];
                    r.w.exec(&owner, &vf, &vault_factory::ExecuteMsg::RemoveVault { asset_info: r.assets[a].clone() }, &[])
                        .map_err(|e| Fail::new(format!("step {step}: removing the registered vault of asset {a} failed: {e}")))?;
                    r.vaults.remove(&a);
                    rec.class("vault_removed");
                    let q: Option<String> = r.w.query(&vf, &vault_factory::QueryMsg::Vault { asset_info: r.assets[a].clone() }).map_err(Fail::new)?;
                    ensure!(q.is_none(), "step {step}: removed vault of asset {a} is still returned by the factory");
                }
                Op::CreateIncentive { a } => {
                    let a = *a as usize % N_ASSETS;
                    let incf = r.inc_factory.clone();
                    let res = r.w.exec(&owner, &incf, &incentive_factory::ExecuteMsg::CreateIncentive { lp_asset: r.assets[a].clone() }, &[]);
                    if r.incentives.contains_key(&a) {
                        rec.class("duplicate_incentive_attempt");
                        ensure!(res.is_err(), "step {step}: a second incentive contract for LP asset {a} was created");
                    } else {
                        res.map_err(|e| Fail::new(format!("step {step}: creating an incentive for LP asset {a} failed: {e}")))?;
                        let q: incentive_factory::IncentiveResponse = r.w.query(&incf, &incentive_factory::QueryMsg::Incentive { lp_asset: r.assets[a].clone() }).map_err(Fail::new)?;
                        let addr = q.ok_or_else(|| Fail::new(format!("step {step}: new incentive for asset {a} is not registered")))?;
                        let cfg: incentive::ConfigResponse = r.w.query(&addr, &incentive::QueryMsg::Config {}).map_err(Fail::new)?;
                        ensure!(cfg.lp_asset == r.assets[a] && cfg.factory_address == incf, "step {step}: incentive registered for LP {a} reports {:?}", cfg);
                        r.incentives.insert(a, addr);
                    }
                }
                Op::AddRoute { hops } => {
                    let hops: Vec<(usize, usize)> = hops.iter().map(|(a, b)| (*a as usize % N_ASSETS, *b as usize % N_ASSETS)).collect();
                    let chain_ok = hops.windows(2).all(|w| w[0].1 == w[1].0);
                    let all_registered = hops.iter().all(|(a, b)| a != b && r.pairs.contains_key(&(*a.min(b), *a.max(b))));
                    let (from, to) = (hops[0].0, hops[hops.len() - 1].1);
                    let ops: Vec<router::SwapOperation> = hops
                        .iter()
                        .map(|(a, b)| router::SwapOperation::TerraSwap {
                            offer_asset_info: r.assets[*a].clone(),
                            ask_asset_info: r.assets[*b].clone(),
                        })
                        .collect();
                    let res = r.w.exec(
                        &owner,
                        &router_addr,
                        &router::ExecuteMsg::AddSwapRoutes {
                            swap_routes: vec![router::SwapRoute {
                                offer_asset_info: r.assets[from].clone(),
                                ask_asset_info: r.assets[to].clone(),
                                swap_operations: ops,
                            }],
                        },
                        &[],
                    );
                    if !all_registered {
                        rec.class("route_with_unregistered_hop_attempt");
                        ensure!(res.is_err(), "step {step}: a route with an unregistered hop {hops:?} was stored");
                    } else if res.is_ok() {
                        rec.class("route_stored");
                        r.routes.retain(|(f2, t2, _)| !(*f2 == from && *t2 == to));
                        r.routes.push((from, to, hops.clone()));
                        let _ = chain_ok;
                    }
                }
                Op::AddRouteBatch { free, .. } => {
                    let routes: Vec<Vec<(usize, usize)>> = free
                        .iter()
                        .filter(|h| !h.is_empty())
                        .map(|h| h.iter().map(|(a, b)| (*a as usize % N_ASSETS, *b as usize % N_ASSETS)).collect())
                        .collect();
                    if routes.is_empty() {
                        continue;
                    }
                    let to_ops = |hops: &Vec<(usize, usize)>| -> Vec<router::SwapOperation> {
                        hops.iter()
                            .map(|(a, b)| router::SwapOperation::TerraSwap { offer_asset_info: r.assets[*a].clone(), ask_asset_info: r.assets[*b].clone() })
                            .collect()
                    };
                    let ends: Vec<(usize, usize)> = routes.iter().map(|h| (h[0].0, h[h.len() - 1].1)).collect();
                    let valid: Vec<bool> = routes.iter().map(|h| h.iter().all(|(a, b)| a != b && r.pairs.contains_key(&(*a.min(b), *a.max(b))))).collect();
                    let msg_routes: Vec<router::SwapRoute> = routes
                        .iter()
                        .zip(&ends)
                        .map(|(h, (f, t))| router::SwapRoute { offer_asset_info: r.assets[*f].clone(), ask_asset_info: r.assets[*t].clone(), swap_operations: to_ops(h) })
                        .collect();
                    let stored_now = |r: &Reg, f: usize, t: usize| -> Option<Vec<router::SwapOperation>> {
                        r.w.query::<Vec<router::SwapOperation>, _>(&router_addr, &router::QueryMsg::SwapRoute { offer_asset_info: r.assets[f].clone(), ask_asset_info: r.assets[t].clone() }).ok()
                    };
                    let before: Vec<Option<Vec<router::SwapOperation>>> = ends.iter().map(|(f, t)| stored_now(&r, *f, *t)).collect();
                    let res = r.w.exec(&owner, &router_addr, &router::ExecuteMsg::AddSwapRoutes { swap_routes: msg_routes.clone() }, &[]);
                    rec.class(if valid.iter().all(|v| *v) { "route_batch_all_registered" } else if valid.iter().any(|v| *v) { "route_batch_mixed" } else { "route_batch_none_registered" });
                    if res.is_ok() {
                        rec.class("route_batch_accepted");
                        for (i, h) in routes.iter().enumerate() {
                            let (f, t) = ends[i];
                            if valid[i] {
                                r.routes.retain(|(f2, t2, _)| !(*f2 == f && *t2 == t));
                                r.routes.push((f, t, h.clone()));
                            }
                        }
                        for (i, h) in routes.iter().enumerate() {
                            if valid[i] {
                                continue;
                            }
                            let (f, t) = ends[i];
                            // a later valid route of the same batch with the same ends legitimately overwrites the key
                            let after = stored_now(&r, f, t);
                            ensure!(
                                after != Some(msg_routes[i].swap_operations.clone()) || after == before[i],
                                "step {step}: route {h:?} of a batch of {} has an unregistered hop and was stored",
                                routes.len()
                            );
                        }
                    }
                }
                Op::RemoveRoute { sel } => {
                    if r.routes.is_empty() {
                        continue;
                    }
                    let i = gen::idx(*sel, r.routes.len());
                    let (from, to, hops) = r.routes[i].clone();
                    let ops: Vec<router::SwapOperation> = hops
                        .iter()
                        .map(|(a, b)| router::SwapOperation::TerraSwap { offer_asset_info: r.assets[*a].clone(), ask_asset_info: r.assets[*b].clone() })
                        .collect();
                    if r
                        .w
                        .exec(
                            &owner,
                            &router_addr,
                            &router::ExecuteMsg::RemoveSwapRoutes {
                                swap_routes: vec![router::SwapRoute { offer_asset_info: r.assets[from].clone(), ask_asset_info: r.assets[to].clone(), swap_operations: ops }],
                            },
                            &[],
                        )
                        .is_ok()
                    {
                        r.routes.remove(i);
                        let q: Result<Vec<router::SwapOperation>, String> =
                            r.w.query(&router_addr, &router::QueryMsg::SwapRoute { offer_asset_info: r.assets[from].clone(), ask_asset_info: r.assets[to].clone() });
                        ensure!(q.is_err(), "step {step}: removed route {from}->{to} is still returned");
                    }
                }
                Op::ExecRoute { sel, amount } => {
                    if r.routes.is_empty() {
                        continue;
                    }
                    let (from, _to, hops) = r.routes[gen::idx(*sel, r.routes.len())].clone();
                    let stored: Vec<router::SwapOperation> = r
                        .w
                        .query(&router_addr, &router::QueryMsg::SwapRoute { offer_asset_info: r.assets[from].clone(), ask_asset_info: r.assets[_to].clone() })
                        .map_err(|e| Fail::new(format!("step {step}: stored route not returned: {e}")))?;
                    ensure!(stored.len() == hops.len(), "step {step}: stored route has {} hops, registered with {}", stored.len(), hops.len());
                    let all_registered = hops.iter().all(|(a, b)| r.pairs.contains_key(&(*a.min(b), *a.max(b))));
                    let who = r.w.users[1].clone();
                    let amt = amount.u128();
                    let res = match &r.assets[from] {
                        AssetInfo::NativeToken { denom } => r.w.exec(
                            &who,
                            &router_addr,
                            &router::ExecuteMsg::ExecuteSwapOperations { operations: stored, minimum_receive: None, to: None, max_spread: Some(dec(500_000_000_000_000_000)) },
                            &[coin(amt, denom)],
                        ),
                        AssetInfo::Token { contract_addr } => {
                            let t = Addr::unchecked(contract_addr);
                            r.w.cw20_send(
                                &who,
                                &t,
                                &router_addr,
                                amt,
                                &router::Cw20HookMsg::ExecuteSwapOperations { operations: stored, minimum_receive: None, to: None, max_spread: Some(dec(500_000_000_000_000_000)) },
                            )
                        }
                    };
                    if !all_registered {
                        rec.class("route_through_removed_pair_attempt");
                        ensure!(res.is_err(), "step {step}: a route through a de-registered pair ({hops:?}) was executed");
                    } else if res.is_ok() {
                        rec.class("route_executed");
                    }
                }
                Op::ListWhileRemoving { what, limit, remove_at } => {
                    // "listing with pagination returns every entry exactly once", with a removal between two
                    // pages: the removed entry is the one the next page's cursor names. Every entry that
                    // was registered when the walk began must be listed exactly once (the removed one was
                    // on the page before its removal), nothing else may appear.
                    let lim = Some(*limit as u32);
                    let mut seen: Vec<String> = vec![];
                    let mut pages = 0u32;
                    let mut removed = false;
                    let want: Vec<String>;
                    match what % 3 {
                        0 => {
                            let mut w: Vec<String> = r.pairs.values().map(|(a, _, _)| a.to_string()).collect();
                            w.sort();
                            want = w;
                            let mut cursor: Option<[AssetInfo; 2]> = None;
                            loop {
                                let page: factory::PairsResponse = r.w.query(&f, &factory::QueryMsg::Pairs { start_after: cursor.clone(), limit: lim }).map_err(Fail::new)?;
                                if page.pairs.is_empty() || pages > 100 {
                                    break;
                                }
                                seen.extend(page.pairs.iter().map(|p| p.contract_addr.clone()));
                                let last = page.pairs.last().unwrap().clone();
                                cursor = Some(last.asset_infos.clone());
                                if pages == *remove_at as u32 {
                                    r.w.exec(&owner, &f, &factory::ExecuteMsg::RemovePair { asset_infos: last.asset_infos.clone() }, &[])
                                        .map_err(|e| Fail::new(format!("step {step}: removing the listed pair {} failed: {e}", last.contract_addr)))?;
                                    if let Some(k) = r.pairs.iter().find(|(_, v)| v.0.as_str() == last.contract_addr).map(|(k, _)| *k) {
                                        r.pairs.remove(&k);
                                        removed_pairs.insert(k);
                                    }
                                    removed = true;
                                }
                                pages += 1;
                            }
                        }
                        1 => {
                            let mut w: Vec<String> = r.trios.values().map(|(a, _)| a.to_string()).collect();
                            w.sort();
                            want = w;
                            let mut cursor: Option<[AssetInfo; 3]> = None;
                            loop {
                                let page: factory::TriosResponse = r.w.query(&f, &factory::QueryMsg::Trios { start_after: cursor.clone(), limit: lim }).map_err(Fail::new)?;
                                if page.trios.is_empty() || pages > 100 {
                                    break;
                                }
                                seen.extend(page.trios.iter().map(|p| p.contract_addr.clone()));
                                let last = page.trios.last().unwrap().clone();
                                cursor = Some(last.asset_infos.clone());
                                if pages == *remove_at as u32 {
                                    r.w.exec(&owner, &f, &factory::ExecuteMsg::RemoveTrio { asset_infos: last.asset_infos.clone() }, &[])
                                        .map_err(|e| Fail::new(format!("step {step}: removing the listed trio {} failed: {e}", last.contract_addr)))?;
                                    r.trios.retain(|_, v| v.0.as_str() != last.contract_addr);
                                    removed = true;
                                }
                                pages += 1;
                            }
                        }
                        _ => {
                            let mut w: Vec<String> = r.vaults.values().map(|a| a.to_string()).collect();
                            w.sort();
                            want = w;
                            let mut cursor: Option<Vec<u8>> = None;
                            loop {
                                let page: vault_factory::VaultsResponse = r.w.query(&vf, &vault_factory::QueryMsg::Vaults { start_after: cursor.clone(), limit: lim }).map_err(Fail::new)?;
                                if page.vaults.is_empty() || pages > 100 {
                                    break;
                                }
                                seen.extend(page.vaults.iter().map(|p| p.vault.clone()));
                                let last = page.vaults.last().unwrap().clone();
                                cursor = Some(last.asset_info_reference.clone());
                                if pages == *remove_at as u32 {
                                    r.w.exec(&owner, &vf, &vault_factory::ExecuteMsg::RemoveVault { asset_info: last.asset_info.clone() }, &[])
                                        .map_err(|e| Fail::new(format!("step {step}: removing the listed vault {} failed: {e}", last.vault)))?;
                                    r.vaults.retain(|_, v| v.as_str() != last.vault);
                                    removed = true;
                                }
                                pages += 1;
                            }
                        }
                    }
                    // routes through a removed pair stay stored (C19 judges them at execution); the model
                    // keeps them as they are
                    if removed {
                        rec.class("walk_with_cursor_entry_removed");
                        if pages as usize > *remove_at as usize + 1 {
                            rec.class("walk_continued_past_removed_cursor");
                        }
                    }
                    let mut got = seen.clone();
                    got.sort();
                    ensure!(
                        got == want,
                        "step {step}: a paged walk (kind {}, limit {limit}) during which the cursor entry was removed after page {remove_at} listed {seen:?}; registered when the walk began: {want:?}",
                        what % 3
                    );
                }
                Op::List { what, limit } => {
                    // 0 stands for "no limit given": the contracts then page by their default of 10
                    let limit_opt: Option<u32> = if *limit == 0 { None } else { Some(*limit as u32) };
                    let limit = *limit as u32;
                    let eff = limit_opt.unwrap_or(10).min(30) as usize;
                    if limit_opt.is_none() {
                        rec.class("listing_without_a_limit");
                    }
                    match what % 4 {
                        0 => {
                            let mut seen: Vec<String> = vec![];
                            let mut cursor: Option<[AssetInfo; 2]> = None;
                            let mut pages = 0;
                            loop {
                                let page: factory::PairsResponse = r.w.query(&f, &factory::QueryMsg::Pairs { start_after: cursor.clone(), limit: limit_opt }).map_err(Fail::new)?;
                                ensure!(page.pairs.len() <= eff, "step {step}: page of {} pairs for limit {limit}", page.pairs.len());
                                if page.pairs.is_empty() {
                                    break;
                                }
                                pages += 1;
                                for p in &page.pairs {
                                    seen.push(p.contract_addr.clone());
                                }
                                cursor = Some(page.pairs.last().unwrap().asset_infos.clone());
                                if pages > 100 {
                                    return Err(Fail::new(format!("step {step}: pair pagination does not terminate")));
                                }
                            }
                            let mut want: Vec<String> = r.pairs.values().map(|(a, _, _)| a.to_string()).collect();
                            want.sort();
                            let mut got = seen.clone();
                            got.sort();
                            ensure!(got == want, "step {step}: paging pairs with limit {limit} returned {seen:?}, registered {want:?}");
                            if pages > 1 {
                                multi_page += 1;
                                if limit_opt.is_none() {
                                    rec.class("listing_without_a_limit_spanning_several_pages");
                                }
                            }
                        }
                        1 => {
                            let mut seen: Vec<String> = vec![];
                            let mut cursor: Option<[AssetInfo; 3]> = None;
                            let mut pages = 0;
                            loop {
                                let page: factory::TriosResponse = r.w.query(&f, &factory::QueryMsg::Trios { start_after: cursor.clone(), limit: limit_opt }).map_err(Fail::new)?;
                                ensure!(page.trios.len() <= eff, "step {step}: page of {} trios for limit {limit}", page.trios.len());
                                if page.trios.is_empty() {
                                    break;
                                }
                                pages += 1;
                                for p in &page.trios {
                                    seen.push(p.contract_addr.clone());
                                }
                                cursor = Some(page.trios.last().unwrap().asset_infos.clone());
                                if pages > 100 {
                                    return Err(Fail::new(format!("step {step}: trio pagination does not terminate")));
                                }
                            }
                            let mut want: Vec<String> = r.trios.values().map(|(a, _)| a.to_string()).collect();
                            want.sort();
                            let mut got = seen.clone();
                            got.sort();
                            ensure!(got == want, "step {step}: paging trios with limit {limit} returned {seen:?}, registered {want:?}");
                            if pages > 1 {
                                multi_page += 1;
                                if limit_opt.is_none() {
                                    rec.class("listing_without_a_limit_spanning_several_pages");
                                }
                            }
                        }
                        2 => {
                            let mut seen: Vec<String> = vec![];
                            let mut cursor: Option<Vec<u8>> = None;
                            let mut pages = 0;
                            loop {
                                let page: vault_factory::VaultsResponse = r.w.query(&vf, &vault_factory::QueryMsg::Vaults { start_after: cursor.clone(), limit: limit_opt }).map_err(Fail::new)?;
                                ensure!(page.vaults.len() <= eff, "step {step}: page of {} vaults for limit {limit}", page.vaults.len());
                                if page.vaults.is_empty() {
                                    break;
                                }
                                pages += 1;
                                for v in &page.vaults {
                                    seen.push(v.vault.clone());
                                    let a = r.assets.iter().position(|x| *x == v.asset_info);
                                    ensure!(
                                        a.map(|a| r.vaults.get(&a).map(|x| x.as_str() == v.vault).unwrap_or(false)).unwrap_or(false),
                                        "step {step}: vault listing entry {:?} does not match the registry",
                                        v
                                    );
                                }
                                cursor = Some(page.vaults.last().unwrap().asset_info_reference.clone());
                                if pages > 100 {
                                    return Err(Fail::new(format!("step {step}: vault pagination does not terminate")));
                                }
                            }
                            let mut want: Vec<String> = r.vaults.values().map(|a| a.to_string()).collect();
                            want.sort();
                            let mut got = seen.clone();
                            got.sort();
                            ensure!(got == want, "step {step}: paging vaults with limit {limit} returned {seen:?}, registered {want:?}");
                            if pages > 1 {
                                multi_page += 1;
                                if limit_opt.is_none() {
                                    rec.class("listing_without_a_limit_spanning_several_pages");
                                }
                            }
                        }
                        _ => {
                            let incf = r.inc_factory.clone();
                            let mut seen: Vec<String> = vec![];
                            let mut cursor: Option<AssetInfo> = None;
                            let mut pages = 0;
                            loop {
                                let page: incentive_factory::IncentivesResponse = r.w.query(&incf, &incentive_factory::QueryMsg::Incentives { start_after: cursor.clone(), limit: limit_opt }).map_err(Fail::new)?;
                                ensure!(page.len() <= eff, "step {step}: page of {} incentives for limit {limit}", page.len());
                                if page.is_empty() {
                                    break;
                                }
                                pages += 1;
                                let mut last: Option<AssetInfo> = None;
                                for e in &page {
                                    seen.push(e.incentive_address.to_string());
                                    // map the entry back to its LP asset through the model
                                    let a = r.incentives.iter().find(|(_, addr)| **addr == e.incentive_address).map(|(a, _)| *a);
                                    let a = a.ok_or_else(|| Fail::new(format!("step {step}: listed incentive {} is not registered", e.incentive_address)))?;
                                    last = Some(r.assets[a].clone());
                                }
                                cursor = last;
                                if pages > 100 {
                                    return Err(Fail::new(format!("step {step}: incentive pagination does not terminate")));
                                }
                            }
                            let mut want: Vec<String> = r.incentives.values().map(|a| a.to_string()).collect();
                            want.sort();
                            let mut got = seen.clone();
                            got.sort();
                            ensure!(got == want, "step {step}: paging incentives with limit {limit} returned {seen:?}, registered {want:?}");
                            if pages > 1 {
                                multi_page += 1;
                                if limit_opt.is_none() {
                                    rec.class("listing_without_a_limit_spanning_several_pages");
                                }
                            }
                        }
                    }
                }
            }
        }
        if removed_then_recreated >= 1 && multi_page >= 1 {
            rec.nontrivial(hash_of(c));
            rec.sample(c);
        }
        Ok(())
    }
}

pub fn property() -> Property {
    Property {
        id: "C19",
        checks: vec![Box::new(Registries)],
        assumptions: vec![
            "asset names have a fixed length so that no two different asset sets concatenate to the same registry key (key collisions are outside the statement)",
            "incentive contracts cannot be removed from their factory (no such message), so removal / re-creation is exercised for pairs, trios and vaults",
            "routes are stored under asset labels; the universe uses assets with distinct labels",
        ],
    }
}
