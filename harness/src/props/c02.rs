//! C02 — constant-product swap maths: exact, total, no free money (pure, through the hook).

use cosmwasm_std::{Decimal, Uint128};
use proptest::prelude::*;
use serde::{Deserialize, Serialize};

use terraswap_pair::verif_hooks::compute_swap;
use white_whale_std::fee::Fee;
use white_whale_std::pool_network::asset::PairType;
use white_whale_std::pool_network::pair::PoolFee;

use crate::engine::{gen, hash_of, Check, Fail, Property, Rec, TResult, Tier};
use crate::refmath::{cp_swap, to_u128, u, U};
use crate::{ensure, ensure_sig};

#[derive(Clone, Debug, Serialize, Deserialize)]
pub struct Case {
    pub offer_pool: Uint128,
    pub ask_pool: Uint128,
    pub offer: Uint128,
    /// 18-decimal atomics of (protocol, swap, burn)
    pub fees: [Uint128; 3],
    pub decimals: (u8, u8),
}

pub fn pool_fee(fees: [u128; 3]) -> PoolFee {
    PoolFee {
        protocol_fee: Fee {
            share: Decimal::from_atomics(fees[0], 18).unwrap(),
        },
        swap_fee: Fee {
            share: Decimal::from_atomics(fees[1], 18).unwrap(),
        },
        burn_fee: Fee {
            share: Decimal::from_atomics(fees[2], 18).unwrap(),
        },
    }
}

#[derive(Debug)]
pub enum Out {
    Ok {
        ret: u128,
        spread: u128,
        swap: u128,
        protocol: u128,
        burn: u128,
    },
    Err(String),
    Panic(String),
}

pub fn call(op: u128, ap: u128, offer: u128, fees: [u128; 3], dec: (u8, u8)) -> Out {
    let r = std::panic::catch_unwind(|| {
        compute_swap(
            Uint128::new(op),
            Uint128::new(ap),
            Uint128::new(offer),
            pool_fee(fees),
            &PairType::ConstantProduct,
            dec.0,
            dec.1,
        )
    });
    match r {
        Ok(Ok(s)) => Out::Ok {
            ret: s.return_amount.u128(),
            spread: s.spread_amount.u128(),
            swap: s.swap_fee_amount.u128(),
            protocol: s.protocol_fee_amount.u128(),
            burn: s.burn_fee_amount.u128(),
        },
        Ok(Err(e)) => Out::Err(e.to_string()),
        Err(p) => Out::Panic(crate::engine::panic_msg(&p)),
    }
}

/// Checks exactness + totality of one computation; returns (ret, protocol, burn, gross) on Ok.
fn judge(
    op: u128,
    ap: u128,
    offer: u128,
    fees: [u128; 3],
    dec: (u8, u8),
    what: &str,
) -> Result<Option<(u128, u128, u128, u128)>, Fail> {
    let reference = cp_swap(op, ap, offer, fees);
    let fits = reference.spread.bits() <= 128;
    match call(op, ap, offer, fees, dec) {
        Out::Ok {
            ret,
            spread: _,
            swap,
            protocol,
            burn,
        } => {
            let gross = reference.gross;
            ensure!(
                u(ret) + u(swap) + u(protocol) + u(burn) == gross,
                "{what}: return+fees = {} ≠ gross {} (op={op} ap={ap} offer={offer})",
                u(ret) + u(swap) + u(protocol) + u(burn),
                gross
            );
            ensure!(
                u(protocol) == reference.fees[0]
                    && u(swap) == reference.fees[1]
                    && u(burn) == reference.fees[2],
                "{what}: fee split ({protocol},{swap},{burn}) ≠ floors ({},{},{})",
                reference.fees[0],
                reference.fees[1],
                reference.fees[2]
            );
            ensure!(ret < ap, "{what}: proceeds {ret} not below ask reserve {ap}");
            Ok(Some((ret, protocol, burn, to_u128(gross).unwrap())))
        }
        Out::Err(e) => {
            ensure!(
                !fits,
                "{what}: compute_swap returned Err({e}) although every output fits in 128 bits (op={op} ap={ap} offer={offer})"
            );
            Ok(None)
        }
        Out::Panic(m) => {
            ensure_sig!(
                !fits,
                "cp-swap-abort",
                "{what}: compute_swap aborted ({m}) although every output fits in 128 bits (op={op} ap={ap} offer={offer}, documented spread {})",
                reference.spread
            );
            Ok(None)
        }
    }
}

pub struct CpSwapExact;

impl Check for CpSwapExact {
    type Case = Case;
    fn name(&self) -> &'static str {
        "cp_swap_exact_total_roundtrip"
    }
    fn rule(&self) -> &'static str {
        "(offer_pool, ask_pool, offer) with independently log-uniform bit lengths in [1,2^128) plus boundary constants, valid fee triples by construction, any decimals; oracle = U1024 reference (gross floor, fee floors, totality when the documented spread fits 128 bits, there-and-back with the case's fees and with zero fees). Non-trivial: gross >= 1 and a non-zero fee share; distinct by case hash."
    }
    fn strategy(&self, _tier: Tier) -> BoxedStrategy<Case> {
        (
            gen::amount(1, u128::MAX),
            gen::amount(1, u128::MAX),
            gen::amount(1, u128::MAX),
            gen::valid_fee_triple(),
            (0u8..=18, 0u8..=18),
            // correlated shapes: ask_pool tiny relative to offer_pool and a huge offer
            0u8..10,
        )
            .prop_map(|(op, ap, offer, fees, dec, shape)| {
                let (op, ap, offer) = match shape {
                    0 => (op | (1u128 << 100), ap & 0xFFFF | 1, offer | (1u128 << 110)),
                    1 => (op, ap, op), // offer == reserve
                    _ => (op, ap, offer),
                };
                Case {
                    offer_pool: Uint128::new(op),
                    ask_pool: Uint128::new(ap),
                    offer: Uint128::new(offer),
                    fees: [
                        Uint128::new(fees[0]),
                        Uint128::new(fees[1]),
                        Uint128::new(fees[2]),
                    ],
                    decimals: dec,
                }
            })
            .boxed()
    }
    fn cases(&self, tier: Tier) -> u32 {
        tier.pick(4_000_000, 400_000_000)
    }
    fn min_nontrivial(&self) -> f64 {
        0.05
    }
    fn corpus(&self) -> Vec<Case> {
        vec![Case {
            offer_pool: Uint128::new(100_000_000_000_000_000_000),
            ask_pool: Uint128::new(10),
            offer: Uint128::new(1_000_000_000_000_000_000_000_000_000_000),
            fees: [Uint128::zero(); 3],
            decimals: (6, 6),
        }]
    }
    fn test(&self, c: &Case, rec: &Rec) -> TResult {
        let (op, ap, offer) = (c.offer_pool.u128(), c.ask_pool.u128(), c.offer.u128());
        let fees = [c.fees[0].u128(), c.fees[1].u128(), c.fees[2].u128()];
        let reference = cp_swap(op, ap, offer, fees);
        if ap / op.max(1) > 0 && (ap / op) > 1_000_000_000_000_000_000 {
            rec.class("ratio>1e18");
        }
        if op / ap.max(1) > 1_000_000_000_000_000_000 {
            rec.class("inverse_ratio>1e18");
        }
        if offer > (1u128 << 120) {
            rec.class("offer>2^120");
        }
        if reference.spread.bits() > 128 {
            rec.class("spread_overflows_128");
        }
        let nontrivial = !reference.gross.is_zero() && fees.iter().any(|f| *f > 0);
        if nontrivial {
            rec.nontrivial(hash_of(c));
            rec.sample(c);
        }

        let first = judge(op, ap, offer, fees, c.decimals, "swap")?;
        let Some((ret, protocol, burn, _gross)) = first else {
            rec.class("outside_totality_domain");
            return Ok(());
        };
        rec.class("computed");

        // there and straight back, on the reserves as the contract updates them
        if let Some(op2) = op.checked_add(offer) {
            let ap2 = ap - ret - protocol - burn;
            if ret >= 1 && ap2 >= 1 {
                for (label, f2) in [("back", fees), ("back_zero_fee", [0, 0, 0])] {
                    // first leg with the same fee set as the way back
                    let (ret_a, ap_a) = if label == "back" {
                        (ret, ap2)
                    } else {
                        match judge(op, ap, offer, [0, 0, 0], c.decimals, "swap_zero_fee")? {
                            Some((r, p, b, _)) => (r, ap - r - p - b),
                            None => continue,
                        }
                    };
                    if ret_a == 0 || ap_a == 0 {
                        continue;
                    }
                    if let Some((back, _, _, _)) =
                        judge(ap_a, op2, ret_a, f2, (c.decimals.1, c.decimals.0), label)?
                    {
                        rec.class("roundtrip_checked");
                        ensure!(
                            back <= offer,
                            "{label}: swapping {offer} there and {ret_a} back returned {back} > {offer} (op={op} ap={ap})"
                        );
                    }
                }
            }
        }
        Ok(())
    }
}

/// Monotonicity / upper-bound relation used as a second, metamorphic oracle: a larger offer never
/// yields smaller gross proceeds, and gross proceeds never exceed offer·ask/offer_pool.
pub struct CpSwapMonotone;

#[derive(Clone, Debug, Serialize, Deserialize)]
pub struct MonoCase {
    pub offer_pool: Uint128,
    pub ask_pool: Uint128,
    pub offer: Uint128,
    pub delta: Uint128,
    pub fees: [Uint128; 3],
}

impl Check for CpSwapMonotone {
    type Case = MonoCase;
    fn name(&self) -> &'static str {
        "cp_swap_monotone"
    }
    fn rule(&self) -> &'static str {
        "pairs (offer, offer+delta) on the same reserves; metamorphic oracle: gross(offer+delta) >= gross(offer) (and net proceeds when at most one fee share is non-zero) for computed results. Non-trivial: both computed and gross >= 1."
    }
    fn strategy(&self, _tier: Tier) -> BoxedStrategy<MonoCase> {
        (
            gen::amount(1, u128::MAX),
            gen::amount(1, u128::MAX),
            gen::amount(1, u128::MAX >> 1),
            gen::amount(0, u128::MAX >> 1),
            gen::valid_fee_triple(),
        )
            .prop_map(|(op, ap, offer, delta, fees)| MonoCase {
                offer_pool: Uint128::new(op),
                ask_pool: Uint128::new(ap),
                offer: Uint128::new(offer),
                delta: Uint128::new(delta),
                fees: [
                    Uint128::new(fees[0]),
                    Uint128::new(fees[1]),
                    Uint128::new(fees[2]),
                ],
            })
            .boxed()
    }
    fn cases(&self, tier: Tier) -> u32 {
        tier.pick(1_000_000, 100_000_000)
    }
    fn test(&self, c: &MonoCase, rec: &Rec) -> TResult {
        let (op, ap, o1) = (c.offer_pool.u128(), c.ask_pool.u128(), c.offer.u128());
        let o2 = o1 + c.delta.u128();
        let fees = [c.fees[0].u128(), c.fees[1].u128(), c.fees[2].u128()];
        let a = call(op, ap, o1, fees, (6, 6));
        let b = call(op, ap, o2, fees, (6, 6));
        if let (
            Out::Ok {
                ret: r1,
                swap: s1,
                protocol: p1,
                burn: b1,
                ..
            },
            Out::Ok {
                ret: r2,
                swap: s2,
                protocol: p2,
                burn: b2,
                ..
            },
        ) = (&a, &b)
        {
            let g1: U = u(*r1) + u(*s1) + u(*p1) + u(*b1);
            let g2: U = u(*r2) + u(*s2) + u(*p2) + u(*b2);
            if !g1.is_zero() {
                rec.nontrivial(hash_of(c));
                rec.sample(c);
            }
            ensure!(g2 >= g1, "gross not monotone: offer {o1}->{g1}, offer {o2}->{g2}");
            // net proceeds are monotone only when at most one share is non-zero (with several
            // shares the independent floors can jump by up to 2 units per unit of gross)
            if fees.iter().filter(|f| **f > 0).count() <= 1 {
                ensure!(r2 >= r1, "proceeds not monotone: offer {o1}->{r1}, offer {o2}->{r2}");
            }
            // never more than the marginal price allows
            ensure!(
                g2 * u(op) <= u(o2) * u(ap),
                "gross {g2} exceeds offer*ask/offer_pool"
            );
        }
        Ok(())
    }
}

pub fn property() -> Property {
    Property {
        id: "C02",
        checks: vec![Box::new(CpSwapExact), Box::new(CpSwapMonotone)],
        assumptions: vec![
            "compute_swap is driven through the cfg(wwcore_verif) re-export; commands::swap and queries::query_simulation call the same function (checked by C14)",
            "reference arithmetic: bnum 1024-bit integers (refmath.rs), self-tested against brute force at start-up",
            "a contract panic is an abort (Wasm trap)",
        ],
    }
}
