//! C11 — incentive custody of staked LP: held one-for-one and returned to its owner.

use std::collections::BTreeMap;

use cosmwasm_std::{coin, Addr, Uint128};
use proptest::prelude::*;
use serde::{Deserialize, Serialize};

use white_whale_std::pool_network::asset::AssetInfo;
use white_whale_std::pool_network::incentive as inc;

use crate::engine::{gen, hash_of, Check, Fail, Property, Rec, TResult, Tier};
use crate::ensure;
use crate::incentives::{flow_id, outstanding_of, FeeKind, IncCfg, IncWorld, LpKind};
use crate::world::asset;

pub const DURS: [u64; 6] = [86_400, 604_800, 2_592_000, 31_556_926, 86_399, 31_556_927];

#[derive(Clone, Debug, Serialize, Deserialize)]
pub enum Provided {
    Exact,
    Less(Uint128),
    More(Uint128),
    Nothing,
}

#[derive(Clone, Debug, Serialize, Deserialize)]
pub enum Op {
    Position { expand: bool, user: u8, amount: Uint128, provided: Provided, dur: u8, receiver: Option<u8> },
    /// `pick`: choose (user, duration) among existing open positions
    Close { user: u8, dur: u8, pick: Option<u16> },
    /// expand an existing open position (picked by index) with exact funds
    ExpandExisting { pick: u16, amount: Uint128, by_other: bool },
    /// withdraw by a user that has closed positions
    WithdrawPick { pick: u16 },
    Withdraw { user: u8 },
    /// `extra`: 0-3 exact funds; 4 = one unit too many of the first native pool denom; 5 = twice the
    /// stated amount of it; 6 = an unrelated coin on top ("urew"); 7 = both a surplus and an unrelated coin
    HelperDeposit {
        user: u8,
        a0: Uint128,
        a1: Uint128,
        dur: u8,
        #[serde(default)]
        extra: u8,
    },
    OpenFlowLp { user: u8, declared: Uint128, exact: bool },
    ExpandFlowLp { sel: u16, amount: Uint128 },
    CloseFlowLp { sel: u16 },
    Claim { user: u8 },
    Snapshot,
    NewEpoch { n: u8 },
}

#[derive(Clone, Debug, Serialize, Deserialize)]
pub struct Case {
    pub lp: LpKind,
    pub ops: Vec<Op>,
}

fn provided() -> BoxedStrategy<Provided> {
    prop_oneof![
        10 => Just(Provided::Exact),
        2 => gen::amount(1, 1u128 << 40).prop_map(|k| Provided::Less(Uint128::new(k))),
        2 => gen::amount(1, 1u128 << 40).prop_map(|k| Provided::More(Uint128::new(k))),
        1 => Just(Provided::Nothing),
    ]
    .boxed()
}

fn dur() -> BoxedStrategy<u8> {
    prop_oneof![12 => 0u8..4, 1 => Just(4u8), 1 => Just(5u8)].boxed()
}

fn op() -> BoxedStrategy<Op> {
    prop_oneof![
        10 => (any::<bool>(), 0u8..4, gen::amount(0, 1u128 << 68), provided(), dur(), proptest::option::weighted(0.25, 0u8..4))
            .prop_map(|(expand, user, amount, provided, dur, receiver)| Op::Position { expand, user, amount: Uint128::new(amount), provided, dur, receiver }),
        2 => (0u8..4, dur()).prop_map(|(user, dur)| Op::Close { user, dur, pick: None }),
        6 => any::<u16>().prop_map(|p| Op::Close { user: 0, dur: 0, pick: Some(p) }),
        5 => (any::<u16>(), gen::amount(1, 1u128 << 60), proptest::bool::weighted(0.2)).prop_map(|(pick, a, by_other)| Op::ExpandExisting { pick, amount: Uint128::new(a), by_other }),
        4 => any::<u16>().prop_map(|pick| Op::WithdrawPick { pick }),
        5 => (0u8..4).prop_map(|user| Op::Withdraw { user }),
        3 => (0u8..4, gen::amount(1, 1u128 << 60), gen::amount(1, 1u128 << 60), dur(), 0u8..8).prop_map(|(user, a0, a1, dur, extra)| Op::HelperDeposit { user, a0: Uint128::new(a0), a1: Uint128::new(a1), dur, extra }),
        2 => (0u8..4, gen::amount(1000, 1u128 << 60), proptest::bool::weighted(0.85)).prop_map(|(user, d, exact)| Op::OpenFlowLp { user, declared: Uint128::new(d), exact }),
        1 => (any::<u16>(), gen::amount(1, 1u128 << 50)).prop_map(|(sel, a)| Op::ExpandFlowLp { sel, amount: Uint128::new(a) }),
        1 => any::<u16>().prop_map(|sel| Op::CloseFlowLp { sel }),
        3 => (0u8..4).prop_map(|user| Op::Claim { user }),
        2 => Just(Op::Snapshot),
        3 => prop_oneof![5 => Just(1u8), 1 => 2u8..5].prop_map(|n| Op::NewEpoch { n }),
    ]
    .boxed()
}

pub struct LpCustody;

struct Model {
    open: BTreeMap<(usize, u64), u128>,
    closed: [u128; 4],
    flows: BTreeMap<u64, u128>,
}

impl Model {
    fn total(&self) -> u128 {
        self.open.values().sum::<u128>() + self.closed.iter().sum::<u128>() + self.flows.values().sum::<u128>()
    }
}

fn check_state(iw: &IncWorld, m: &Model, step: usize, op: &Op) -> TResult {
    let b = iw.w.bal(&iw.lp, &iw.incentive);
    ensure!(
        b == m.total(),
        "step {step} ({op:?}): the incentive contract holds {b} LP but open positions {} + closed positions {} + unclaimed LP flow funds {} = {}",
        m.open.values().sum::<u128>(),
        m.closed.iter().sum::<u128>(),
        m.flows.values().sum::<u128>(),
        m.total()
    );
    for u in 0..4usize {
        let usr = iw.user(u as u8);
        let p = iw.positions(&usr).map_err(|e| Fail::new(format!("Positions query failed: {e}")))?;
        let mut open: BTreeMap<u64, u128> = BTreeMap::new();
        let mut closed = 0u128;
        for q in p.positions {
            match q {
                inc::QueryPosition::OpenPosition { amount, unbonding_duration, .. } => {
                    *open.entry(unbonding_duration).or_insert(0) += amount.u128();
                }
                inc::QueryPosition::ClosedPosition { amount, .. } => closed += amount.u128(),
            }
        }
        let want: BTreeMap<u64, u128> = m.open.iter().filter(|((uu, _), _)| *uu == u).map(|((_, d), a)| (*d, *a)).collect();
        ensure!(
            open == want && closed == m.closed[u],
            "step {step} ({op:?}): Positions({usr}) reports open {open:?} / closed {closed}, model has open {want:?} / closed {}",
            m.closed[u]
        );
    }
    // LP flows
    let flows = iw.flows_raw();
    for f in flows.iter().filter(|f| f.flow_asset.info == iw.lp) {
        let want = m.flows.get(&f.flow_id).copied().unwrap_or(0);
        ensure!(
            outstanding_of(f) == want,
            "step {step} ({op:?}): LP flow {} says funded − claimed = {} but tokens received − paid = {want}",
            f.flow_id,
            outstanding_of(f)
        );
    }
    Ok(())
}

impl Check for LpCustody {
    type Case = Case;
    fn name(&self) -> &'static str {
        "lp_custody_history"
    }
    fn rule(&self) -> &'static str {
        "incentive contract over a cw20 LP, a native-denom LP, or the cw20 LP token of a real pair (with the frontend helper), created through the incentive factory; 4 users; up to 40/120 operations {open / expand position with declared amount and exact / smaller / larger / no funds or allowance, any of four allowed durations or one just outside each bound, optional receiver; close; withdraw; deposit through the frontend helper -> pair -> incentive; open / expand / close a flow whose reward asset is the LP asset itself; claim; snapshot; new epochs}. Reference model: open[user][duration], closed[user], LP-flow funds from observed transfers. After every step: LP balance of the contract == open + closed + unclaimed LP-flow funds; Positions query == model for every user; a position changes only by the amount the contract actually received; a withdrawal pays exactly the caller's closed positions to the caller and nobody else; the frontend helper's balances of LP and of both pair assets are unchanged by a helper deposit, successful or not. Non-trivial: >= 1 successful withdrawal of a closed position with >= 2 users holding positions."
    }
    fn strategy(&self, tier: Tier) -> BoxedStrategy<Case> {
        let max_ops = tier.pick(40usize, 120usize);
        let free = (
            prop_oneof![Just(LpKind::Cw20), Just(LpKind::Native), Just(LpKind::PairLp), Just(LpKind::PairLpCw20)],
            prop::collection::vec(op(), 2..max_ops),
        )
            .prop_map(|(lp, ops)| Case { lp, ops })
            .boxed();
        // directed shape: one address accumulates many closed positions (open and close the same duration
        // over and over without withdrawing), waits, and withdraws
        let many_closed = (prop_oneof![Just(LpKind::Cw20), Just(LpKind::Native)], 0u8..4, Just(0u8), 21usize..30, gen::amount(1, 1u128 << 40), prop::collection::vec(op(), 0..8))
            .prop_map(|(lp, user, dur, n, amount, tail)| {
                let mut ops = vec![];
                for i in 0..n {
                    ops.push(Op::Position { expand: false, user, amount: Uint128::new(amount + i as u128), provided: Provided::Exact, dur, receiver: None });
                    ops.push(Op::Close { user, dur, pick: None });
                }
                ops.push(Op::NewEpoch { n: 4 });
                ops.push(Op::Withdraw { user });
                ops.push(Op::Withdraw { user });
                ops.extend(tail);
                Case { lp, ops }
            })
            .boxed();
        prop_oneof![14 => free, 1 => many_closed].boxed()
    }
    fn cases(&self, tier: Tier) -> u32 {
        tier.pick(40_000, 2_000_000)
    }
    fn min_nontrivial(&self) -> f64 {
        0.02
    }
    fn test(&self, c: &Case, rec: &Rec) -> TResult {
        let cfg = IncCfg {
            lp: c.lp.clone(),
            flow0_cw20: true,
            fee: FeeKind::Native,
            fee_amount: Uint128::new(1000),
            max_concurrent_flows: 4,
        };
        let mut iw = IncWorld::build(&cfg).map_err(|e| Fail::new(format!("world build failed: {e}")))?;
        let mut m = Model {
            open: BTreeMap::new(),
            closed: [0; 4],
            flows: BTreeMap::new(),
        };
        let mut withdrawals = 0;
        for (step, op) in c.ops.iter().enumerate() {
            match op {
                Op::Position { expand, user, amount, provided, dur, receiver } => {
                    let who = iw.user(*user);
                    let u_recv = receiver.map(|r| (r % 4) as usize).unwrap_or((*user % 4) as usize);
                    let recv = receiver.map(|r| iw.user(r));
                    let a = amount.u128();
                    let d = DURS[(*dur % 6) as usize];
                    let p = match provided {
                        Provided::Exact => a,
                        Provided::Less(k) => a.saturating_sub(k.u128()),
                        Provided::More(k) => a + k.u128(),
                        Provided::Nothing => 0,
                    };
                    let b0 = iw.w.bal(&iw.lp, &iw.incentive);
                    let s0 = iw.w.bal(&iw.lp, &who);
                    let r = iw.position_msg(&who, *expand, a, p, d, recv.as_ref());
                    match r {
                        Ok(_) => {
                            rec.class(if *expand { "expand_ok" } else { "open_ok" });
                            if receiver.is_some() {
                                rec.class("position_for_receiver_ok");
                            }
                            let got = iw.w.bal(&iw.lp, &iw.incentive) - b0;
                            ensure!(
                                got == a && s0 - iw.w.bal(&iw.lp, &who) == a,
                                "step {step}: a position of {a} LP was {} although the contract received {got} (sender provided {p})",
                                if *expand { "expanded" } else { "opened" }
                            );
                            ensure!(d >= 86_400 && d <= 31_556_926, "step {step}: position accepted with unbonding duration {d} outside the allowed range");
                            let e = m.open.entry((u_recv, d)).or_insert(0);
                            if *expand {
                                ensure!(*e > 0, "step {step}: expanded a non-existent position");
                            } else {
                                ensure!(*e == 0, "step {step}: opened a duplicate position");
                            }
                            *e += a;
                        }
                        Err(_) => rec.class("position_rejected"),
                    }
                }
                Op::ExpandExisting { pick, amount, by_other } => {
                    let keys: Vec<(usize, u64)> = m.open.keys().cloned().collect();
                    if keys.is_empty() {
                        continue;
                    }
                    let (u, d) = keys[gen::idx(*pick, keys.len())];
                    let owner_of_pos = iw.user(u as u8);
                    let who = if *by_other { iw.user((u as u8 + 1) % 4) } else { owner_of_pos.clone() };
                    let a = amount.u128();
                    let b0 = iw.w.bal(&iw.lp, &iw.incentive);
                    if iw.position_msg(&who, true, a, a, d, if *by_other { Some(&owner_of_pos) } else { None }).is_ok() {
                        rec.class("expand_ok");
                        let got = iw.w.bal(&iw.lp, &iw.incentive) - b0;
                        ensure!(got == a, "step {step}: position expanded by {a} but the contract received {got}");
                        *m.open.get_mut(&(u, d)).unwrap() += a;
                    }
                }
                Op::WithdrawPick { .. } | Op::Withdraw { .. } => {
                    let user: u8 = match op {
                        Op::Withdraw { user } => *user,
                        Op::WithdrawPick { pick } => {
                            let elig: Vec<u8> = (0..4u8).filter(|u| m.closed[*u as usize] > 0).collect();
                            if elig.is_empty() { 0 } else { elig[gen::idx(*pick, elig.len())] }
                        }
                        _ => unreachable!(),
                    };
                    let user = &user;
                    let who = iw.user(*user);
                    let u = (*user % 4) as usize;
                    let bals: Vec<u128> = (0..4).map(|i| iw.w.bal(&iw.lp, &iw.user(i))).collect();
                    if iw.exec_inc(&who, &inc::ExecuteMsg::Withdraw {}, &[]).is_ok() {
                        for i in 0..4usize {
                            let d = iw.w.bal(&iw.lp, &iw.user(i as u8)) - bals[i];
                            if i == u {
                                ensure!(
                                    d == m.closed[u],
                                    "step {step}: withdrawal paid {d} LP to {who} whose closed positions sum to {}",
                                    m.closed[u]
                                );
                            } else {
                                ensure!(d == 0, "step {step}: a withdrawal by {who} paid {d} LP to another user");
                            }
                        }
                        if m.closed[u] > 0 {
                            withdrawals += 1;
                            rec.class("withdraw_paid");
                        }
                        m.closed[u] = 0;
                    }
                }
                Op::Close { user, dur, pick } => {
                    let (mut user, mut d) = (*user, DURS[(*dur % 6) as usize]);
                    if let Some(p) = pick {
                        let keys: Vec<(usize, u64)> = m.open.keys().cloned().collect();
                        if !keys.is_empty() {
                            let k = keys[gen::idx(*p, keys.len())];
                            user = k.0 as u8;
                            d = k.1;
                        }
                    }
                    let user = &user;
                    let who = iw.user(*user);
                    let u = (*user % 4) as usize;
                    if iw.exec_inc(&who, &inc::ExecuteMsg::ClosePosition { unbonding_duration: d }, &[]).is_ok() {
                        rec.class("close_ok");
                        let a = m.open.remove(&(u, d)).unwrap_or(0);
                        ensure!(a > 0, "step {step}: closed a position the model does not have");
                        m.closed[u] += a;
                    }
                }
                Op::HelperDeposit { user, a0, a1, dur, extra } => {
                    let (Some(helper), Some(pair), Some(pa)) = (iw.helper.clone(), iw.pair.clone(), iw.pair_assets.clone()) else {
                        continue;
                    };
                    let who = iw.user(*user);
                    let u = (*user % 4) as usize;
                    let d = DURS[(*dur % 6) as usize];
                    // everything the helper could be left holding: the LP, both pool assets and every bank
                    // denom of the world (funds attached beyond the stated amounts included)
                    let helper_holdings = |iw: &IncWorld| -> Vec<u128> {
                        let mut v = vec![iw.w.bal(&iw.lp, &helper), iw.w.bal(&pa[0], &helper), iw.w.bal(&pa[1], &helper)];
                        for d in ["ulp", "urew", "urewf", "uaaa", "ubbb"] {
                            v.push(iw.w.bank(&helper, d));
                        }
                        v
                    };
                    let hb = helper_holdings(&iw);
                    let b0 = iw.w.bal(&iw.lp, &iw.incentive);
                    let mut funds = vec![];
                    for (i, amt) in [a0.u128(), a1.u128()].iter().enumerate() {
                        match &pa[i] {
                            AssetInfo::NativeToken { denom } => funds.push(coin(*amt, denom)),
                            AssetInfo::Token { contract_addr } => {
                                // the helper demands an allowance of exactly the amount; one deposit in
                                // eight approves one unit more or less instead
                                let t = cosmwasm_std::Addr::unchecked(contract_addr);
                                let want = match amt % 8 {
                                    0 => amt.saturating_sub(1),
                                    1 => amt + 1,
                                    _ => *amt,
                                };
                                let cur: cw20::AllowanceResponse = iw
                                    .w
                                    .query(&t, &cw20::Cw20QueryMsg::Allowance { owner: who.to_string(), spender: helper.to_string() })
                                    .unwrap_or(cw20::AllowanceResponse { allowance: Uint128::zero(), expires: cw20::Expiration::Never {} });
                                if !cur.allowance.is_zero() {
                                    let _ = iw.w.exec(&who, &t, &cw20::Cw20ExecuteMsg::DecreaseAllowance { spender: helper.to_string(), amount: cur.allowance, expires: None }, &[]);
                                }
                                if want > 0 {
                                    iw.w.increase_allowance(&who, &t, &helper, want);
                                }
                                rec.class("helper_deposit_with_cw20_asset");
                            }
                        }
                    }
                    if matches!(*extra % 8, 4 | 5 | 7) {
                        if let Some(c) = funds.first_mut() {
                            c.amount += if *extra % 8 == 5 { c.amount } else { Uint128::one() };
                            rec.class("helper_deposit_with_surplus_funds");
                        }
                    }
                    if matches!(*extra % 8, 6 | 7) {
                        funds.push(coin(7, "urew"));
                        rec.class("helper_deposit_with_unrelated_coin");
                    }
                    funds.sort_by(|a, b| a.denom.cmp(&b.denom));
                    let r = iw.w.exec(
                        &who,
                        &helper,
                        &white_whale_std::pool_network::frontend_helper::ExecuteMsg::Deposit {
                            pair_address: pair.to_string(),
                            assets: [asset(&pa[0], a0.u128()), asset(&pa[1], a1.u128())],
                            slippage_tolerance: None,
                            unbonding_duration: d,
                        },
                        &funds,
                    );
                    let ha = helper_holdings(&iw);
                    ensure!(
                        ha == hb,
                        "step {step}: the frontend helper's holdings (LP, pool assets, then bank denoms ulp/urew/urewf/uaaa/ubbb) changed across a deposit: {hb:?} -> {ha:?} (result ok: {})",
                        r.is_ok()
                    );
                    if r.is_ok() {
                        rec.class("helper_deposit_ok");
                        let got = iw.w.bal(&iw.lp, &iw.incentive) - b0;
                        ensure!(got > 0, "step {step}: helper deposit succeeded but no LP reached the incentive contract");
                        *m.open.entry((u, d)).or_insert(0) += got;
                    } else {
                        rec.class("helper_deposit_rejected");
                    }
                }
                Op::OpenFlowLp { user, declared, exact } => {
                    let who = iw.user(*user);
                    let lp = iw.lp.clone();
                    let dcl = declared.u128();
                    let send = if *exact { dcl } else { dcl - 1 };
                    let mut funds = vec![coin(1000, "urewf")];
                    match &lp {
                        AssetInfo::NativeToken { denom } => funds.push(coin(send, denom)),
                        AssetInfo::Token { .. } => iw.set_allowance(&who, &lp, send),
                    }
                    funds.sort_by(|a, b| a.denom.cmp(&b.denom));
                    let b0 = iw.w.bal(&lp, &iw.incentive);
                    let ids: Vec<u64> = iw.flows_raw().iter().map(|f| f.flow_id).collect();
                    let r = iw.exec_inc(
                        &who,
                        &inc::ExecuteMsg::OpenFlow {
                            start_epoch: None,
                            end_epoch: None,
                            curve: None,
                            flow_asset: asset(&lp, dcl),
                            flow_label: None,
                        },
                        &funds,
                    );
                    if r.is_ok() {
                        rec.class("lp_flow_opened");
                        let got = iw.w.bal(&lp, &iw.incentive) - b0;
                        let new = iw.flows_raw().into_iter().find(|f| !ids.contains(&f.flow_id));
                        if let Some(f) = new {
                            m.flows.insert(f.flow_id, got);
                        }
                    }
                }
                Op::ExpandFlowLp { sel, amount } => {
                    let flows: Vec<_> = iw.flows_raw().into_iter().filter(|f| f.flow_asset.info == iw.lp).collect();
                    if flows.is_empty() {
                        continue;
                    }
                    let f = flows[gen::idx(*sel, flows.len())].clone();
                    let who = f.flow_creator.clone();
                    let lp = iw.lp.clone();
                    let a = amount.u128();
                    let funds = match &lp {
                        AssetInfo::NativeToken { denom } => vec![coin(a, denom)],
                        AssetInfo::Token { .. } => {
                            iw.set_allowance(&who, &lp, a);
                            vec![]
                        }
                    };
                    let b0 = iw.w.bal(&lp, &iw.incentive);
                    if iw
                        .exec_inc(
                            &who,
                            &inc::ExecuteMsg::ExpandFlow {
                                flow_identifier: flow_id(f.flow_id),
                                end_epoch: None,
                                flow_asset: asset(&lp, a),
                            },
                            &funds,
                        )
                        .is_ok()
                    {
                        rec.class("lp_flow_expanded");
                        let got = iw.w.bal(&lp, &iw.incentive) - b0;
                        *m.flows.entry(f.flow_id).or_insert(0) += got;
                    }
                }
                Op::CloseFlowLp { sel } => {
                    let flows: Vec<_> = iw.flows_raw().into_iter().filter(|f| f.flow_asset.info == iw.lp).collect();
                    if flows.is_empty() {
                        continue;
                    }
                    let f = flows[gen::idx(*sel, flows.len())].clone();
                    let who = f.flow_creator.clone();
                    let b0 = iw.w.bal(&iw.lp, &iw.incentive);
                    if iw.exec_inc(&who, &inc::ExecuteMsg::CloseFlow { flow_identifier: flow_id(f.flow_id) }, &[]).is_ok() {
                        rec.class("lp_flow_closed");
                        let out = b0 - iw.w.bal(&iw.lp, &iw.incentive);
                        let want = m.flows.remove(&f.flow_id).unwrap_or(0);
                        ensure!(out == want, "step {step}: closing LP flow {} paid {out}, outstanding {want}", f.flow_id);
                    }
                }
                Op::Claim { user } => {
                    let who = iw.user(*user);
                    let before = iw.flows_raw();
                    let b0 = iw.w.bal(&iw.lp, &iw.incentive);
                    if iw.exec_inc(&who, &inc::ExecuteMsg::Claim {}, &[]).is_ok() {
                        rec.class("claim_ok");
                        let after = iw.flows_raw();
                        let mut paid = 0u128;
                        for f in after.iter().filter(|f| f.flow_asset.info == iw.lp) {
                            let was = before.iter().find(|x| x.flow_id == f.flow_id).map(|x| x.claimed_amount.u128()).unwrap_or(0);
                            let d = f.claimed_amount.u128().saturating_sub(was);
                            if d > 0 {
                                let o = m.flows.entry(f.flow_id).or_insert(0);
                                ensure!(*o >= d, "step {step}: LP flow {} paid {d} with only {o} outstanding", f.flow_id);
                                *o -= d;
                                paid += d;
                            }
                        }
                        let out = b0 - iw.w.bal(&iw.lp, &iw.incentive);
                        ensure!(out == paid, "step {step}: a claim moved {out} LP out of the contract but LP flows paid {paid}");
                    }
                }
                Op::Snapshot => {
                    let who = iw.user(2);
                    let _ = iw.exec_inc(&who, &inc::ExecuteMsg::TakeGlobalWeightSnapshot {}, &[]);
                }
                Op::NewEpoch { n } => {
                    for _ in 0..*n {
                        iw.new_epoch();
                    }
                }
            }
            check_state(&iw, &m, step, op)?;
        }
        let holders = (0..4).filter(|u| m.open.keys().any(|(uu, _)| uu == u)).count();
        if withdrawals >= 1 && holders >= 1 {
            rec.nontrivial(hash_of(c));
            rec.sample(c);
        }
        Ok(())
    }
}

pub fn property() -> Property {
    Property {
        id: "C11",
        checks: vec![Box::new(LpCustody)],
        assumptions: vec![
            "token-factory LP builds are not exercised: the native LP is a plain bank denom (the incentive contract treats it as one)",
            "the epoch clock is the repository's fee-distributor mock",
            "withdrawals pay every closed position of the caller (the contract has no maturity check; the property claims none)",
        ],
    }
}

#[allow(dead_code)]
fn _unused(_: Addr) {}
