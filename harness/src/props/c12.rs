//! C12 — incentive flows are fully funded and fully returned.

use std::collections::BTreeMap;

use cosmwasm_std::{coin, Addr, Coin, Uint128};
use proptest::prelude::*;
use serde::{Deserialize, Serialize};

use white_whale_std::pool_network::asset::AssetInfo;
use white_whale_std::pool_network::incentive as inc;

use crate::engine::{gen, hash_of, Check, Fail, Property, Rec, TResult, Tier};
use crate::ensure;
use crate::incentives::{end_of, flow_id, funded_of, outstanding_of, FeeKind, IncCfg, IncWorld, LpKind, MIN_DUR};
use crate::world::asset;

#[derive(Clone, Debug, Serialize, Deserialize)]
pub enum Funds {
    Exact,
    /// only the creation fee is provided, nothing for the flow itself
    OnlyFee,
    /// the flow-asset part is short by k
    FlowShort(Uint128),
    /// the fee part is short by 1
    FeeShort,
    /// fee overpaid by k
    FeeExtra(Uint128),
    Nothing,
}

#[derive(Clone, Debug, Serialize, Deserialize)]
pub enum Closer {
    Creator,
    FactoryOwner,
    Stranger(u8),
}

#[derive(Clone, Debug, Serialize, Deserialize)]
pub enum Op {
    OpenFlow {
        user: u8,
        asset: u8,
        declared: Uint128,
        funds: Funds,
        /// start = current + s (None = default)
        start: Option<u8>,
        /// end = start + e (None = default)
        end: Option<u16>,
        /// give the flow a (unique) label
        #[serde(default)]
        label: bool,
    },
    ExpandFlow {
        sel: u16,
        by_creator: bool,
        amount: Uint128,
        short: bool,
        end_plus: Option<u16>,
        /// name the flow by its label (when it has one) instead of its id
        #[serde(default)]
        by_label: bool,
    },
    CloseFlow {
        sel: u16,
        who: Closer,
        #[serde(default)]
        by_label: bool,
    },
    OpenPos { user: u8, amount: Uint128, long: bool },
    ClosePos { user: u8, long: bool },
    Snapshot,
    NewEpoch {
        n: u8,
        /// take the global-weight snapshot in every one of the new epochs
        #[serde(default)]
        snapshot: bool,
    },
    Claim { user: u8 },
}

#[derive(Clone, Debug, Serialize, Deserialize)]
pub struct Case {
    pub cfg: IncCfg,
    pub ops: Vec<Op>,
}

fn funds() -> BoxedStrategy<Funds> {
    prop_oneof![
        10 => Just(Funds::Exact),
        3 => Just(Funds::OnlyFee),
        2 => gen::amount(1, 1u128 << 40).prop_map(|k| Funds::FlowShort(Uint128::new(k))),
        1 => Just(Funds::FeeShort),
        2 => gen::amount(1, 1u128 << 30).prop_map(|k| Funds::FeeExtra(Uint128::new(k))),
        1 => Just(Funds::Nothing),
    ]
    .boxed()
}

fn op() -> BoxedStrategy<Op> {
    prop_oneof![
        6 => (0u8..4, prop_oneof![3 => 0u8..2, 1 => Just(2u8)], gen::amount(1, 1u128 << 80), funds(), proptest::option::weighted(0.5, prop_oneof![3 => 0u8..16, 2 => 16u8..28]), proptest::option::weighted(0.6, prop_oneof![4 => 0u16..40, 2 => 170u16..400]))
            .prop_map(|(user, asset, declared, funds, start, end)| Op::OpenFlow { user, asset, declared: Uint128::new(declared), funds, start, end, label: declared % 2 == 1 }),
        6 => (any::<u16>(), any::<bool>(), gen::amount(1, 1u128 << 70), proptest::bool::weighted(0.15), proptest::option::weighted(0.5, prop_oneof![3 => 0u16..30, 1 => 150u16..300]))
            .prop_map(|(sel, by_creator, amount, short, end_plus)| Op::ExpandFlow { sel, by_creator, amount: Uint128::new(amount), short, end_plus, by_label: sel & 0x100 != 0 }),
        3 => (any::<u16>(), prop_oneof![3 => Just(Closer::Creator), 2 => Just(Closer::FactoryOwner), 2 => (0u8..4).prop_map(Closer::Stranger)])
            .prop_map(|(sel, who)| Op::CloseFlow { sel, who, by_label: sel & 0x100 != 0 }),
        3 => (0u8..4, gen::amount(1, 1u128 << 80), any::<bool>()).prop_map(|(user, amount, long)| Op::OpenPos { user, amount: Uint128::new(amount), long }),
        1 => (0u8..4, any::<bool>()).prop_map(|(user, long)| Op::ClosePos { user, long }),
        4 => Just(Op::Snapshot),
        5 => (prop_oneof![6 => Just(1u8), 2 => 2u8..6, 1 => 20u8..60], proptest::bool::weighted(0.6)).prop_map(|(n, snapshot)| Op::NewEpoch { n, snapshot }),
        5 => (0u8..4).prop_map(|user| Op::Claim { user }),
    ]
    .boxed()
}

pub fn cfg() -> BoxedStrategy<IncCfg> {
    (
        prop_oneof![Just(LpKind::Cw20), Just(LpKind::Native)],
        any::<bool>(),
        prop_oneof![3 => Just(FeeKind::SameAsFlow0), 2 => Just(FeeKind::Native), 2 => Just(FeeKind::Cw20)],
        prop_oneof![4 => Just(1000u128), 1 => Just(1u128), 1 => gen::amount(1, 1u128 << 40)],
    )
        .prop_map(|(lp, flow0_cw20, fee, fee_amount)| IncCfg {
            lp,
            flow0_cw20,
            fee,
            fee_amount: Uint128::new(fee_amount),
            max_concurrent_flows: 5,
        })
        .boxed()
}

/// the flow's id, or — when asked for and the flow has one — its (unique) label
fn ident(f: &white_whale_std::pool_network::incentive::Flow, by_label: bool, rec: &Rec) -> white_whale_std::pool_network::incentive::FlowIdentifier {
    match (&f.flow_label, by_label) {
        (Some(l), true) => {
            rec.class("flow_named_by_label");
            white_whale_std::pool_network::incentive::FlowIdentifier::Label(l.clone())
        }
        _ => flow_id(f.flow_id),
    }
}

pub struct FlowFunding;

fn bal(iw: &IncWorld, a: &AssetInfo, who: &Addr) -> u128 {
    iw.w.bal(a, who)
}

impl Check for FlowFunding {
    type Case = Case;
    fn name(&self) -> &'static str {
        "flow_funding_history"
    }
    fn rule(&self) -> &'static str {
        "incentive contract created through the incentive factory (cw20 or native LP), three reward assets (a native denom, a cw20, and the native fee denom itself, so that flows in two native denoms coexist), creation fee in a different native denom, a different cw20, or the same asset as reward asset 0 (fee amounts 1, 1000, random); up to 40/120 operations {open flow with exact / fee-only / short / over-paid / no funds and default or explicit start/end (incl. a start epoch in the past and > 180 epochs), expand flow (by creator or someone else, exact or short funds, optional new end; the flow named by id or by its label), close flow by creator / factory owner / stranger (likewise), open/close positions, snapshot, 1..60 new epochs with or without a snapshot in each, claim}; one case in ten starts with the directed shape {small staker claims, flow opened with a start epoch in the past, small staker claims one epoch later, a much larger staker who never claimed claims 1..5 epochs later}. Reference ledger outstanding[flow] is built only from transfers the harness observes: +tokens received by the contract on open/expand, −tokens paid on claims, and must equal (funded − claimed) read from the contract's storage after every step; the fee must arrive at the collector; the contract's balance of each reward asset covers the sum of outstanding; claims never exceed funded; closing pays exactly outstanding to the creator, removes the flow and is refused to strangers. Non-trivial: >= 1 expansion and >= 1 close of a flow after a claim paid something."
    }
    fn strategy(&self, tier: Tier) -> BoxedStrategy<Case> {
        let max_ops = tier.pick(40usize, 120usize);
        let free = (cfg(), prop::collection::vec(op(), 2..max_ops))
            .prop_map(|(cfg, mut ops)| {
                // stakers so that claims pay something
                ops.insert(0, Op::OpenPos { user: 0, amount: Uint128::new(1_000_000), long: false });
                ops.insert(1, Op::OpenPos { user: 1, amount: Uint128::new(3_000_000), long: true });
                Case { cfg, ops }
            })
            .boxed();
        // directed shape: a small staker claims, a flow is opened with a start epoch in the past, the
        // small staker claims again one epoch later, and a much larger staker who never claimed
        // claims several epochs later (a gap in the per-epoch emission record)
        let directed = (cfg(), 0u8..2, gen::amount(1000, 1u128 << 60), 17u8..24, 4u16..20, 1u8..6, prop::collection::vec(op(), 0..12))
            .prop_map(|(cfg, asset, declared, start, end, wait, tail)| {
                let mut ops = vec![
                    Op::OpenPos { user: 0, amount: Uint128::new(1_000), long: false },
                    Op::OpenPos { user: 1, amount: Uint128::new(1_000_000), long: false },
                    Op::NewEpoch { n: 9, snapshot: true },
                    Op::Claim { user: 0 },
                    Op::OpenFlow { user: 2, asset, declared: Uint128::new(declared), funds: Funds::Exact, start: Some(start), end: Some(end), label: false },
                    Op::OpenFlow { user: 3, asset, declared: Uint128::new(declared.saturating_mul(100)), funds: Funds::Exact, start: None, end: Some(30), label: true },
                    Op::NewEpoch { n: 1, snapshot: true },
                    Op::Claim { user: 0 },
                    Op::NewEpoch { n: wait, snapshot: true },
                    Op::Claim { user: 1 },
                ];
                ops.extend(tail);
                Case { cfg, ops }
            })
            .boxed();
        let free = free;
        prop_oneof![9 => free, 1 => directed]
            .prop_map(|c| {
                c
            })
            .boxed()
    }
    fn cases(&self, tier: Tier) -> u32 {
        tier.pick(30_000, 1_500_000)
    }
    fn min_nontrivial(&self) -> f64 {
        0.01
    }
    fn test(&self, c: &Case, rec: &Rec) -> TResult {
        let mut iw = IncWorld::build(&c.cfg).map_err(|e| Fail::new(format!("world build failed: {e}")))?;
        // model: outstanding per flow id, creator per flow id
        let mut outstanding: BTreeMap<u64, u128> = BTreeMap::new();
        let mut creators: BTreeMap<u64, Addr> = BTreeMap::new();
        let mut expansions = 0;
        let mut paid_claims = 0;
        let mut closes_after_claim = 0;
        let fee = iw.fee_amount;
        // reward assets of this check: the world's two (a native denom and a cw20) and, third, the native
        // fee denom "urewf" — so that flows in two different native denoms coexist and, when the creation
        // fee is charged in "urewf", the contract holds fee-denom tokens that belong to a flow
        let rewards: Vec<AssetInfo> = vec![iw.flow_assets[0].clone(), iw.flow_assets[1].clone(), crate::world::native("urewf")];
        for (step, op) in c.ops.iter().enumerate() {
            match op {
                Op::OpenFlow { user, asset: ai, declared, funds, start, end, label } => {
                    let who = iw.user(*user);
                    let fa = rewards[(*ai % 3) as usize].clone();
                    if *ai % 3 == 2 {
                        rec.class("open_flow_attempt_in_the_native_fee_denom");
                    }
                    let same = fa == iw.fee_asset;
                    let declared = declared.u128();
                    // what is provided of the flow asset and of the fee asset
                    let (flow_part, fee_part): (u128, u128) = match funds {
                        Funds::Exact => if same { (declared, 0) } else { (declared, fee) },
                        Funds::OnlyFee => if same { (fee, 0) } else { (0, fee) },
                        Funds::FlowShort(k) => if same { (declared.saturating_sub(k.u128()), 0) } else { (declared.saturating_sub(k.u128()), fee) },
                        Funds::FeeShort => if same { (declared.saturating_sub(1), 0) } else { (declared, fee.saturating_sub(1)) },
                        Funds::FeeExtra(k) => if same { (declared + k.u128(), 0) } else { (declared, fee + k.u128()) },
                        Funds::Nothing => (0, 0),
                    };
                    let mut coins: Vec<Coin> = vec![];
                    for (a, amt) in [(&fa, flow_part), (&iw.fee_asset.clone(), fee_part)] {
                        match a {
                            AssetInfo::NativeToken { denom } => {
                                if amt > 0 {
                                    if let Some(c) = coins.iter_mut().find(|c| &c.denom == denom) {
                                        c.amount += Uint128::new(amt);
                                    } else {
                                        coins.push(coin(amt, denom));
                                    }
                                }
                            }
                            AssetInfo::Token { .. } => {
                                if same && a == &iw.fee_asset && fee_part == 0 && amt == 0 {
                                    continue;
                                }
                                iw.set_allowance(&who, a, amt);
                            }
                        }
                    }
                    coins.sort_by(|a, b| a.denom.cmp(&b.denom));
                    let cur = iw.current_epoch();
                    // 0..16: that many epochs ahead; 16..: (value − 15) epochs in the past, which the
                    // contract accepts
                    let s = start.map(|s| if s < 16 { cur + s as u64 } else { cur.saturating_sub(s as u64 - 15) });
                    if matches!(start, Some(x) if *x >= 16) {
                        rec.class("open_flow_attempt_with_past_start");
                    }
                    let e = end.map(|e| s.unwrap_or(cur) + e as u64);
                    let inc_b = bal(&iw, &fa, &iw.incentive);
                    let col_b = bal(&iw, &iw.fee_asset, &iw.collector);
                    let col_fa_b = bal(&iw, &fa, &iw.collector);
                    let who_fa_b = bal(&iw, &fa, &who);
                    let who_fee_b = bal(&iw, &iw.fee_asset, &who);
                    let before_ids: Vec<u64> = iw.flows_raw().iter().map(|f| f.flow_id).collect();
                    let r = iw.exec_inc(
                        &who,
                        &inc::ExecuteMsg::OpenFlow {
                            start_epoch: s,
                            end_epoch: e,
                            curve: if declared % 2 == 1 { Some(inc::Curve::Linear) } else { None },
                            flow_asset: asset(&fa, declared),
                            flow_label: if *label { Some(format!("label-{step}")) } else { None },
                        },
                        &coins,
                    );
                    if r.is_err() {
                        rec.class("open_flow_rejected");
                        continue;
                    }
                    rec.class(if same { "open_flow_ok_same_asset_fee" } else { "open_flow_ok" });
                    if matches!(funds, Funds::OnlyFee | Funds::FlowShort(_) | Funds::Nothing) {
                        rec.class("open_flow_ok_with_short_funds");
                    }
                    let flows = iw.flows_raw();
                    let new: Vec<&inc::Flow> = flows.iter().filter(|f| !before_ids.contains(&f.flow_id)).collect();
                    ensure!(new.len() == 1, "step {step}: OpenFlow succeeded but {} new flows appeared", new.len());
                    let nf = new[0];
                    let received = bal(&iw, &fa, &iw.incentive) - inc_b;
                    let fee_got = bal(&iw, &iw.fee_asset, &iw.collector) - col_b;
                    ensure!(
                        fee_got == fee,
                        "step {step}: flow creation fee is {fee} but the fee collector received {fee_got}"
                    );
                    if !same {
                        ensure!(bal(&iw, &fa, &iw.collector) == col_fa_b, "step {step}: the collector received flow assets");
                    }
                    ensure!(
                        funded_of(nf) == received && nf.claimed_amount.is_zero(),
                        "step {step}: flow {} opened with a funded amount of {} but the contract received {received} (declared {declared}, provided {flow_part} + fee part {fee_part}, fee {fee}, same-asset fee: {same})",
                        nf.flow_id,
                        funded_of(nf)
                    );
                    // the creator paid exactly what arrived
                    if same {
                        ensure!(
                            who_fa_b - bal(&iw, &fa, &who) == received + fee,
                            "step {step}: creator paid {} but {received} + fee {fee} arrived",
                            who_fa_b - bal(&iw, &fa, &who)
                        );
                    } else {
                        // an over-paid fee is refunded only in some asset combinations; the property
                        // makes no claim about over-payments, so only "at least the fee, at most what was
                        // provided" is required of the fee leg
                        let fee_paid = who_fee_b - bal(&iw, &iw.fee_asset, &who);
                        if fee_paid > fee {
                            rec.class("fee_overpayment_not_refunded");
                        }
                        ensure!(
                            who_fa_b - bal(&iw, &fa, &who) == received && fee_paid >= fee && fee_paid <= fee_part,
                            "step {step}: creator paid {} / {fee_paid} but {received} / {fee} arrived",
                            who_fa_b - bal(&iw, &fa, &who)
                        );
                    }
                    ensure!(nf.flow_creator == who, "step {step}: flow creator recorded as {}", nf.flow_creator);
                    outstanding.insert(nf.flow_id, received);
                    creators.insert(nf.flow_id, who.clone());
                    if end_of(nf).saturating_sub(nf.start_epoch) > 180 {
                        rec.class("flow_longer_than_180_epochs");
                    }
                }
                Op::ExpandFlow { sel, by_creator, amount, short, end_plus, by_label } => {
                    let flows = iw.flows_raw();
                    if flows.is_empty() {
                        continue;
                    }
                    let f = flows[gen::idx(*sel, flows.len())].clone();
                    let who = if *by_creator { f.flow_creator.clone() } else { iw.user(3) };
                    let fa = f.flow_asset.info.clone();
                    let amount = amount.u128();
                    let provided = if *short { amount - 1 } else { amount };
                    // one expansion in eight names (and pays in) the OTHER reward asset: it must not be
                    // accepted as funding of this flow
                    let wrong_asset = sel & 0xE00 == 0xE00;
                    let named = if wrong_asset { rewards.iter().find(|a| **a != fa).cloned().unwrap_or(fa.clone()) } else { fa.clone() };
                    let coins = match &named {
                        AssetInfo::NativeToken { denom } => if provided > 0 { vec![coin(provided, denom)] } else { vec![] },
                        AssetInfo::Token { .. } => {
                            iw.set_allowance(&who, &named, provided);
                            vec![]
                        }
                    };
                    // one new end in eight lies BEFORE the flow's current end (a contraction)
                    let e = end_plus.map(|p| if sel & 0x7000 == 0x7000 { end_of(&f).saturating_sub(p as u64 % 20) } else { end_of(&f) + p as u64 });
                    let inc_b = bal(&iw, &fa, &iw.incentive);
                    if wrong_asset && named != fa {
                        rec.class("expand_attempt_naming_another_asset");
                        let funded_b = funded_of(&f);
                        let r = iw.exec_inc(
                            &who,
                            &inc::ExecuteMsg::ExpandFlow { flow_identifier: ident(&f, *by_label, rec), end_epoch: e, flow_asset: asset(&named, amount) },
                            &coins,
                        );
                        if r.is_ok() {
                            let after = iw.flows_raw();
                            let funded_a = after.iter().find(|x| x.flow_id == f.flow_id).map(funded_of).unwrap_or(funded_b);
                            let received = bal(&iw, &fa, &iw.incentive) - inc_b;
                            ensure!(
                                funded_a.saturating_sub(funded_b) == received,
                                "step {step}: an expansion naming {named} was accepted for flow {} of {fa}: funded {funded_b} -> {funded_a} but the contract received {received} of the flow's asset",
                                f.flow_id
                            );
                        }
                        continue;
                    }
                    let was_long = end_of(&f).saturating_sub(f.start_epoch) > 180;
                    let r = iw.exec_inc(
                        &who,
                        &inc::ExecuteMsg::ExpandFlow {
                            flow_identifier: ident(&f, *by_label, rec),
                            end_epoch: e,
                            flow_asset: asset(&named, amount),
                        },
                        &coins,
                    );
                    if r.is_err() {
                        rec.class("expand_rejected");
                        continue;
                    }
                    ensure!(!*short, "step {step}: expansion of {amount} accepted with only {provided} provided");
                    expansions += 1;
                    rec.class(if was_long { "expand_ok_reset_path" } else { "expand_ok" });
                    let received = bal(&iw, &fa, &iw.incentive) - inc_b;
                    ensure!(received == amount, "step {step}: expansion of {amount} but the contract received {received}");
                    *outstanding.get_mut(&f.flow_id).unwrap() += received;
                }
                Op::CloseFlow { sel, who, by_label } => {
                    let flows = iw.flows_raw();
                    if flows.is_empty() {
                        continue;
                    }
                    let f = flows[gen::idx(*sel, flows.len())].clone();
                    let caller = match who {
                        Closer::Creator => f.flow_creator.clone(),
                        Closer::FactoryOwner => iw.w.owner.clone(),
                        Closer::Stranger(u) => iw.user(*u),
                    };
                    let authorised = caller == f.flow_creator || caller == iw.w.owner;
                    let fa = f.flow_asset.info.clone();
                    let cb = bal(&iw, &fa, &f.flow_creator);
                    let ib = bal(&iw, &fa, &iw.incentive);
                    let r = iw.exec_inc(&caller, &inc::ExecuteMsg::CloseFlow { flow_identifier: ident(&f, *by_label, rec) }, &[]);
                    match r {
                        Ok(_) => {
                            ensure!(authorised, "step {step}: {caller} closed flow {} created by {}", f.flow_id, f.flow_creator);
                            rec.class("close_flow_ok");
                            let want = outstanding.remove(&f.flow_id).unwrap_or(0);
                            let got = bal(&iw, &fa, &f.flow_creator) - cb;
                            let out = ib - bal(&iw, &fa, &iw.incentive);
                            ensure!(
                                got == want && out == want,
                                "step {step}: closing flow {} returned {got} to its creator (contract paid {out}) but funded − claimed is {want}",
                                f.flow_id
                            );
                            ensure!(
                                !iw.flows_raw().iter().any(|x| x.flow_id == f.flow_id),
                                "step {step}: flow {} still exists after being closed",
                                f.flow_id
                            );
                            if paid_claims > 0 {
                                closes_after_claim += 1;
                            }
                        }
                        Err(_) => {
                            rec.class(if authorised { "close_flow_rejected" } else { "close_flow_stranger_rejected" });
                        }
                    }
                }
                Op::OpenPos { user, amount, long } => {
                    let who = iw.user(*user);
                    let dur = if *long { 31_556_926 } else { MIN_DUR };
                    let a = amount.u128();
                    let _ = iw.position_msg(&who, false, a, a, dur, None);
                }
                Op::ClosePos { user, long } => {
                    let who = iw.user(*user);
                    let dur = if *long { 31_556_926 } else { MIN_DUR };
                    let _ = iw.exec_inc(&who, &inc::ExecuteMsg::ClosePosition { unbonding_duration: dur }, &[]);
                }
                Op::Snapshot => {
                    let who = iw.user(2);
                    let _ = iw.exec_inc(&who, &inc::ExecuteMsg::TakeGlobalWeightSnapshot {}, &[]);
                }
                Op::NewEpoch { n, snapshot } => {
                    for _ in 0..*n {
                        iw.new_epoch();
                        if *snapshot {
                            let who = iw.user(2);
                            let _ = iw.exec_inc(&who, &inc::ExecuteMsg::TakeGlobalWeightSnapshot {}, &[]);
                        }
                    }
                }
                Op::Claim { user } => {
                    let who = iw.user(*user);
                    let before = iw.flows_raw();
                    let ub: Vec<u128> = rewards.iter().map(|a| bal(&iw, a, &who)).collect();
                    if iw.exec_inc(&who, &inc::ExecuteMsg::Claim {}, &[]).is_err() {
                        rec.class("claim_rejected");
                        continue;
                    }
                    rec.class("claim_ok");
                    let after = iw.flows_raw();
                    let mut per_asset = [0u128; 3];
                    for f in &after {
                        let b = before.iter().find(|x| x.flow_id == f.flow_id);
                        let was = b.map(|x| x.claimed_amount.u128()).unwrap_or(0);
                        ensure!(
                            f.claimed_amount.u128() >= was,
                            "step {step}: claimed amount of flow {} decreased",
                            f.flow_id
                        );
                        let d = f.claimed_amount.u128() - was;
                        if d > 0 {
                            let k = rewards.iter().position(|a| *a == f.flow_asset.info).ok_or_else(|| Fail::new(format!("flow {} has an unknown reward asset", f.flow_id)))?;
                            per_asset[k] += d;
                            let o = outstanding.get_mut(&f.flow_id).unwrap();
                            ensure!(*o >= d, "step {step}: flow {} paid {d} but only {o} was outstanding", f.flow_id);
                            *o -= d;
                        }
                    }
                    for k in 0..3 {
                        let got = bal(&iw, &rewards[k], &who) - ub[k];
                        ensure!(
                            got == per_asset[k],
                            "step {step}: claimer received {got} of reward asset {k} but the flows' claimed amounts grew by {}",
                            per_asset[k]
                        );
                        if got > 0 {
                            paid_claims += 1;
                        }
                    }
                }
            }
            // invariants
            let flows = iw.flows_raw();
            ensure!(
                flows.len() == outstanding.len(),
                "step {step} ({op:?}): contract has {} flows, model {}",
                flows.len(),
                outstanding.len()
            );
            let mut per_asset = [0u128; 3];
            for f in &flows {
                let want = *outstanding.get(&f.flow_id).ok_or_else(|| Fail::new(format!("unknown flow {}", f.flow_id)))?;
                ensure!(
                    f.claimed_amount.u128() <= funded_of(f),
                    "step {step} ({op:?}): flow {} claimed {} > funded {}",
                    f.flow_id,
                    f.claimed_amount,
                    funded_of(f)
                );
                ensure!(
                    outstanding_of(f) == want,
                    "step {step} ({op:?}): flow {}: contract says funded {} − claimed {} = {}, but tokens received − tokens paid = {want}",
                    f.flow_id,
                    funded_of(f),
                    f.claimed_amount,
                    outstanding_of(f)
                );
                let k = rewards.iter().position(|a| *a == f.flow_asset.info).ok_or_else(|| Fail::new(format!("flow {} has an unknown reward asset", f.flow_id)))?;
                per_asset[k] += want;
            }
            for k in 0..3 {
                if rewards[k] == iw.lp {
                    continue;
                }
                let b = bal(&iw, &rewards[k], &iw.incentive);
                ensure!(
                    b >= per_asset[k],
                    "step {step} ({op:?}): the contract holds {b} of reward asset {k} but owes {} to its flows",
                    per_asset[k]
                );
            }
        }
        if expansions >= 1 && closes_after_claim >= 1 {
            rec.nontrivial(hash_of(c));
            rec.sample(c);
        }
        Ok(())
    }
}

pub fn property() -> Property {
    Property {
        id: "C12",
        checks: vec![Box::new(FlowFunding)],
        assumptions: vec![
            "flows are read from the contract's raw storage (the Flow/Flows queries trim histories to a 100-epoch window)",
            "the repository's fee-distributor mock is the epoch clock (CurrentEpoch / NewEpoch only)",
            "reward assets are distinct from the LP asset in this check (flows in the LP asset are covered by C11)",
        ],
    }
}
