//! C06 — flash loans are repaid with all fees or the whole transaction reverts (adversary
//! enumeration + random programs against the real vault / vault router).

use cosmwasm_std::Uint128;
use proptest::prelude::*;
use serde::{Deserialize, Serialize};

use crate::engine::{gen, hash_of, Check, Property, Rec, TResult, Tier};
use crate::mocks::{Repay, Step};
use crate::vaults::{fee3, run_history, vcfg, vop, VAmt, VCase, VOp, VaultCfg};

pub struct LoanPrograms;

impl Check for LoanPrograms {
    type Case = VCase;
    fn name(&self) -> &'static str {
        "flash_loan_adversary_random"
    }
    fn rule(&self) -> &'static str {
        "vault (native / cw20, valid fee triple) seeded with deposits, then up to 12/30 operations dominated by flash loans whose borrower callback executes a generated program over the alphabet {repay exact / exact-1 / exact+k / principal / fraction / absolute, deposit (plain or error-swallowing sub-message), withdraw, collect fees, nested loan (depth <= 3), fail, noop}, loan amounts in [0, vault balance] and beyond, direct and through the vault router (optionally with a second router loan in the payload). Oracle per transaction: rejected => world snapshot unchanged; accepted => loan counter 0, pending ledger grew by exactly sum floor(protocol share*loan_i) minus what was collected, burn fees left circulation and are recorded, LP supply only fell by the shares the program redeemed, balance rose by >= protocol+flash fees of all completed loans (when no shares were redeemed), share price not lower; exact payback alone always suffices, one unit less never; router keeps nothing and pays the vault exactly the quote. Non-trivial: a successful transaction whose program re-enters the vault."
    }
    fn strategy(&self, tier: Tier) -> BoxedStrategy<VCase> {
        let max_ops = tier.pick(12usize, 30usize);
        (vcfg(), prop::collection::vec(vop(1, 6, 1, 3), 1..max_ops), gen::amount(10_000, 1u128 << 100), gen::amount(2_000, 1u128 << 90))
            .prop_map(|(cfg, mut ops, d0, d1)| {
                // seed: a depositor and the borrower itself hold shares
                ops.insert(0, VOp::Deposit { user: 0, amt: VAmt::Abs(Uint128::new(d0)) });
                ops.insert(1, VOp::Deposit { user: 4, amt: VAmt::Abs(Uint128::new(d1)) });
                VCase { cfg, ops }
            })
            .boxed()
    }
    fn cases(&self, tier: Tier) -> u32 {
        tier.pick(30_000, 2_000_000)
    }
    fn min_nontrivial(&self) -> f64 {
        0.05
    }
    fn test(&self, c: &VCase, rec: &Rec) -> TResult {
        let st = run_history(c, rec, true)?;
        if st.reentrant_ok >= 1 {
            rec.nontrivial(hash_of(c));
            rec.sample(c);
        }
        Ok(())
    }
}

// ---------------------------------------------------------------------------------------------
// exhaustive enumeration of the alphabet to depth 2 with three amount classes
// ---------------------------------------------------------------------------------------------

#[derive(Clone, Debug, Serialize, Deserialize)]
pub struct EnumCase {
    pub cfg: VaultCfg,
    /// index into the enumerated program list
    pub program_index: u32,
    /// loan amount class: 0 = 1 unit, 1 = half the vault, 2 = whole vault balance, 3 = balance + 1
    pub loan_class: u8,
    pub deposit: Uint128,
}

fn amount_classes() -> [u128; 3] {
    [1, 1_000_003, 1u128 << 70]
}

fn leaf_alphabet() -> Vec<Step> {
    let mut v = vec![
        Step::Repay(Repay::Exact),
        Step::Repay(Repay::ExactMinus1),
        Step::Repay(Repay::Principal),
        Step::Collect,
        Step::Fail,
        Step::Noop,
        Step::ForgeCallback { old_balance: Uint128::zero(), loan_amount: Uint128::zero() },
    ];
    for a in amount_classes() {
        v.push(Step::Repay(Repay::ExactPlus(Uint128::new(a))));
        v.push(Step::Deposit { amount: Uint128::new(a), swallow: false });
        v.push(Step::Deposit { amount: Uint128::new(a), swallow: true });
        v.push(Step::Withdraw { shares: Uint128::new(a) });
    }
    v
}

/// All programs of the shape [s1, s2] (s_i from the leaf alphabet or a nested loan of one of three
/// amounts whose inner program is a single leaf or [leaf, Repay Exact]).
pub fn enumerated_programs() -> Vec<Vec<Step>> {
    let leaves = leaf_alphabet();
    let mut firsts: Vec<Step> = leaves.clone();
    for a in amount_classes() {
        for l in &leaves {
            firsts.push(Step::NestedLoan { amount: Uint128::new(a), program: vec![l.clone()] });
            if !matches!(l, Step::Repay(_)) {
                firsts.push(Step::NestedLoan { amount: Uint128::new(a), program: vec![l.clone(), Step::Repay(Repay::Exact)] });
            }
        }
    }
    let mut out = vec![];
    for f in &firsts {
        out.push(vec![f.clone()]);
        for l in &leaves {
            out.push(vec![f.clone(), l.clone()]);
        }
    }
    out
}

pub struct LoanProgramsEnumerated;

impl Check for LoanProgramsEnumerated {
    type Case = EnumCase;
    fn name(&self) -> &'static str {
        "flash_loan_adversary_enumerated"
    }
    fn rule(&self) -> &'static str {
        "the borrower alphabet enumerated to depth 2: every program [s1] and [s1, s2] with s1 in {leaf steps with three amount classes} + {nested loan of three amounts whose inner program is [leaf] or [leaf, repay exact]} and s2 a leaf step (several thousand programs), crossed with four loan-amount classes (1 unit, half, whole balance, balance+1), native/cw20 and generated fee triples; indices are drawn uniformly so that a run covers the whole table many times over (thorough) or a large sample of it (quick). Same oracle as the random check. Non-trivial: the transaction succeeded."
    }
    fn strategy(&self, _tier: Tier) -> BoxedStrategy<EnumCase> {
        let n = enumerated_programs().len() as u32;
        (any::<bool>(), fee3(), 0..n, 0u8..4, gen::amount(10_000, 1u128 << 90))
            .prop_map(|(cw20, fees, program_index, loan_class, deposit)| EnumCase {
                cfg: VaultCfg { cw20, fees },
                program_index,
                loan_class,
                deposit: Uint128::new(deposit),
            })
            .boxed()
    }
    fn cases(&self, tier: Tier) -> u32 {
        tier.pick(60_000, 4_000_000)
    }
    fn test(&self, c: &EnumCase, rec: &Rec) -> TResult {
        let programs = enumerated_programs();
        let program = programs[c.program_index as usize % programs.len()].clone();
        let amt = match c.loan_class {
            0 => VAmt::Abs(Uint128::new(1)),
            1 => VAmt::OfVault(32768),
            2 => VAmt::OfVault(65535),
            _ => VAmt::OfVault(65535), // + 1 added below through a donation-free trick: use Abs
        };
        let mut ops = vec![
            VOp::Deposit { user: 0, amt: VAmt::Abs(c.deposit) },
            VOp::Deposit { user: 4, amt: VAmt::Abs(Uint128::new(c.deposit.u128() / 3 + 2000)) },
        ];
        if c.loan_class == 3 {
            // balance + 1: the two deposits above are the whole balance
            let total = c.deposit.u128() + c.deposit.u128() / 3 + 2000 + 1;
            ops.push(VOp::Loan { amt: VAmt::Abs(Uint128::new(total)), program });
        } else {
            ops.push(VOp::Loan { amt, program });
        }
        let case = VCase { cfg: c.cfg.clone(), ops };
        let st = run_history(&case, rec, true)?;
        if st.loans_ok >= 1 {
            rec.nontrivial(hash_of(c));
            rec.sample(&case);
        }
        Ok(())
    }
}

pub fn property() -> Property {
    Property {
        id: "C06",
        checks: vec![Box::new(LoanPrograms), Box::new(LoanProgramsEnumerated)],
        assumptions: vec![
            "the adversary is a harness contract executing generated programs through the same message paths a real borrower has (bank/cw20 transfers, vault messages, sub-messages with reply-on-error)",
            "completed loans are taken from the program (every message of a successful transaction ran), fees from floor(share*loan) computed by the harness, never from contract attributes",
            "cw-multi-test 0.16.5 stands in for the chain; a contract panic is a rejected transaction",
        ],
    }
}
