//! C06 — flash loans are repaid with all fees or the whole transaction reverts (adversary
//! enumeration + random programs against the real vault / vault router).

use cosmwasm_std::Uint128;
use proptest::prelude::*;
use serde::{Deserialize, Serialize};

use crate::engine::{gen, hash_of, Check, Property, Rec, TResult, Tier};
use crate::mocks::{Repay, Step};
use crate::vaults::{fee3, run_history, vcfg, vop, VAmt, VCase, VOp, VaultCfg};

pub struct LoanPrograms;

impl Check for LoanPrograms {
    type Case = VCase;
    fn name(&self) -> &'static str {
        "flash_loan_adversary_random"
    }
    fn rule(&self) -> &'static str {
        "vault (native / cw20, valid fee triple) seeded with deposits, then up to 12/30 operations dominated by flash loans whose borrower callback executes a generated program over the alphabet {repay exact / exact-1 / exact+k / principal / fraction / absolute, deposit (plain or error-swallowing sub-message), withdraw, collect fees, nested loan (depth <= 3), fail, noop}, loan amounts in [0, vault balance] and beyond, direct and through the vault router (optionally with a second router loan in the payload). Oracle per transaction: rejected => world snapshot unchanged; accepted => loan counter 0, pending ledger grew by exactly sum floor(protocol share*loan_i) minus what was collected, burn fees left circulation and are recorded, LP supply only fell by the shares the program redeemed, balance rose by >= protocol+flash fees of all completed loans (when no shares were redeemed), share price not lower; exact payback alone always suffices, one unit less never; router keeps nothing and pays the vault exactly the quote. Non-trivial: a successful transaction whose program re-enters the vault."
    }
    fn strategy(&self, tier: Tier) -> BoxedStrategy<VCase> {
        let max_ops = tier.pick(12usize, 30usize);
        (vcfg(), prop::collection::vec(vop(1, 6, 1, 3), 1..max_ops), gen::amount(10_000, 1u128 << 100), gen::amount(2_000, 1u128 << 90))
            .prop_map(|(cfg, mut ops, d0, d1)| {
                // seed: a depositor and the borrower itself hold shares
                ops.insert(0, VOp::Deposit { user: 0, amt: VAmt::Abs(Uint128::new(d0)) });
                ops.insert(1, VOp::Deposit { user: 4, amt: VAmt::Abs(Uint128::new(d1)) });
                VCase { cfg, ops }
            })
            .boxed()
    }
    fn cases(&self, tier: Tier) -> u32 {
        tier.pick(30_000, 2_000_000)
    }
    fn min_nontrivial(&self) -> f64 {
        0.05
    }
    fn test(&self, c: &VCase, rec: &Rec) -> TResult {
        let st = run_history(c, rec, true)?;
        if st.reentrant_ok >= 1 {
            rec.nontrivial(hash_of(c));
            rec.sample(c);
        }
        Ok(())
    }
}

// ---------------------------------------------------------------------------------------------
// exhaustive enumeration of the alphabet to depth 2 with three amount classes
// ---------------------------------------------------------------------------------------------

#[derive(Clone, Debug, Serialize, Deserialize)]
pub struct EnumCase {
    pub cfg: VaultCfg,
    /// index into the enumerated program list
    pub program_index: u32,
    /// loan amount class: 0 = 1 unit, 1 = half the vault, 2 = whole vault balance, 3 = balance + 1
    pub loan_class: u8,
    pub deposit: Uint128,
}

fn amount_classes() -> [u128; 3] {
    [1, 1_000_003, 1u128 << 70]
}

fn leaf_alphabet() -> Vec<Step> {
    let mut v = vec![
        Step::Repay(Repay::Exact),
        Step::Repay(Repay::ExactMinus1),
        Step::Repay(Repay::Principal),
        Step::Collect,
        Step::Fail,
        Step::Noop,
        Step::ForgeCallback { old_balance: Uint128::zero(), loan_amount: Uint128::zero() },
    ];
    for a in amount_classes() {
        v.push(Step::Repay(Repay::ExactPlus(Uint128::new(a))));
        v.push(Step::Deposit { amount: Uint128::new(a), swallow: false });
        v.push(Step::Deposit { amount: Uint128::new(a), swallow: true });
        v.push(Step::Withdraw { shares: Uint128::new(a) });
    }
    v
}

/// All programs of the shape [s1, s2] (s_i from the leaf alphabet or a nested loan of one of three
/// amounts whose inner program is a single leaf or [leaf, Repay Exact]).
pub fn enumerated_programs() -> Vec<Vec<Step>> {
    let leaves = leaf_alphabet();
    let mut firsts: Vec<Step> = leaves.clone();
    for a in amount_classes() {
        for l in &leaves {
            firsts.push(Step::NestedLoan { amount: Uint128::new(a), program: vec![l.clone()] });
            if !matches!(l, Step::Repay(_)) {
                firsts.push(Step::NestedLoan { amount: Uint128::new(a), program: vec![l.clone(), Step::Repay(Repay::Exact)] });
            }
        }
    }
    let mut out = vec![];
    for f in &firsts {
        out.push(vec![f.clone()]);
        for l in &leaves {
            out.push(vec![f.clone(), l.clone()]);
        }
    }
    out
}

pub struct LoanProgramsEnumerated;

impl Check for LoanProgramsEnumerated {
    type Case = EnumCase;
    fn name(&self) -> &'static str {
        "flash_loan_adversary_enumerated"
    }
    fn rule(&self) -> &'static str {
        "the borrower alphabet enumerated to depth 2: every program [s1] and [s1, s2] with s1 in {leaf steps with three amount classes} + {nested loan of three amounts whose inner program is [leaf] or [leaf, repay exact]} and s2 a leaf step (several thousand programs), crossed with four loan-amount classes (1 unit, half, whole balance, balance+1), native/cw20 and generated fee triples; indices are drawn uniformly so that a run covers the whole table many times over (thorough) or a large sample of it (quick). Same oracle as the random check. Non-trivial: the transaction succeeded."
    }
    fn strategy(&self, _tier: Tier) -> BoxedStrategy<EnumCase> {
        let n = enumerated_programs().len() as u32;
        (any::<bool>(), fee3(), 0..n, 0u8..4, gen::amount(10_000, 1u128 << 90))
            .prop_map(|(cw20, fees, program_index, loan_class, deposit)| EnumCase {
                cfg: VaultCfg { cw20, fees },
                program_index,
                loan_class,
                deposit: Uint128::new(deposit),
            })
            .boxed()
    }
    fn cases(&self, tier: Tier) -> u32 {
        tier.pick(60_000, 4_000_000)
    }
    fn test(&self, c: &EnumCase, rec: &Rec) -> TResult {
        let programs = enumerated_programs();
        let program = programs[c.program_index as usize % programs.len()].clone();
        let amt = match c.loan_class {
            0 => VAmt::Abs(Uint128::new(1)),
            1 => VAmt::OfVault(32768),
            2 => VAmt::OfVault(65535),
            _ => VAmt::OfVault(65535), // + 1 added below through a donation-free trick: use Abs
        };
        let mut ops = vec![
            VOp::Deposit { user: 0, amt: VAmt::Abs(c.deposit) },
            VOp::Deposit { user: 4, amt: VAmt::Abs(Uint128::new(c.deposit.u128() / 3 + 2000)) },
        ];
        if c.loan_class == 3 {
            // balance + 1: the two deposits above are the whole balance
            let total = c.deposit.u128() + c.deposit.u128() / 3 + 2000 + 1;
            ops.push(VOp::Loan { amt: VAmt::Abs(Uint128::new(total)), program });
        } else {
            ops.push(VOp::Loan { amt, program });
        }
        let case = VCase { cfg: c.cfg.clone(), ops };
        let st = run_history(&case, rec, true)?;
        if st.loans_ok >= 1 {
            rec.nontrivial(hash_of(c));
            rec.sample(&case);
        }
        Ok(())
    }
}


// ---------------------------------------------------------------------------------------------
// router loans over several vaults in one transaction
// ---------------------------------------------------------------------------------------------

/// One router FlashLoan naming up to three different vault assets (native, native, cw20) in a generated
/// order; the payload pays the router generated proceeds per asset (on / around the fees of that loan).
#[derive(Clone, Debug, Serialize, Deserialize)]
pub struct MultiCase {
    /// fee triple (protocol, flash loan, burn) per vault, 18-decimal atomics
    pub fees: [[Uint128; 3]; 3],
    pub deposits: [Uint128; 3],
    /// the loans of the transaction: (vault index, fraction of its balance / 65536)
    pub loans: Vec<(u8, u16)>,
    /// proceeds per loan: 0 = one below the fees, 1 = exactly the fees, 2 = one above, otherwise fees + k
    pub proceeds: Vec<u16>,
    /// payload order: pay the router in loan order (false) or in reverse (true)
    pub reverse_payload: bool,
    /// an earlier, plain router loan on each vault first (so that ledgers and counters are not fresh)
    pub warm_up: bool,
}

pub struct RouterMultiAsset;

impl Check for RouterMultiAsset {
    type Case = MultiCase;
    fn name(&self) -> &'static str {
        "router_multi_asset_loan"
    }
    fn rule(&self) -> &'static str {
        "three vaults (two native assets, one cw20) with generated fee triples behind one vault router; one FlashLoan naming 1..3 DIFFERENT vault assets in a generated order with loan sizes from 1 unit to the whole vault balance; the payload makes a purse pay the router, per asset, proceeds one below / exactly / one above / well above that loan's fees, in loan order or reversed; optionally after a warm-up loan on every vault. Oracle: a rejected transaction leaves the world snapshot unchanged; proceeds below the fees of any loan => rejected; a single-asset loan whose proceeds cover its fees => accepted (a loan naming several assets may be refused outright — this code base's router does so — but if it is accepted it is judged like any other; half of the multi-asset cases therefore reach the router's multi-asset settlement the way a borrower can: a single-asset loan whose payload makes the router borrow from the second vault with a hand-made NextLoan callback chaining the remaining assets); accepted => per vault: balance + burn fee == balance before + quoted payback - principal (the vault received exactly the quote), pending ledger grew by floor(protocol share*loan), burn fee left circulation, loan counter 0; the router holds nothing of any asset; the initiator received proceeds - fees of every asset. Non-trivial: an accepted transaction."
    }
    fn strategy(&self, _tier: Tier) -> BoxedStrategy<MultiCase> {
        (
            [fee3(), fee3(), fee3()],
            [gen::amount(10_000, 1u128 << 90), gen::amount(10_000, 1u128 << 90), gen::amount(10_000, 1u128 << 90)],
            Just(vec![0u8, 1, 2]).prop_shuffle(),
            1usize..=3,
            prop::collection::vec(prop_oneof![2 => Just(1u16), 2 => Just(65535u16), 3 => any::<u16>()], 3),
            prop::collection::vec(prop_oneof![1 => Just(0u16), 3 => Just(1u16), 2 => Just(2u16), 2 => 3u16..5000], 3),
            any::<bool>(),
            any::<bool>(),
        )
            .prop_map(|(fees, d, order, n, fr, proceeds, reverse_payload, warm_up)| MultiCase {
                fees,
                deposits: [Uint128::new(d[0]), Uint128::new(d[1]), Uint128::new(d[2])],
                loans: order.into_iter().take(n).zip(fr).collect(),
                proceeds,
                reverse_payload,
                warm_up,
            })
            .boxed()
    }
    fn cases(&self, tier: Tier) -> u32 {
        tier.pick(12_000, 800_000)
    }
    fn min_nontrivial(&self) -> f64 {
        0.05
    }
    fn test(&self, c: &MultiCase, rec: &Rec) -> TResult {
        use crate::ensure;
        use crate::engine::Fail;
        use crate::mocks::{purse_contract, PurseMsg};
        use crate::refmath::{to_u128, u};
        use crate::world::{asset, native, token, vault_fee, World};
        use cosmwasm_std::{coin, to_json_binary, Addr, CosmosMsg, Empty, WasmMsg};
        use white_whale_std::pool_network::asset::AssetInfo;
        use white_whale_std::vault_network::{vault, vault_router};

        const FUND: u128 = 1u128 << 100;
        let mut w = World::new_with_fund(&["alice", "bob"], &["uaaa", "ubbb"], FUND);
        w.setup_vault_network();
        let tok = w.create_cw20_with_fund("tokv", 6, FUND);
        let infos = [native("uaaa"), native("ubbb"), token(&tok)];
        let router = w.vault_router.clone().unwrap();
        let owner = w.owner.clone();
        let alice = w.users[0].clone();
        let bob = w.users[1].clone();
        let pcode = w.app.store_code(purse_contract());
        let purse = w.instantiate(pcode, &owner, &Empty {}, "purse", None).map_err(Fail::unobservable)?;
        let mut vaults = vec![];
        for i in 0..3 {
            let f = [c.fees[i][0].u128(), c.fees[i][1].u128(), c.fees[i][2].u128()];
            let (v, _lp) = w.create_vault(&infos[i], vault_fee(f)).map_err(|e| Fail::unobservable(format!("creating vault {i}: {e}")))?;
            w.transfer(&owner, &purse, &infos[i], FUND / 4).map_err(Fail::unobservable)?;
            let amt = c.deposits[i].u128();
            let r = match &infos[i] {
                AssetInfo::NativeToken { denom } => w.exec(&alice, &v, &vault::ExecuteMsg::Deposit { amount: Uint128::new(amt) }, &[coin(amt, denom)]),
                AssetInfo::Token { contract_addr } => {
                    w.increase_allowance(&alice, &Addr::unchecked(contract_addr), &v, amt);
                    w.exec(&alice, &v, &vault::ExecuteMsg::Deposit { amount: Uint128::new(amt) }, &[])
                }
            };
            r.map_err(|e| Fail::unobservable(format!("seeding vault {i}: {e}")))?;
            vaults.push(v);
        }
        let pay = |info: &AssetInfo, amount: u128| -> CosmosMsg {
            WasmMsg::Execute {
                contract_addr: purse.to_string(),
                msg: to_json_binary(&PurseMsg::Pay { asset: info.clone(), amount: Uint128::new(amount), to: router.to_string() }).unwrap(),
                funds: vec![],
            }
            .into()
        };
        if c.warm_up {
            for i in 0..3 {
                let bal = w.bal(&infos[i], &vaults[i]);
                let amt = bal / 3 + 1;
                let _ = w.exec(&bob, &router, &vault_router::ExecuteMsg::FlashLoan { assets: vec![asset(&infos[i], amt)], msgs: vec![pay(&infos[i], amt)] }, &[]);
            }
            rec.class("after_warm_up_loans");
        }
        // the transaction under test
        struct L {
            i: usize,
            amount: u128,
            quote: vault::PaybackAmountResponse,
            proceeds: u128,
            bal0: u128,
            pend0: u128,
            burned0: u128,
            supply0: u128,
            user0: u128,
        }
        let pending = |w: &World, v: &Addr| -> Result<u128, Fail> {
            let p: vault::ProtocolFeesResponse = w.query(v, &vault::QueryMsg::ProtocolFees { all_time: false }).map_err(Fail::new)?;
            Ok(p.fees.amount.u128())
        };
        let burned = |w: &World, v: &Addr| -> Result<u128, Fail> {
            let p: vault::ProtocolFeesResponse = w.query(v, &vault::QueryMsg::BurnedFees {}).map_err(Fail::new)?;
            Ok(p.fees.amount.u128())
        };
        let mut ls: Vec<L> = vec![];
        let mut all_covered = true;
        for (n, (vi, fr)) in c.loans.iter().enumerate() {
            let i = (*vi % 3) as usize;
            if ls.iter().any(|l| l.i == i) {
                continue;
            }
            let bal0 = w.bal(&infos[i], &vaults[i]);
            let amount = gen::frac(*fr, bal0).max(1);
            let quote: vault::PaybackAmountResponse = w.query(&vaults[i], &vault::QueryMsg::GetPaybackAmount { amount: Uint128::new(amount) }).map_err(Fail::new)?;
            let fees_total = quote.payback_amount.u128() - amount;
            let k = c.proceeds.get(n).copied().unwrap_or(1) as u128;
            let proceeds = (fees_total + k).saturating_sub(1);
            if proceeds < fees_total {
                all_covered = false;
            }
            ls.push(L {
                i,
                amount,
                quote,
                proceeds,
                bal0,
                pend0: pending(&w, &vaults[i])?,
                burned0: burned(&w, &vaults[i])?,
                supply0: w.supply(&infos[i]),
                user0: w.bal(&infos[i], &bob),
            });
        }
        let mut msgs: Vec<CosmosMsg> = ls.iter().map(|l| pay(&infos[l.i], l.proceeds)).collect();
        if c.reverse_payload {
            msgs.reverse();
        }
        let mut assets: Vec<_> = ls.iter().map(|l| asset(&infos[l.i], l.amount)).collect();
        // Several assets, second shape (`warm_up` doubles as the selector so that old cases still decode):
        // the router refuses `assets.len() > 1`, but a borrower can reach the router's multi-asset
        // settlement all the same — an ordinary loan on the first asset whose payload makes the router
        // take a loan on the second vault with a hand-made NextLoan as callback, chaining the remaining
        // assets; CompleteLoan then settles the chained assets together.
        let chained = ls.len() >= 2 && (c.proceeds.iter().map(|p| *p as u32).sum::<u32>() % 2 == 0);
        if chained {
            let chain: Vec<(String, white_whale_std::pool_network::asset::Asset)> = ls[1..].iter().map(|l| (vaults[l.i].to_string(), asset(&infos[l.i], l.amount))).collect();
            let mut inner: Vec<CosmosMsg> = ls[1..].iter().map(|l| pay(&infos[l.i], l.proceeds)).collect();
            if c.reverse_payload {
                inner.reverse();
            }
            let open_chain: CosmosMsg = WasmMsg::Execute {
                contract_addr: vaults[ls[1].i].to_string(),
                msg: to_json_binary(&vault::ExecuteMsg::FlashLoan {
                    amount: Uint128::new(ls[1].amount),
                    msg: to_json_binary(&vault_router::ExecuteMsg::NextLoan {
                        initiator: bob.clone(),
                        source_vault: vaults[ls[1].i].to_string(),
                        source_vault_asset_info: infos[ls[1].i].clone(),
                        payload: inner,
                        to_loan: chain[1..].to_vec(),
                        loaned_assets: chain.clone(),
                    })
                    .unwrap(),
                })
                .unwrap(),
                funds: vec![],
            }
            .into();
            msgs = vec![pay(&infos[ls[0].i], ls[0].proceeds), open_chain];
            if c.reverse_payload {
                msgs.reverse();
            }
            assets.truncate(1);
        }
        let snap = w.snapshot();
        let r = w.exec(&bob, &router, &vault_router::ExecuteMsg::FlashLoan { assets, msgs }, &[]);
        rec.class(&format!("loan_over_{}_assets_{}{}", ls.len(), if chained { "chained_in_the_payload_" } else { "" }, if r.is_ok() { "accepted" } else { "rejected" }));
        match r {
            Err(e) => {
                let s2 = w.snapshot();
                ensure!(s2 == snap, "a rejected router loan over {} assets changed the world: {}", ls.len(), snap.diff(&s2));
                // The router of this code base refuses a loan naming more than one asset outright
                // ("nested flash-loans are disabled"), which the statement allows (the transaction reverts);
                // "the exact payback suffices" is therefore demanded of single-asset loans only.
                if ls.len() >= 2 {
                    rec.class(if chained { "chained_multi_asset_loan_rejected_world_unchanged" } else { "multi_asset_loan_refused_world_unchanged" });
                } else {
                    ensure!(!all_covered, "a router loan whose proceeds cover its fees exactly or better was rejected: {e}");
                }
            }
            Ok(_) => {
                ensure!(all_covered, "a router loan succeeded although the proceeds of one of its {} loans were one unit below that loan's fees", ls.len());
                for l in &ls {
                    let i = l.i;
                    let q = l.quote.payback_amount.u128();
                    let b = l.quote.burn_fee.u128();
                    let p = l.quote.protocol_fee.u128();
                    let bal1 = w.bal(&infos[i], &vaults[i]);
                    ensure!(
                        u(bal1) + u(l.amount) + u(b) == u(l.bal0) + u(q),
                        "vault {i} (loan {} of {}): balance {} -> {bal1}, quoted payback {q} (burn {b}): the vault did not receive exactly the quote",
                        l.amount,
                        ls.len(),
                        l.bal0
                    );
                    let want_p = to_u128(u(l.amount) * u(c.fees[i][0].u128()) / u(1_000_000_000_000_000_000)).unwrap();
                    ensure!(p == want_p, "vault {i}: quoted protocol fee {p} is not floor(share*loan) = {want_p}");
                    let pend1 = pending(&w, &vaults[i])?;
                    ensure!(pend1 == l.pend0 + want_p, "vault {i}: pending ledger {} -> {pend1}, expected +{want_p}", l.pend0);
                    let want_b = to_u128(u(l.amount) * u(c.fees[i][2].u128()) / u(1_000_000_000_000_000_000)).unwrap();
                    ensure!(b == want_b, "vault {i}: quoted burn fee {b} is not floor(share*loan) = {want_b}");
                    ensure!(burned(&w, &vaults[i])? == l.burned0 + want_b, "vault {i}: burned counter did not grow by {want_b}");
                    ensure!(w.supply(&infos[i]) + want_b == l.supply0, "vault {i}: circulating supply {} -> {}, burn fee {want_b}", l.supply0, w.supply(&infos[i]));
                    let lc: Option<u32> = w.raw(&vaults[i], b"loan_counter").and_then(|raw| serde_json::from_slice(&raw).ok());
                    ensure!(lc == Some(0), "vault {i}: loan counter {lc:?} after the router loan");
                    ensure!(w.bal(&infos[i], &router) == 0, "the vault router kept {} of asset {i}", w.bal(&infos[i], &router));
                    let user1 = w.bal(&infos[i], &bob);
                    ensure!(
                        u(user1) + u(q) == u(l.user0) + u(l.amount) + u(l.proceeds),
                        "asset {i}: initiator {} -> {user1} with proceeds {} and fees {}: the remaining proceeds were not forwarded in full",
                        l.user0,
                        l.proceeds,
                        q - l.amount
                    );
                }
                rec.nontrivial(hash_of(c));
                rec.sample(c);
            }
        }
        Ok(())
    }
}

pub fn property() -> Property {
    Property {
        id: "C06",
        checks: vec![Box::new(LoanPrograms), Box::new(LoanProgramsEnumerated), Box::new(RouterMultiAsset)],
        assumptions: vec![
            "the adversary is a harness contract executing generated programs through the same message paths a real borrower has (bank/cw20 transfers, vault messages, sub-messages with reply-on-error)",
            "completed loans are taken from the program (every message of a successful transaction ran), fees from floor(share*loan) computed by the harness, never from contract attributes",
            "cw-multi-test 0.16.5 stands in for the chain; a contract panic is a rejected transaction",
        ],
    }
}
