//! C20 — epoch clocks only move forward, one epoch at a time, never early (epoch manager with
//! logging hook receivers + fee distributor), driven by generated block-time schedules.

use cosmwasm_std::{Addr, Timestamp, Uint64};
use proptest::prelude::*;
use serde::{Deserialize, Serialize};

use white_whale_std::epoch_manager::epoch_manager as em;
use white_whale_std::fee_distributor as fd;

use crate::engine::{hash_of, Check, Fail, Property, Rec, TResult, Tier};
use crate::ensure;
use crate::mocks::{hook_contract, HookInit, HookQuery, LoggedCall};
use crate::props::c08::{build_hub, BondWorld};
use crate::world::{DAY_NS, START_TIME_S};

#[derive(Clone, Debug, Serialize, Deserialize)]
pub enum Which {
    Manager,
    Distributor,
}

#[derive(Clone, Debug, Serialize, Deserialize)]
pub enum Move {
    Zero,
    Ns(u64),
    /// to `boundary + delta` of the given clock, where boundary = current start + duration
    /// (genesis for a clock that has not started); delta ∈ {−1, 0, +1} ns
    ToBoundary { which: Which, delta: i8 },
    /// k whole durations past the boundary (+ jitter)
    Late { which: Which, k: u8, jitter_ns: u32 },
}

#[derive(Clone, Debug, Serialize, Deserialize)]
pub enum Op {
    Advance(Move),
    Create { which: Which, caller: u8, times: u8 },
    AddHook { idx: u8 },
    RemoveHook { idx: u8 },
    /// the distributor's owner rewrites the epoch configuration: a new duration (>= 1 day) and a genesis
    /// moved by `genesis_shift_h` hours (earlier or later than the original one)
    UpdateDistributorConfig { duration_ns: u64, genesis_shift_h: i16 },
    /// the manager's admin rewrites the manager's epoch duration (>= 1 day); the configured genesis stays
    UpdateManagerConfig { duration_ns: u64 },
}

#[derive(Clone, Debug, Serialize, Deserialize)]
pub struct Case {
    /// epoch duration in nanoseconds (>= 1 day)
    pub duration_ns: u64,
    /// genesis = world start + offset
    pub genesis_offset_ns: u64,
    pub initial_hooks: u8,
    pub ops: Vec<Op>,
    /// != 0: the manager is first instantiated with a start epoch whose start time is genesis + skew
    /// (the two redundant fields of the message disagree); the consistent message is the fall-back
    #[serde(default)]
    pub mgr_start_skew_ns: i64,
}

fn which() -> BoxedStrategy<Which> {
    prop_oneof![Just(Which::Manager), Just(Which::Distributor)].boxed()
}

fn op() -> BoxedStrategy<Op> {
    let mv = prop_oneof![
        2 => Just(Move::Zero),
        2 => (1u64..DAY_NS).prop_map(Move::Ns),
        8 => (which(), prop_oneof![Just(-1i8), Just(0), Just(1)]).prop_map(|(which, delta)| Move::ToBoundary { which, delta }),
        2 => (which(), 1u8..5, any::<u32>()).prop_map(|(which, k, jitter_ns)| Move::Late { which, k, jitter_ns }),
    ];
    prop_oneof![
        6 => mv.prop_map(Op::Advance),
        8 => (which(), 0u8..6, 1u8..4).prop_map(|(which, caller, times)| Op::Create { which, caller, times }),
        1 => prop_oneof![6 => 0u8..3, 1 => Just(3u8)].prop_map(|idx| Op::AddHook { idx }),
        1 => prop_oneof![3 => 0u8..3, 2 => Just(3u8)].prop_map(|idx| Op::RemoveHook { idx }),
        1 => (prop_oneof![Just(DAY_NS), Just(2 * DAY_NS), DAY_NS..3 * DAY_NS], prop_oneof![Just(0i16), -72i16..240]).prop_map(|(duration_ns, genesis_shift_h)| Op::UpdateDistributorConfig { duration_ns, genesis_shift_h }),
        1 => prop_oneof![Just(DAY_NS), Just(2 * DAY_NS), DAY_NS..3 * DAY_NS].prop_map(|duration_ns| Op::UpdateManagerConfig { duration_ns }),
    ]
    .boxed()
}

#[derive(Clone, Debug)]
struct Clock {
    id: u64,
    start_ns: u64,
    started: bool,
}

pub struct EpochClocks;

struct EpochWorld {
    bw: BondWorld,
    manager: Addr,
    hooks: Vec<Addr>,
    /// the manager took an instantiate message whose start epoch does not start at the configured genesis
    inconsistent_accepted: bool,
}

impl EpochWorld {
    fn build(c: &Case) -> Result<EpochWorld, String> {
        let genesis = START_TIME_S * 1_000_000_000 + c.genesis_offset_ns;
        let mut bw = build_hub(DAY_NS, 2, c.duration_ns, genesis)?;
        let owner = bw.w.owner.clone();
        let code = bw.w.code.epoch_manager;
        let msg = |start: u64| em::InstantiateMsg {
            start_epoch: em::EpochV2 {
                id: 0,
                start_time: Timestamp::from_nanos(start),
            },
            epoch_config: em::EpochConfig {
                duration: Uint64::new(c.duration_ns),
                genesis_epoch: Uint64::new(genesis),
            },
        };
        let mut inconsistent_start = None;
        if c.mgr_start_skew_ns != 0 {
            let start = (genesis as i128 + c.mgr_start_skew_ns as i128).max(1) as u64;
            if start != genesis {
                inconsistent_start = bw.w.instantiate(code, &owner, &msg(start), "epoch_manager", None).ok();
            }
        }
        let inconsistent_accepted = inconsistent_start.is_some();
        let manager = match inconsistent_start {
            Some(m) => m,
            None => bw.w.instantiate(code, &owner, &msg(genesis), "epoch_manager", None)?,
        };
        let hcode = bw.w.app.store_code(hook_contract());
        let mut hooks = vec![];
        for i in 0..3 {
            let h = bw
                .w
                .instantiate(hcode, &owner, &HookInit { fail: false }, &format!("hook{i}"), None)?;
            hooks.push(h);
        }
        // a fourth hook that fails on every notification: while it is registered no epoch can be
        // created (a hook that is not notified means no new epoch), atomically
        let h = bw.w.instantiate(hcode, &owner, &HookInit { fail: true }, "hook_failing", None)?;
        hooks.push(h);
        Ok(EpochWorld { bw, manager, hooks, inconsistent_accepted })
    }

    fn log(&self, i: usize) -> Vec<LoggedCall> {
        self.bw.w.query(&self.hooks[i], &HookQuery::Log {}).unwrap_or_default()
    }
}

impl Check for EpochClocks {
    type Case = Case;
    fn name(&self) -> &'static str {
        "epoch_clock_schedules"
    }
    fn rule(&self) -> &'static str {
        "epoch manager (genesis in the future of the world's start, 0..3 logging hook receivers, hooks added / removed mid-history) and fee distributor (real collector and lair), durations 1..3 days; schedules of block-time moves {0, small, to 1 ns before / exactly at / 1 ns after the next boundary of either clock, k durations late with jitter} interleaved with creation attempts by arbitrary callers, 1..3 times in the same block. Reference clock per contract: a creation at time t is accepted iff t >= genesis and t >= start + duration (first distributor epoch: start = genesis), then id += 1 and start += duration; otherwise it is rejected and the world snapshot is unchanged. After every step CurrentEpoch equals the model and every registered hook's call log grew by exactly one entry carrying the new epoch per accepted creation (and by nothing otherwise). Non-trivial: >= 3 accepted creations and >= 1 rejection at a boundary-1 ns time."
    }
    fn strategy(&self, tier: Tier) -> BoxedStrategy<Case> {
        let max_ops = tier.pick(40usize, 120usize);
        (
            prop_oneof![Just(DAY_NS), Just(DAY_NS + 1), Just(2 * DAY_NS), DAY_NS..3 * DAY_NS],
            prop_oneof![Just(0u64), Just(1u64), 0u64..2 * DAY_NS],
            0u8..4,
            prop::collection::vec(op(), 1..max_ops),
            prop_oneof![
                8 => Just(0i64),
                1 => prop_oneof![Just(1i64), Just(-1), Just(3_600_000_000_000), Just(-3_600_000_000_000), Just(DAY_NS as i64), Just(-10 * DAY_NS as i64), Just(10 * DAY_NS as i64)],
                1 => -(20 * DAY_NS as i64)..(20 * DAY_NS as i64),
            ],
        )
            .prop_map(|(duration_ns, genesis_offset_ns, initial_hooks, ops, mgr_start_skew_ns)| Case {
                duration_ns,
                genesis_offset_ns,
                initial_hooks,
                ops,
                mgr_start_skew_ns,
            })
            .boxed()
    }
    fn cases(&self, tier: Tier) -> u32 {
        tier.pick(30_000, 1_400_000)
    }
    fn min_nontrivial(&self) -> f64 {
        0.05
    }
    fn test(&self, c: &Case, rec: &Rec) -> TResult {
        let mut ew = EpochWorld::build(c).map_err(|e| Fail::new(format!("world build failed: {e}")))?;
        let genesis = START_TIME_S * 1_000_000_000 + c.genesis_offset_ns;
        // the manager's configured duration (its admin may rewrite it mid-history)
        let mut dur = c.duration_ns;
        // the distributor's own configured duration / genesis (its owner may rewrite them mid-history)
        let mut ddur = c.duration_ns;
        let mut dgenesis = genesis;
        let owner = ew.bw.w.owner.clone();
        let mut registered = [false; 4];
        for i in 0..(c.initial_hooks.min(3) as usize) {
            let m = ew.manager.clone();
            let h = ew.hooks[i].to_string();
            ew.bw
                .w
                .exec(&owner, &m, &em::ExecuteMsg::AddHook { contract_addr: h }, &[])
                .map_err(|e| Fail::unobservable(format!("set-up: AddHook by the admin failed: {e}")))?;
            registered[i] = true;
        }
        // manager: start epoch (id 0, start = genesis) is given; distributor: nothing yet
        let mut mgr = Clock { id: 0, start_ns: genesis, started: true };
        if c.mgr_start_skew_ns != 0 {
            rec.class(if ew.inconsistent_accepted { "manager_inconsistent_start_accepted" } else { "manager_inconsistent_start_rejected" });
        }
        if ew.inconsistent_accepted {
            // judged by the statement's own words: the first epoch starts at the genesis time the contract reports
            let cfg: em::ConfigResponse = ew.bw.w.query(&ew.manager, &em::QueryMsg::Config {}).map_err(|e| Fail::unobservable(format!("manager Config query: {e}")))?;
            let me: em::EpochResponse = ew.bw.w.query(&ew.manager, &em::QueryMsg::CurrentEpoch {}).map_err(|e| Fail::new(format!("manager CurrentEpoch failed: {e}")))?;
            ensure!(
                me.epoch.start_time.nanos() == cfg.epoch_config.genesis_epoch.u64(),
                "the manager was instantiated with a first epoch starting at {} while its configured genesis is {} (start = genesis {:+} ns)",
                me.epoch.start_time.nanos(),
                cfg.epoch_config.genesis_epoch,
                c.mgr_start_skew_ns
            );
            mgr.start_ns = me.epoch.start_time.nanos();
        }
        let mut dst = Clock { id: 0, start_ns: 0, started: false };
        let mut logs: Vec<usize> = vec![0; 3];
        let mut accepted = 0;
        let mut rejected_at_boundary_minus_1 = 0;
        let mut last_move_minus1 = false;
        for (step, op) in c.ops.iter().enumerate() {
            match op {
                Op::Advance(mv) => {
                    let now = ew.bw.w.now().nanos();
                    let boundary = |w: &Which| -> u64 {
                        match w {
                            Which::Manager => mgr.start_ns + dur,
                            Which::Distributor => {
                                if dst.started {
                                    dst.start_ns + ddur
                                } else {
                                    dgenesis
                                }
                            }
                        }
                    };
                    let target = match mv {
                        Move::Zero => now,
                        Move::Ns(n) => now + n,
                        Move::ToBoundary { which, delta } => {
                            let b = boundary(which);
                            (b as i128 + *delta as i128).max(0) as u64
                        }
                        Move::Late { which, k, jitter_ns } => boundary(which) + *k as u64 * dur + *jitter_ns as u64,
                    };
                    last_move_minus1 = matches!(mv, Move::ToBoundary { delta: -1, .. }) && target >= now;
                    if target > now {
                        ew.bw.w.advance(target - now, 1);
                    }
                }
                Op::AddHook { idx } => {
                    let i = (*idx % 4) as usize;
                    let m = ew.manager.clone();
                    let h = ew.hooks[i].to_string();
                    if ew.bw.w.exec(&owner, &m, &em::ExecuteMsg::AddHook { contract_addr: h }, &[]).is_ok() {
                        registered[i] = true;
                    }
                }
                Op::RemoveHook { idx } => {
                    let i = (*idx % 4) as usize;
                    let m = ew.manager.clone();
                    let h = ew.hooks[i].to_string();
                    if ew.bw.w.exec(&owner, &m, &em::ExecuteMsg::RemoveHook { contract_addr: h }, &[]).is_ok() {
                        registered[i] = false;
                    }
                }
                Op::UpdateDistributorConfig { duration_ns, genesis_shift_h } => {
                    let d = ew.bw.dist.clone();
                    let g = (genesis as i128 + *genesis_shift_h as i128 * 3_600_000_000_000).max(1) as u64;
                    let r = ew.bw.w.exec(
                        &owner,
                        &d,
                        &fd::ExecuteMsg::UpdateConfig {
                            owner: None,
                            bonding_contract_addr: None,
                            fee_collector_addr: None,
                            grace_period: None,
                            distribution_asset: None,
                            epoch_config: Some(white_whale_std::epoch_manager::epoch_manager::EpochConfig { duration: Uint64::new(*duration_ns), genesis_epoch: Uint64::new(g) }),
                        },
                        &[],
                    );
                    // read back what is configured now instead of assuming the update was taken
                    let cfg: fd::Config = ew.bw.w.query(&d, &fd::QueryMsg::Config {}).map_err(|e| Fail::unobservable(format!("distributor Config query: {e}")))?;
                    ddur = cfg.epoch_config.duration.u64();
                    dgenesis = cfg.epoch_config.genesis_epoch.u64();
                    rec.class(if r.is_ok() { "distributor_epoch_config_rewritten" } else { "distributor_epoch_config_update_rejected" });
                    if r.is_ok() && dst.started {
                        rec.class("distributor_epoch_config_rewritten_after_first_epoch");
                    }
                }
                Op::UpdateManagerConfig { duration_ns } => {
                    let m = ew.manager.clone();
                    let r = ew.bw.w.exec(
                        &owner,
                        &m,
                        &em::ExecuteMsg::UpdateConfig {
                            owner: None,
                            epoch_config: Some(em::EpochConfig { duration: Uint64::new(*duration_ns), genesis_epoch: Uint64::new(genesis) }),
                        },
                        &[],
                    );
                    // read back what is configured now instead of assuming the update was taken
                    let cfg: em::ConfigResponse = ew.bw.w.query(&m, &em::QueryMsg::Config {}).map_err(|e| Fail::unobservable(format!("manager Config query: {e}")))?;
                    dur = cfg.epoch_config.duration.u64();
                    rec.class(if r.is_ok() { "manager_duration_rewritten" } else { "manager_duration_update_rejected" });
                    if r.is_ok() && mgr.id > 0 {
                        rec.class("manager_duration_rewritten_after_first_creation");
                    }
                }
                Op::Create { which, caller, times } => {
                    for _ in 0..*times {
                        let who = match *caller {
                            4 => owner.clone(),
                            5 => ew.manager.clone(),
                            u => ew.bw.user(u),
                        };
                        let now = ew.bw.w.now().nanos();
                        let snap = ew.bw.w.snapshot();
                        match which {
                            Which::Manager => {
                                let due = now >= mgr.start_ns && now - mgr.start_ns >= dur;
                                let expect = due && !registered[3];
                                if due && registered[3] {
                                    rec.class("manager_create_with_failing_hook");
                                }
                                let m = ew.manager.clone();
                                let r = ew.bw.w.exec(&who, &m, &em::ExecuteMsg::CreateEpoch {}, &[]);
                                ensure!(
                                    r.is_ok() == expect,
                                    "step {step}: manager CreateEpoch at {now} (current epoch {} started {}, duration {dur}, failing hook registered: {}) was {} but the reference clock says {}",
                                    mgr.id,
                                    mgr.start_ns,
                                    registered[3],
                                    if r.is_ok() { "accepted" } else { "rejected" },
                                    if expect { "accept" } else { "reject" }
                                );
                                if expect {
                                    mgr.id += 1;
                                    mgr.start_ns += dur;
                                    accepted += 1;
                                    rec.class("manager_created");
                                    for i in 0..3 {
                                        let log = ew.log(i);
                                        if registered[i] {
                                            ensure!(
                                                log.len() == logs[i] + 1,
                                                "step {step}: hook {i} was notified {} times for one new epoch",
                                                log.len() - logs[i]
                                            );
                                            let last = log.last().unwrap();
                                            ensure!(
                                                last.epoch_id == mgr.id && last.start_time_ns == mgr.start_ns && last.sender == ew.manager,
                                                "step {step}: hook {i} received epoch ({}, {}) from {}, expected ({}, {})",
                                                last.epoch_id,
                                                last.start_time_ns,
                                                last.sender,
                                                mgr.id,
                                                mgr.start_ns
                                            );
                                        } else {
                                            ensure!(log.len() == logs[i], "step {step}: unregistered hook {i} was notified");
                                        }
                                        logs[i] = log.len();
                                    }
                                } else {
                                    rec.class("manager_rejected");
                                    if last_move_minus1 {
                                        rejected_at_boundary_minus_1 += 1;
                                    }
                                    let s2 = ew.bw.w.snapshot();
                                    ensure!(s2 == snap, "step {step}: rejected CreateEpoch changed the world: {}", snap.diff(&s2));
                                }
                            }
                            Which::Distributor => {
                                let expect = if dst.started {
                                    now >= dst.start_ns && now - dst.start_ns >= ddur
                                } else {
                                    now >= dgenesis
                                };
                                let r = ew.bw.new_epoch(&who);
                                ensure!(
                                    r.is_ok() == expect,
                                    "step {step}: distributor NewEpoch at {now} (current epoch {} started {}, started={}, configured genesis {dgenesis}, configured duration {ddur}) was {} but the reference clock says {}: {:?}",
                                    dst.id,
                                    dst.start_ns,
                                    dst.started,
                                    if r.is_ok() { "accepted" } else { "rejected" },
                                    if expect { "accept" } else { "reject" },
                                    r.as_ref().err()
                                );
                                if expect {
                                    dst.id += 1;
                                    dst.start_ns = if dst.started { dst.start_ns + ddur } else { dgenesis };
                                    dst.started = true;
                                    accepted += 1;
                                    rec.class("distributor_created");
                                } else {
                                    rec.class("distributor_rejected");
                                    if last_move_minus1 {
                                        rejected_at_boundary_minus_1 += 1;
                                    }
                                    let s2 = ew.bw.w.snapshot();
                                    ensure!(s2 == snap, "step {step}: rejected NewEpoch changed the world: {}", snap.diff(&s2));
                                }
                            }
                        }
                    }
                }
            }
            // current epochs equal the model
            let me: em::EpochResponse = ew
                .bw
                .w
                .query(&ew.manager, &em::QueryMsg::CurrentEpoch {})
                .map_err(|e| Fail::new(format!("manager CurrentEpoch failed: {e}")))?;
            ensure!(
                me.epoch.id == mgr.id && me.epoch.start_time.nanos() == mgr.start_ns,
                "step {step} ({op:?}): manager current epoch ({}, {}) != model ({}, {})",
                me.epoch.id,
                me.epoch.start_time.nanos(),
                mgr.id,
                mgr.start_ns
            );
            let de: fd::EpochResponse = ew
                .bw
                .w
                .query(&ew.bw.dist, &fd::QueryMsg::CurrentEpoch {})
                .map_err(|e| Fail::new(format!("distributor CurrentEpoch failed: {e}")))?;
            ensure!(
                de.epoch.id.u64() == dst.id && de.epoch.start_time.nanos() == dst.start_ns,
                "step {step} ({op:?}): distributor current epoch ({}, {}) != model ({}, {})",
                de.epoch.id,
                de.epoch.start_time.nanos(),
                dst.id,
                dst.start_ns
            );
            for i in 0..3 {
                ensure!(ew.log(i).len() == logs[i], "step {step} ({op:?}): hook {i} log changed outside an epoch creation");
            }
        }
        if accepted >= 3 && rejected_at_boundary_minus_1 >= 1 {
            rec.nontrivial(hash_of(c));
            rec.sample(c);
        }
        Ok(())
    }
}

pub fn property() -> Property {
    Property {
        id: "C20",
        checks: vec![Box::new(EpochClocks)],
        assumptions: vec![
            "block time is owned by the harness; a schedule is an order of transactions and their block times",
            "hook receivers are harness contracts that log (sender, epoch) of every EpochChangedHook they receive",
            "the epoch manager's start epoch is (id 0, start = genesis), so its first created epoch is id 1 at genesis + duration; the distributor's first epoch starts at genesis",
        ],
    }
}
