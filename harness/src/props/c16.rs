//! C16 — only the owner (or the designated contract) can perform privileged operations.
//! The complete ExecuteMsg variant table of 14 contracts (checked against the serde/schemars
//! variant names at start-up) × caller roles × before/after an ownership transfer is enumerated;
//! payload details are random.

use cosmwasm_std::{coin, to_json_binary, Addr, Binary, CosmosMsg, Decimal, Timestamp, Uint128, Uint64, WasmMsg};
use cw_multi_test::Executor;
use proptest::prelude::*;
use serde::{Deserialize, Serialize};

use white_whale_std::epoch_manager::epoch_manager as em;
use white_whale_std::fee_collector as fc;
use white_whale_std::fee_distributor as fd;
use white_whale_std::pool_network::asset::{AssetInfo, PairType};
use white_whale_std::pool_network::{factory, frontend_helper, incentive, incentive_factory, pair, router, trio};
use white_whale_std::vault_network::{vault, vault_factory, vault_router};
use white_whale_std::whale_lair as lair;

use crate::engine::{hash_of, Check, Fail, Property, Rec, TResult, Tier};
use crate::ensure;
use crate::world::{asset, dec, native, pool_fee, token, trio_fee, vault_fee, World, DAY_NS, START_TIME_S};

#[derive(Clone, Copy, Debug, PartialEq, Eq, Serialize, Deserialize)]
pub enum Target {
    PoolFactory,
    Pair,
    Trio,
    Router,
    Helper,
    IncFactory,
    Incentive,
    VaultFactory,
    Vault,
    VaultRouter,
    Collector,
    Distributor,
    Lair,
    EpochManager,
}

#[derive(Clone, Copy, Debug, PartialEq, Eq)]
pub enum Kind {
    /// only the configured owner (for children: their factory); `ok`: the canonical payload must
    /// succeed for the authorised caller
    Owner { ok: bool },
    /// only the contract itself
    SelfOnly,
    /// only the fee distributor
    DistributorOnly,
    /// only a vault registered in the vault factory
    RegisteredVault,
    /// flow creator or factory owner
    CreatorOrFactoryOwner,
    /// anyone may call; not asserted here
    Permissionless,
    /// no sender check by construction and no effects: asserted effect-free for every caller
    EffectFree,
}

pub struct Entry {
    pub target: Target,
    pub variant: &'static str,
    pub kind: Kind,
}

pub fn table() -> Vec<Entry> {
    use Kind::*;
    use Target::*;
    let e = |target, variant, kind| Entry { target, variant, kind };
    vec![
        e(PoolFactory, "update_config", Owner { ok: true }),
        e(PoolFactory, "update_pair_config", Owner { ok: true }),
        e(PoolFactory, "update_trio_config", Owner { ok: true }),
        e(PoolFactory, "create_pair", Owner { ok: true }),
        e(PoolFactory, "create_trio", Owner { ok: true }),
        e(PoolFactory, "add_native_token_decimals", Owner { ok: true }),
        e(PoolFactory, "migrate_pair", Owner { ok: false }),
        e(PoolFactory, "migrate_trio", Owner { ok: false }),
        e(PoolFactory, "remove_pair", Owner { ok: true }),
        e(PoolFactory, "remove_trio", Owner { ok: true }),
        e(Pair, "receive", Permissionless),
        e(Pair, "provide_liquidity", Permissionless),
        e(Pair, "withdraw_liquidity", Permissionless),
        e(Pair, "swap", Permissionless),
        e(Pair, "update_config", Owner { ok: true }),
        e(Pair, "collect_protocol_fees", Permissionless),
        e(Trio, "receive", Permissionless),
        e(Trio, "provide_liquidity", Permissionless),
        e(Trio, "withdraw_liquidity", Permissionless),
        e(Trio, "swap", Permissionless),
        e(Trio, "update_config", Owner { ok: true }),
        e(Trio, "collect_protocol_fees", Permissionless),
        e(Router, "receive", Permissionless),
        e(Router, "execute_swap_operations", Permissionless),
        e(Router, "execute_swap_operation", SelfOnly),
        e(Router, "assert_minimum_receive", EffectFree),
        e(Router, "add_swap_routes", Owner { ok: true }),
        e(Router, "remove_swap_routes", Owner { ok: true }),
        e(Helper, "deposit", Permissionless),
        e(Helper, "update_config", Owner { ok: true }),
        e(IncFactory, "create_incentive", Owner { ok: true }),
        e(IncFactory, "update_config", Owner { ok: true }),
        e(IncFactory, "migrate_incentives", Owner { ok: false }),
        e(Incentive, "take_global_weight_snapshot", Permissionless),
        e(Incentive, "open_flow", Permissionless),
        e(Incentive, "close_flow", CreatorOrFactoryOwner),
        e(Incentive, "open_position", Permissionless),
        e(Incentive, "expand_position", Permissionless),
        e(Incentive, "close_position", Permissionless),
        e(Incentive, "withdraw", Permissionless),
        e(Incentive, "claim", Permissionless),
        e(Incentive, "expand_flow", Permissionless),
        e(VaultFactory, "create_vault", Owner { ok: true }),
        e(VaultFactory, "migrate_vaults", Owner { ok: false }),
        e(VaultFactory, "remove_vault", Owner { ok: true }),
        e(VaultFactory, "update_vault_config", Owner { ok: true }),
        e(VaultFactory, "update_config", Owner { ok: true }),
        e(Vault, "deposit", Permissionless),
        e(Vault, "withdraw", Permissionless),
        e(Vault, "flash_loan", Permissionless),
        e(Vault, "collect_protocol_fees", Permissionless),
        e(Vault, "update_config", Owner { ok: true }),
        e(Vault, "receive", Permissionless),
        e(Vault, "callback", SelfOnly),
        e(VaultRouter, "flash_loan", Permissionless),
        e(VaultRouter, "update_config", Owner { ok: true }),
        e(VaultRouter, "next_loan", RegisteredVault),
        e(VaultRouter, "complete_loan", SelfOnly),
        e(Collector, "collect_fees", Permissionless),
        e(Collector, "aggregate_fees", Permissionless),
        e(Collector, "forward_fees", DistributorOnly),
        e(Collector, "update_config", Owner { ok: true }),
        e(Distributor, "new_epoch", Permissionless),
        e(Distributor, "claim", Permissionless),
        e(Distributor, "update_config", Owner { ok: true }),
        e(Lair, "bond", Permissionless),
        e(Lair, "unbond", Permissionless),
        e(Lair, "withdraw", Permissionless),
        e(Lair, "update_config", Owner { ok: true }),
        e(EpochManager, "create_epoch", Permissionless),
        e(EpochManager, "add_hook", Owner { ok: true }),
        e(EpochManager, "remove_hook", Owner { ok: true }),
        e(EpochManager, "update_config", Owner { ok: true }),
    ]
}

fn variants_of(schema: schemars::schema::RootSchema) -> Vec<String> {
    let v = serde_json::to_value(&schema).unwrap();
    let mut out = vec![];
    if let Some(arr) = v.get("oneOf").and_then(|a| a.as_array()) {
        for item in arr {
            if let Some(req) = item.get("required").and_then(|r| r.as_array()) {
                for r in req {
                    if let Some(s) = r.as_str() {
                        out.push(s.to_string());
                    }
                }
            }
            if let Some(en) = item.get("enum").and_then(|r| r.as_array()) {
                for r in en {
                    if let Some(s) = r.as_str() {
                        out.push(s.to_string());
                    }
                }
            }
        }
    }
    out.sort();
    out.dedup();
    out
}

/// The hand-written table must list exactly the ExecuteMsg variants the code has.
pub fn table_mismatches() -> Vec<String> {
    use Target::*;
    let all: Vec<(Target, Vec<String>)> = vec![
        (PoolFactory, variants_of(schemars::schema_for!(factory::ExecuteMsg))),
        (Pair, variants_of(schemars::schema_for!(pair::ExecuteMsg))),
        (Trio, variants_of(schemars::schema_for!(trio::ExecuteMsg))),
        (Router, variants_of(schemars::schema_for!(router::ExecuteMsg))),
        (Helper, variants_of(schemars::schema_for!(frontend_helper::ExecuteMsg))),
        (IncFactory, variants_of(schemars::schema_for!(incentive_factory::ExecuteMsg))),
        (Incentive, variants_of(schemars::schema_for!(incentive::ExecuteMsg))),
        (VaultFactory, variants_of(schemars::schema_for!(vault_factory::ExecuteMsg))),
        (Vault, variants_of(schemars::schema_for!(vault::ExecuteMsg))),
        (VaultRouter, variants_of(schemars::schema_for!(vault_router::ExecuteMsg))),
        (Collector, variants_of(schemars::schema_for!(fc::ExecuteMsg))),
        (Distributor, variants_of(schemars::schema_for!(fd::ExecuteMsg))),
        (Lair, variants_of(schemars::schema_for!(lair::ExecuteMsg))),
        (EpochManager, variants_of(schemars::schema_for!(em::ExecuteMsg))),
    ];
    let t = table();
    let mut out = vec![];
    for (target, vars) in all {
        let mut mine: Vec<String> = t.iter().filter(|e| e.target == target).map(|e| e.variant.to_string()).collect();
        mine.sort();
        if mine != vars {
            out.push(format!("{target:?}: table has {mine:?}, code has {vars:?}"));
        }
    }
    out
}

pub struct Everything {
    pub w: World,
    pub new_owner: Addr,
    pub pair: Addr,
    pub pair_assets: [AssetInfo; 2],
    pub pair_lp: AssetInfo,
    pub trio: Addr,
    pub trio_assets: [AssetInfo; 3],
    pub helper: Addr,
    pub inc_factory: Addr,
    pub incentive: Addr,
    pub vault: Addr,
    pub vault_asset: AssetInfo,
    pub manager: Addr,
    pub flow_creator: Addr,
    pub spare_cw20: Addr,
}

impl Everything {
    pub fn build() -> Result<Everything, String> {
        let mut w = World::new_with_fund(&["alice", "bob", "carol"], &["uaaa", "ubbb", "uccc", "uddd", "uwhale", "ampwhale", "ufee"], 1u128 << 100);
        w.setup_pool_network();
        w.setup_vault_network();
        for d in ["uaaa", "ubbb", "uccc", "uddd", "uwhale"] {
            w.register_native_decimals(d, 6);
        }
        let owner = w.owner.clone();
        let new_owner = w.add_account("newowner");
        let spare_cw20 = w.create_cw20_with_fund("spare", 6, 1u128 << 90);
        let pair_assets = [native("uaaa"), native("ubbb")];
        let pinfo = w.create_pair(pair_assets.clone(), pool_fee([1_000_000_000_000_000, 2_000_000_000_000_000, 0]), PairType::ConstantProduct)?;
        let pair = Addr::unchecked(pinfo.contract_addr);
        let trio_assets = [native("uaaa"), native("ubbb"), native("uccc")];
        let tinfo = w.create_trio(trio_assets.clone(), trio_fee([1_000_000_000_000_000, 2_000_000_000_000_000, 0]), 100)?;
        let trio = Addr::unchecked(tinfo.contract_addr);
        let vault_asset = native("uaaa");
        let (vault, _vlp) = w.create_vault(&vault_asset, vault_fee([1_000_000_000_000_000, 2_000_000_000_000_000, 0]))?;
        w.setup_fee_hub(&["ampwhale"], DAY_NS, Decimal::one(), 2, DAY_NS, START_TIME_S * 1_000_000_000, native("uwhale"))?;
        let dist = w.fee_distributor.clone().unwrap();
        let collector = w.fee_collector.clone().unwrap();
        // an address the configuration names in a role other than the owner's: the take-rate recipient
        let dao = w.add_account("dao");
        let hub = w.owner.clone();
        w.exec(
            &hub,
            &collector,
            &fc::ExecuteMsg::UpdateConfig {
                owner: None,
                pool_router: None,
                fee_distributor: None,
                pool_factory: None,
                vault_factory: None,
                take_rate: None,
                take_rate_dao_address: Some(dao.to_string()),
                is_take_rate_active: None,
            },
            &[],
        )
        .map_err(|e| format!("naming the take-rate recipient: {e}"))?;
        // liquidity everywhere, one epoch
        let alice = w.users[0].clone();
        let a = 1_000_000_000u128;
        w.exec(
            &alice,
            &pair,
            &pair::ExecuteMsg::ProvideLiquidity {
                assets: [asset(&pair_assets[0], a), asset(&pair_assets[1], a)],
                slippage_tolerance: None,
                receiver: None,
            },
            &[coin(a, "uaaa"), coin(a, "ubbb")],
        )?;
        w.exec(
            &alice,
            &trio,
            &trio::ExecuteMsg::ProvideLiquidity {
                assets: [asset(&trio_assets[0], a), asset(&trio_assets[1], a), asset(&trio_assets[2], a)],
                slippage_tolerance: None,
                receiver: None,
            },
            &[coin(a, "uaaa"), coin(a, "ubbb"), coin(a, "uccc")],
        )?;
        w.exec(&alice, &vault, &vault::ExecuteMsg::Deposit { amount: Uint128::new(a) }, &[coin(a, "uaaa")])?;
        w.exec(&alice, &dist, &fd::ExecuteMsg::NewEpoch {}, &[])?;
        // incentive network on the pair's LP
        let inc_factory = w.instantiate(
            w.code.incentive_factory,
            &owner,
            &incentive_factory::InstantiateMsg {
                fee_collector_addr: collector.to_string(),
                fee_distributor_addr: dist.to_string(),
                create_flow_fee: asset(&native("ufee"), 1000),
                max_concurrent_flows: 5,
                incentive_code_id: w.code.incentive,
                max_flow_epoch_buffer: 14,
                min_unbonding_duration: 86_400,
                max_unbonding_duration: 31_556_926,
            },
            "incentive_factory",
            None,
        )?;
        w.exec(&owner, &inc_factory, &incentive_factory::ExecuteMsg::CreateIncentive { lp_asset: pinfo.liquidity_token.clone() }, &[])?;
        let ia: incentive_factory::IncentiveResponse = w.query(&inc_factory, &incentive_factory::QueryMsg::Incentive { lp_asset: pinfo.liquidity_token.clone() })?;
        let incentive = ia.ok_or("no incentive")?;
        w.register("incentive", &incentive);
        // a flow created by bob
        let bob = w.users[1].clone();
        w.exec(
            &bob,
            &incentive,
            &incentive::ExecuteMsg::OpenFlow {
                start_epoch: None,
                end_epoch: None,
                curve: None,
                flow_asset: asset(&native("uddd"), 1_000_000),
                flow_label: None,
            },
            &[coin(1_000_000, "uddd"), coin(1000, "ufee")],
        )?;
        let helper = w.instantiate(
            w.code.frontend_helper,
            &owner,
            &frontend_helper::InstantiateMsg { incentive_factory: inc_factory.to_string() },
            "frontend_helper",
            None,
        )?;
        let genesis = w.now().nanos() + DAY_NS;
        let manager = w.instantiate(
            w.code.epoch_manager,
            &owner,
            &em::InstantiateMsg {
                start_epoch: em::EpochV2 { id: 0, start_time: Timestamp::from_nanos(genesis) },
                epoch_config: em::EpochConfig { duration: Uint64::new(DAY_NS), genesis_epoch: Uint64::new(genesis) },
            },
            "epoch_manager",
            None,
        )?;
        // a registered route so that remove_swap_routes has something to remove
        let router = w.router.clone().unwrap();
        w.exec(
            &owner,
            &router,
            &router::ExecuteMsg::AddSwapRoutes {
                swap_routes: vec![router::SwapRoute {
                    offer_asset_info: native("uaaa"),
                    ask_asset_info: native("ubbb"),
                    swap_operations: vec![router::SwapOperation::TerraSwap {
                        offer_asset_info: native("uaaa"),
                        ask_asset_info: native("ubbb"),
                    }],
                }],
            },
            &[],
        )?;
        Ok(Everything {
            w,
            new_owner,
            pair,
            pair_assets,
            pair_lp: pinfo.liquidity_token,
            trio,
            trio_assets,
            helper,
            inc_factory,
            incentive,
            vault,
            vault_asset,
            manager,
            flow_creator: bob,
            spare_cw20,
        })
    }

    pub fn addr(&self, t: Target) -> Addr {
        match t {
            Target::PoolFactory => self.w.factory.clone().unwrap(),
            Target::Pair => self.pair.clone(),
            Target::Trio => self.trio.clone(),
            Target::Router => self.w.router.clone().unwrap(),
            Target::Helper => self.helper.clone(),
            Target::IncFactory => self.inc_factory.clone(),
            Target::Incentive => self.incentive.clone(),
            Target::VaultFactory => self.w.vault_factory.clone().unwrap(),
            Target::Vault => self.vault.clone(),
            Target::VaultRouter => self.w.vault_router.clone().unwrap(),
            Target::Collector => self.w.fee_collector.clone().unwrap(),
            Target::Distributor => self.w.fee_distributor.clone().unwrap(),
            Target::Lair => self.w.whale_lair.clone().unwrap(),
            Target::EpochManager => self.manager.clone(),
        }
    }

    /// the address currently configured as the owner of the target
    pub fn configured_owner(&self, t: Target) -> Addr {
        match t {
            Target::Pair | Target::Trio => self.w.factory.clone().unwrap(),
            Target::Vault => self.w.vault_factory.clone().unwrap(),
            _ => self.w.owner.clone(),
        }
    }

    /// the (contract, message) that moves the ownership of `t` to `newowner`, sent by the owner
    /// account (through the factory for children). None when the target has no transferable owner
    /// reachable by a message (the router's wasm admin).
    pub fn transfer_msg(&self, t: Target, to: &Addr) -> Option<(Addr, Binary)> {
        let n = Some(to.to_string());
        let b = |m: Binary, a: Addr| Some((a, m));
        match t {
            Target::PoolFactory => b(
                to_json_binary(&factory::ExecuteMsg::UpdateConfig { owner: n, fee_collector_addr: None, token_code_id: None, pair_code_id: None, trio_code_id: None }).unwrap(),
                self.addr(t),
            ),
            Target::Pair => b(
                to_json_binary(&factory::ExecuteMsg::UpdatePairConfig { pair_addr: self.pair.to_string(), owner: n, fee_collector_addr: None, pool_fees: None, feature_toggle: None }).unwrap(),
                self.addr(Target::PoolFactory),
            ),
            Target::Trio => b(
                to_json_binary(&factory::ExecuteMsg::UpdateTrioConfig { trio_addr: self.trio.to_string(), owner: n, fee_collector_addr: None, pool_fees: None, feature_toggle: None, amp_factor: None }).unwrap(),
                self.addr(Target::PoolFactory),
            ),
            Target::Router => None,
            Target::Helper => b(to_json_binary(&frontend_helper::ExecuteMsg::UpdateConfig { incentive_factory_addr: None, owner: n }).unwrap(), self.addr(t)),
            Target::IncFactory | Target::Incentive => b(
                to_json_binary(&incentive_factory::ExecuteMsg::UpdateConfig {
                    owner: n,
                    fee_collector_addr: None,
                    fee_distributor_addr: None,
                    create_flow_fee: None,
                    max_concurrent_flows: None,
                    incentive_code_id: None,
                    max_flow_start_time_buffer: None,
                    min_unbonding_duration: None,
                    max_unbonding_duration: None,
                })
                .unwrap(),
                self.addr(Target::IncFactory),
            ),
            Target::VaultFactory => b(
                to_json_binary(&vault_factory::ExecuteMsg::UpdateConfig { owner: n, fee_collector_addr: None, vault_id: None, token_id: None }).unwrap(),
                self.addr(t),
            ),
            Target::Vault => b(
                to_json_binary(&vault_factory::ExecuteMsg::UpdateVaultConfig {
                    vault_addr: self.vault.to_string(),
                    params: vault::UpdateConfigParams {
                        flash_loan_enabled: None,
                        deposit_enabled: None,
                        withdraw_enabled: None,
                        new_owner: n,
                        new_vault_fees: None,
                        new_fee_collector_addr: None,
                    },
                })
                .unwrap(),
                self.addr(Target::VaultFactory),
            ),
            Target::VaultRouter => b(to_json_binary(&vault_router::ExecuteMsg::UpdateConfig { owner: n, vault_factory_addr: None }).unwrap(), self.addr(t)),
            Target::Collector => b(
                to_json_binary(&fc::ExecuteMsg::UpdateConfig {
                    owner: n,
                    pool_router: None,
                    fee_distributor: None,
                    pool_factory: None,
                    vault_factory: None,
                    take_rate: None,
                    take_rate_dao_address: None,
                    is_take_rate_active: None,
                })
                .unwrap(),
                self.addr(t),
            ),
            Target::Distributor => b(
                to_json_binary(&fd::ExecuteMsg::UpdateConfig { owner: n, bonding_contract_addr: None, fee_collector_addr: None, grace_period: None, distribution_asset: None, epoch_config: None }).unwrap(),
                self.addr(t),
            ),
            Target::Lair => b(to_json_binary(&lair::ExecuteMsg::UpdateConfig { owner: n, unbonding_period: None, growth_rate: None, fee_distributor_addr: None }).unwrap(), self.addr(t)),
            Target::EpochManager => b(to_json_binary(&em::ExecuteMsg::UpdateConfig { owner: n, epoch_config: None }).unwrap(), self.addr(t)),
        }
    }

    /// A valid payload for (target, variant); `r` varies the details.
    /// `caller` lets the payload name the caller itself where a message carries the identity it
    /// is checked against (bits 8.. of `r` choose: canonical / the caller / somebody else, and a
    /// registered / unregistered asset).
    pub fn payload(&self, t: Target, variant: &str, r: u64, caller: &Addr) -> Option<Binary> {
        let small = (r % 1000) as u128;
        let fee = pool_fee([(r % 7) as u128 * 1_000_000_000_000_000, 2_000_000_000_000_000, 0]);
        let someaddr = ["alice", "bob", "carol", "newowner"][(r % 4) as usize].to_string();
        let j = |m: Binary| Some(m);
        Some(match (t, variant) {
            (Target::PoolFactory, "update_config") => to_json_binary(&factory::ExecuteMsg::UpdateConfig {
                owner: None,
                fee_collector_addr: if r % 2 == 0 { Some(someaddr) } else { None },
                token_code_id: if r % 3 == 0 { Some(self.w.code.token) } else { None },
                pair_code_id: None,
                trio_code_id: None,
            })
            .unwrap(),
            (Target::PoolFactory, "update_pair_config") => to_json_binary(&factory::ExecuteMsg::UpdatePairConfig {
                pair_addr: self.pair.to_string(),
                owner: None,
                fee_collector_addr: None,
                pool_fees: Some(fee),
                feature_toggle: None,
            })
            .unwrap(),
            (Target::PoolFactory, "update_trio_config") => to_json_binary(&factory::ExecuteMsg::UpdateTrioConfig {
                trio_addr: self.trio.to_string(),
                owner: None,
                fee_collector_addr: None,
                pool_fees: Some(trio_fee([(r % 7) as u128 * 1_000_000_000_000_000, 0, 0])),
                feature_toggle: None,
                amp_factor: None,
            })
            .unwrap(),
            (Target::PoolFactory, "create_pair") => to_json_binary(&factory::ExecuteMsg::CreatePair {
                asset_infos: [native("uccc"), native("uddd")],
                pool_fees: fee,
                pair_type: PairType::ConstantProduct,
                token_factory_lp: false,
            })
            .unwrap(),
            (Target::PoolFactory, "create_trio") => to_json_binary(&factory::ExecuteMsg::CreateTrio {
                asset_infos: [native("ubbb"), native("uccc"), native("uddd")],
                pool_fees: trio_fee([0, 1_000_000_000_000_000, 0]),
                amp_factor: 1 + r % 1000,
                token_factory_lp: false,
            })
            .unwrap(),
            (Target::PoolFactory, "add_native_token_decimals") => to_json_binary(&factory::ExecuteMsg::AddNativeTokenDecimals { denom: format!("unew{}", r % 5), decimals: (r % 19) as u8 }).unwrap(),
            (Target::PoolFactory, "migrate_pair") => to_json_binary(&factory::ExecuteMsg::MigratePair { contract: self.pair.to_string(), code_id: None }).unwrap(),
            (Target::PoolFactory, "migrate_trio") => to_json_binary(&factory::ExecuteMsg::MigrateTrio { contract: self.trio.to_string(), code_id: None }).unwrap(),
            (Target::PoolFactory, "remove_pair") => to_json_binary(&factory::ExecuteMsg::RemovePair { asset_infos: self.pair_assets.clone() }).unwrap(),
            (Target::PoolFactory, "remove_trio") => to_json_binary(&factory::ExecuteMsg::RemoveTrio { asset_infos: self.trio_assets.clone() }).unwrap(),
            (Target::Pair, "update_config") => to_json_binary(&pair::ExecuteMsg::UpdateConfig {
                owner: None,
                fee_collector_addr: if r % 2 == 0 { Some(someaddr) } else { None },
                pool_fees: Some(fee),
                feature_toggle: Some(pair::FeatureToggle { withdrawals_enabled: r % 2 == 0, deposits_enabled: r % 3 == 0, swaps_enabled: r % 5 == 0 }),
            })
            .unwrap(),
            (Target::Trio, "update_config") => to_json_binary(&trio::ExecuteMsg::UpdateConfig {
                owner: None,
                fee_collector_addr: None,
                pool_fees: Some(trio_fee([(r % 7) as u128 * 1_000_000_000_000_000, 0, 0])),
                feature_toggle: Some(trio::FeatureToggle { withdrawals_enabled: r % 2 == 0, deposits_enabled: r % 3 == 0, swaps_enabled: r % 5 == 0 }),
                amp_factor: None,
            })
            .unwrap(),
            (Target::Router, "execute_swap_operation") => to_json_binary(&router::ExecuteMsg::ExecuteSwapOperation {
                operation: router::SwapOperation::TerraSwap { offer_asset_info: native("uaaa"), ask_asset_info: native("ubbb") },
                to: Some(someaddr),
                max_spread: Some(dec(500_000_000_000_000_000)),
            })
            .unwrap(),
            (Target::Router, "assert_minimum_receive") => to_json_binary(&router::ExecuteMsg::AssertMinimumReceive {
                asset_info: native("uaaa"),
                prev_balance: Uint128::new(small),
                minimum_receive: Uint128::new(small % 7),
                receiver: someaddr,
            })
            .unwrap(),
            (Target::Router, "add_swap_routes") => to_json_binary(&router::ExecuteMsg::AddSwapRoutes {
                swap_routes: vec![router::SwapRoute {
                    offer_asset_info: native("ubbb"),
                    ask_asset_info: native("uaaa"),
                    swap_operations: vec![router::SwapOperation::TerraSwap { offer_asset_info: native("ubbb"), ask_asset_info: native("uaaa") }],
                }],
            })
            .unwrap(),
            (Target::Router, "remove_swap_routes") => to_json_binary(&router::ExecuteMsg::RemoveSwapRoutes {
                swap_routes: vec![router::SwapRoute {
                    offer_asset_info: native("uaaa"),
                    ask_asset_info: native("ubbb"),
                    swap_operations: vec![router::SwapOperation::TerraSwap { offer_asset_info: native("uaaa"), ask_asset_info: native("ubbb") }],
                }],
            })
            .unwrap(),
            (Target::Helper, "update_config") => to_json_binary(&frontend_helper::ExecuteMsg::UpdateConfig { incentive_factory_addr: Some(someaddr), owner: None }).unwrap(),
            (Target::IncFactory, "create_incentive") => to_json_binary(&incentive_factory::ExecuteMsg::CreateIncentive { lp_asset: token(&self.spare_cw20) }).unwrap(),
            (Target::IncFactory, "update_config") => to_json_binary(&incentive_factory::ExecuteMsg::UpdateConfig {
                owner: None,
                fee_collector_addr: None,
                fee_distributor_addr: None,
                create_flow_fee: Some(asset(&native("ufee"), 1 + small)),
                max_concurrent_flows: Some(1 + r % 9),
                incentive_code_id: None,
                max_flow_start_time_buffer: None,
                min_unbonding_duration: None,
                max_unbonding_duration: None,
            })
            .unwrap(),
            (Target::IncFactory, "migrate_incentives") => to_json_binary(&incentive_factory::ExecuteMsg::MigrateIncentives { incentive_address: Some(self.incentive.to_string()), code_id: self.w.code.incentive }).unwrap(),
            (Target::Incentive, "close_flow") => to_json_binary(&incentive::ExecuteMsg::CloseFlow { flow_identifier: incentive::FlowIdentifier::Id(1) }).unwrap(),
            (Target::VaultFactory, "create_vault") => to_json_binary(&vault_factory::ExecuteMsg::CreateVault { asset_info: native("ubbb"), fees: vault_fee([1_000_000_000_000_000, 0, 0]), token_factory_lp: false }).unwrap(),
            (Target::VaultFactory, "migrate_vaults") => to_json_binary(&vault_factory::ExecuteMsg::MigrateVaults { vault_addr: Some(self.vault.to_string()), vault_code_id: self.w.code.vault }).unwrap(),
            (Target::VaultFactory, "remove_vault") => to_json_binary(&vault_factory::ExecuteMsg::RemoveVault { asset_info: self.vault_asset.clone() }).unwrap(),
            (Target::VaultFactory, "update_vault_config") => to_json_binary(&vault_factory::ExecuteMsg::UpdateVaultConfig {
                vault_addr: self.vault.to_string(),
                params: vault::UpdateConfigParams {
                    flash_loan_enabled: Some(r % 2 == 0),
                    deposit_enabled: Some(r % 3 == 0),
                    withdraw_enabled: None,
                    new_owner: None,
                    new_vault_fees: None,
                    new_fee_collector_addr: None,
                },
            })
            .unwrap(),
            (Target::VaultFactory, "update_config") => to_json_binary(&vault_factory::ExecuteMsg::UpdateConfig { owner: None, fee_collector_addr: Some(someaddr), vault_id: None, token_id: None }).unwrap(),
            (Target::Vault, "update_config") => to_json_binary(&vault::ExecuteMsg::UpdateConfig(vault::UpdateConfigParams {
                flash_loan_enabled: Some(r % 2 == 0),
                deposit_enabled: None,
                withdraw_enabled: Some(r % 3 == 0),
                new_owner: None,
                new_vault_fees: Some(vault_fee([(r % 9) as u128 * 1_000_000_000_000_000, 0, 0])),
                new_fee_collector_addr: None,
            }))
            .unwrap(),
            (Target::Vault, "callback") => to_json_binary(&vault::ExecuteMsg::Callback(vault::CallbackMsg::AfterTrade { old_balance: Uint128::new(small), loan_amount: Uint128::zero() })).unwrap(),
            (Target::VaultRouter, "update_config") => to_json_binary(&vault_router::ExecuteMsg::UpdateConfig { owner: None, vault_factory_addr: Some(someaddr) }).unwrap(),
            (Target::VaultRouter, "next_loan") => to_json_binary(&vault_router::ExecuteMsg::NextLoan {
                initiator: Addr::unchecked(someaddr.clone()),
                source_vault: if *caller == self.vault {
                    self.vault.to_string()
                } else {
                    match (r >> 8) % 3 {
                        0 => self.vault.to_string(),
                        1 => caller.to_string(),
                        _ => someaddr,
                    }
                },
                source_vault_asset_info: if *caller == self.vault {
                    self.vault_asset.clone()
                } else {
                    match (r >> 10) % 3 {
                        0 => self.vault_asset.clone(),
                        1 => native("uunregistered"),
                        _ => native("uwhale"),
                    }
                },
                payload: vec![],
                to_loan: vec![],
                loaned_assets: vec![],
            })
            .unwrap(),
            (Target::VaultRouter, "complete_loan") => to_json_binary(&vault_router::ExecuteMsg::CompleteLoan { initiator: if (r >> 8) % 2 == 1 { caller.clone() } else { Addr::unchecked(someaddr) }, loaned_assets: vec![] }).unwrap(),
            (Target::Collector, "forward_fees") => {
                let e: fd::EpochResponse = self.w.query(&self.addr(Target::Distributor), &fd::QueryMsg::CurrentEpoch {}).ok()?;
                to_json_binary(&fc::ExecuteMsg::ForwardFees { epoch: e.epoch, forward_fees_as: native("uwhale") }).unwrap()
            }
            (Target::Collector, "update_config") => to_json_binary(&fc::ExecuteMsg::UpdateConfig {
                owner: None,
                pool_router: None,
                fee_distributor: None,
                pool_factory: None,
                vault_factory: None,
                take_rate: Some(dec(small * 1_000_000_000_000_000)),
                take_rate_dao_address: Some(someaddr),
                is_take_rate_active: Some(r % 2 == 0),
            })
            .unwrap(),
            (Target::Distributor, "update_config") => to_json_binary(&fd::ExecuteMsg::UpdateConfig { owner: None, bonding_contract_addr: None, fee_collector_addr: None, grace_period: Some(Uint64::new(2 + r % 20)), distribution_asset: None, epoch_config: None }).unwrap(),
            (Target::Lair, "update_config") => to_json_binary(&lair::ExecuteMsg::UpdateConfig { owner: None, unbonding_period: Some(Uint64::new(1 + r % 1_000_000)), growth_rate: Some(dec(small * 1_000_000_000_000_000)), fee_distributor_addr: None }).unwrap(),
            (Target::EpochManager, "add_hook") => to_json_binary(&em::ExecuteMsg::AddHook { contract_addr: someaddr }).unwrap(),
            (Target::EpochManager, "remove_hook") => {
                return None; // exercised through the add→remove pair below
            }
            (Target::EpochManager, "update_config") => to_json_binary(&em::ExecuteMsg::UpdateConfig { owner: None, epoch_config: Some(em::EpochConfig { duration: Uint64::new(DAY_NS + r % 1000), genesis_epoch: Uint64::new(1) }) }).unwrap(),
            _ => return j(Binary::default()).and(None),
        })
    }
}

const OPTIONAL_KEYS: [&str; 40] = [
    "owner", "new_owner", "fee_collector_addr", "pool_fees", "feature_toggle", "amp_factor", "token_code_id", "pair_code_id",
    "trio_code_id", "incentive_factory_addr", "fee_distributor_addr", "create_flow_fee", "max_concurrent_flows", "incentive_code_id",
    "max_flow_start_time_buffer", "min_unbonding_duration", "max_unbonding_duration", "vault_id", "token_id", "flash_loan_enabled",
    "deposit_enabled", "withdraw_enabled", "new_vault_fees", "new_fee_collector_addr", "vault_factory_addr", "pool_router",
    "fee_distributor", "pool_factory", "vault_factory", "take_rate", "take_rate_dao_address", "is_take_rate_active",
    "bonding_contract_addr", "grace_period", "distribution_asset", "epoch_config", "unbonding_period", "growth_rate",
    "cosmwasm_pool_interface", "code_id",
];

/// Leaves out optional fields of a JSON message according to the bits of `bits` (bit 0: the owner
/// field names `caller` instead; the following bits: one per optional key met, in document order,
/// 1 = set to null).
fn reshape_payload(payload: &Binary, bits: u64, caller: &str) -> Binary {
    fn walk(v: &mut serde_json::Value, bits: &mut u64, owner_to: Option<&str>, depth: u32) {
        if depth > 4 {
            return;
        }
        if let serde_json::Value::Object(m) = v {
            for (k, val) in m.iter_mut() {
                if OPTIONAL_KEYS.contains(&k.as_str()) {
                    if (k == "owner" || k == "new_owner") && owner_to.is_some() {
                        *val = serde_json::Value::String(owner_to.unwrap().to_string());
                        continue;
                    }
                    let drop = *bits & 1 == 1;
                    *bits >>= 1;
                    if drop {
                        *val = serde_json::Value::Null;
                        continue;
                    }
                }
                walk(val, bits, owner_to, depth + 1);
            }
        }
    }
    let Ok(mut v) = serde_json::from_slice::<serde_json::Value>(payload.as_slice()) else { return payload.clone() };
    let mut b = bits >> 1;
    walk(&mut v, &mut b, if bits & 1 == 1 { Some(caller) } else { None }, 0);
    Binary::from(serde_json::to_vec(&v).unwrap_or_else(|_| payload.to_vec()))
}

#[derive(Clone, Debug, Serialize, Deserialize)]
pub struct Case {
    pub entry: u16,
    /// 0 configured owner, 1 hub owner account, 2 new owner, 3 user, 4 sibling contract,
    /// 5 the contract itself, 6 the pool factory, 7 the vault factory, 8 distributor, 9 the vault
    pub role: u8,
    /// with `after_transfer`: ownership goes to the target contract's own address instead of the
    /// prospective new owner's account (an owner renouncing control to the contract itself)
    #[serde(default)]
    pub transfer_to_self: bool,
    pub after_transfer: bool,
    pub payload: u64,
}

pub struct PrivilegeMatrix;

fn privileged_entries() -> Vec<usize> {
    table()
        .iter()
        .enumerate()
        .filter(|(_, e)| !matches!(e.kind, Kind::Permissionless))
        .map(|(i, _)| i)
        .collect()
}

impl Check for PrivilegeMatrix {
    type Case = Case;
    fn name(&self) -> &'static str {
        "privilege_matrix"
    }
    fn rule(&self) -> &'static str {
        "hand-written table of every ExecuteMsg variant of 14 contracts (pool factory, pair, trio, router, frontend helper, incentive factory, incentive, vault factory, vault, vault router, fee collector, fee distributor, whale lair, epoch manager), verified at start-up against the variant names derived from the message schemas; every privileged / internal variant x seventeen caller roles (configured owner, hub owner account, prospective new owner, user, sibling contract, the contract itself, pool factory, vault factory, fee distributor, a registered vault, the fee collector's configured take-rate recipient, the creator of an incentive flow, the bonding contract, the pool router, the vault router, the incentive factory, an incentive contract) x {before, after an ownership transfer to a new owner's account, after a transfer to the contract's own address} is enumerated exhaustively as the regression corpus with the canonical payload and with payloads that name the caller itself / an unregistered asset where a message carries the identity it is checked against (vault-router NextLoan source_vault + asset, CompleteLoan initiator), and random payload details are drawn on top; unauthorised attempts also come with reshaped payloads (any subset of the message's optional fields left out, down to the empty update, and the owner field naming the caller). Oracle: a caller outside the authorised set => rejected and full world snapshot unchanged; the authorised caller with the canonical payload => accepted (except migrations, whose payload is refused for version reasons); after a transfer the previous owner is rejected and the new owner accepted; AssertMinimumReceive is effect-free for every caller. Non-trivial: an unauthorised role was exercised; distinct by (variant, role, transfer, payload)."
    }
    fn strategy(&self, _tier: Tier) -> BoxedStrategy<Case> {
        let n = privileged_entries().len() as u16;
        (0..n, 0u8..17, any::<bool>(), any::<u64>(), proptest::bool::weighted(0.3))
            .prop_map(|(i, role, after_transfer, payload, transfer_to_self)| Case {
                entry: privileged_entries()[i as usize] as u16,
                role,
                after_transfer,
                payload,
                transfer_to_self: after_transfer && transfer_to_self,
            })
            .boxed()
    }
    fn cases(&self, tier: Tier) -> u32 {
        tier.pick(6_000, 400_000)
    }
    fn corpus(&self) -> Vec<Case> {
        let mut out = vec![];
        for i in privileged_entries() {
            for role in 0..17u8 {
                for after_transfer in [false, true] {
                    // canonical payload, and the payload that names the caller itself together
                    // with an unregistered asset wherever the message carries such fields
                    for payload in [0u64, (1 << 8) | (1 << 10), 1 << 8, 1 << 10, 2 << 8, (1 << 16) | (0x7FFF_FFFF << 18), (1 << 16) | (1 << 17), (1 << 16) | (1 << 17) | (0x7FFF_FFFF << 18)] {
                        out.push(Case {
                            entry: i as u16,
                            role,
                            after_transfer,
                            payload,
                            transfer_to_self: false,
                        });
                    }
                }
                // ownership handed to the contract's own address: the canonical and the fully reshaped payload
                for payload in [0u64, (1 << 16) | (1 << 17)] {
                    out.push(Case { entry: i as u16, role, after_transfer: true, payload, transfer_to_self: true });
                }
            }
        }
        out
    }
    fn test(&self, c: &Case, rec: &Rec) -> TResult {
        let t = table();
        let e = &t[c.entry as usize % t.len()];
        let mut ev = Everything::build().map_err(|e| Fail::new(format!("world build failed: {e}")))?;
        let target = ev.addr(e.target);
        let hub_owner = ev.w.owner.clone();
        // ownership transfer first, if asked for and possible
        let mut owner_now = ev.configured_owner(e.target);
        // the incentive's CloseFlow is authorised by the *factory's* owner
        let mut transferred = false;
        if c.after_transfer {
            let to = if c.transfer_to_self { target.clone() } else { ev.new_owner.clone() };
            if let Some((contract, msg)) = ev.transfer_msg(e.target, &to) {
                let r = ev.w.app.execute(hub_owner.clone(), CosmosMsg::Wasm(WasmMsg::Execute { contract_addr: contract.to_string(), msg, funds: vec![] }));
                if r.is_err() {
                    return Err(Fail::new(format!("ownership transfer of {:?} by the owner failed: {:?}", e.target, r.err())));
                }
                owner_now = to;
                transferred = true;
                if c.transfer_to_self {
                    rec.class("ownership_handed_to_the_contract_itself");
                }
            }
        }
        let caller = match c.role {
            0 => owner_now.clone(),
            1 => hub_owner.clone(),
            2 => ev.new_owner.clone(),
            3 => ev.w.users[0].clone(),
            4 => ev.addr(if e.target == Target::Collector { Target::Lair } else { Target::Collector }),
            5 => target.clone(),
            6 => ev.addr(Target::PoolFactory),
            7 => ev.addr(Target::VaultFactory),
            8 => ev.addr(Target::Distributor),
            9 => ev.vault.clone(),
            // addresses the configuration names in a role other than the owner's
            10 => Addr::unchecked("dao"),
            11 => ev.flow_creator.clone(),
            // contracts that other contracts' configurations name (bonding contract, routers, the
            // incentive factory, an incentive contract)
            12 => ev.addr(Target::Lair),
            13 => ev.addr(Target::Router),
            14 => ev.addr(Target::VaultRouter),
            15 => ev.addr(Target::IncFactory),
            _ => ev.addr(Target::Incentive),
        };
        // epoch manager remove_hook needs a hook to remove: add one as the current admin
        let payload = if e.target == Target::EpochManager && e.variant == "remove_hook" {
            let m = ev.manager.clone();
            let _ = ev.w.exec(&owner_now, &m, &em::ExecuteMsg::AddHook { contract_addr: "carol".to_string() }, &[]);
            to_json_binary(&em::ExecuteMsg::RemoveHook { contract_addr: "carol".to_string() }).unwrap()
        } else {
            match ev.payload(e.target, e.variant, c.payload, &caller) {
                Some(p) => p,
                None => return Err(Fail::new(format!("no payload for {:?}::{}", e.target, e.variant))),
            }
        };
        let authorised_probe = match e.kind {
            Kind::Owner { .. } => caller == owner_now,
            Kind::SelfOnly => caller == target,
            Kind::DistributorOnly => caller == ev.addr(Target::Distributor),
            Kind::RegisteredVault => caller == ev.vault,
            Kind::CreatorOrFactoryOwner => caller == ev.flow_creator || caller == owner_now,
            Kind::EffectFree | Kind::Permissionless => true,
        };
        // Unauthorised attempts also come with a reshaped payload: any subset of the message's
        // optional fields left out (down to the empty update), and the owner field naming the caller —
        // a sender check sitting inside one `if let Some(..)` arm, or after the owner assignment, is
        // invisible to a payload that always carries the same fields.
        let payload = if !authorised_probe && (c.payload >> 16) & 1 == 1 {
            reshape_payload(&payload, c.payload >> 17, caller.as_str())
        } else {
            payload
        };
        let authorised = match e.kind {
            Kind::Owner { .. } => caller == owner_now,
            Kind::SelfOnly => caller == target,
            Kind::DistributorOnly => caller == ev.addr(Target::Distributor),
            Kind::RegisteredVault => caller == ev.vault,
            Kind::CreatorOrFactoryOwner => caller == ev.flow_creator || caller == owner_now,
            Kind::EffectFree | Kind::Permissionless => true,
        };
        // the router's route management is authorised by the wasm admin (= hub owner), not transferable here
        let snap = ev.w.snapshot();
        let r = ev.w.app.execute(
            caller.clone(),
            CosmosMsg::Wasm(WasmMsg::Execute {
                contract_addr: target.to_string(),
                msg: payload,
                funds: vec![],
            }),
        );
        rec.class(&format!("{:?}", e.target));
        match e.kind {
            Kind::EffectFree => {
                let s2 = ev.w.snapshot();
                ensure!(
                    s2 == snap,
                    "{:?}::{} called by {caller} changed the world: {}",
                    e.target,
                    e.variant,
                    snap.diff(&s2)
                );
                rec.nontrivial(hash_of(c));
            }
            _ if !authorised => {
                rec.nontrivial(hash_of(c));
                rec.sample(c);
                rec.class("unauthorised_attempt");
                if transferred && caller == ev.configured_owner(e.target) {
                    rec.class("previous_owner_attempt");
                }
                ensure!(
                    r.is_err(),
                    "{:?}::{} was accepted from {caller} (role {}), authorised: {} (after ownership transfer: {})",
                    e.target,
                    e.variant,
                    c.role,
                    match e.kind {
                        Kind::Owner { .. } => format!("owner {owner_now}"),
                        Kind::SelfOnly => "the contract itself".to_string(),
                        Kind::DistributorOnly => "the fee distributor".to_string(),
                        Kind::RegisteredVault => "a registered vault".to_string(),
                        _ => "creator or factory owner".to_string(),
                    },
                    transferred
                );
                let s2 = ev.w.snapshot();
                ensure!(
                    s2 == snap,
                    "{:?}::{} rejected for {caller} but the world changed: {}",
                    e.target,
                    e.variant,
                    snap.diff(&s2)
                );
            }
            Kind::Owner { ok: true } | Kind::CreatorOrFactoryOwner | Kind::DistributorOnly => {
                rec.class("authorised_attempt");
                if transferred && caller == ev.new_owner {
                    rec.class("new_owner_attempt");
                }
                ensure!(
                    r.is_ok(),
                    "{:?}::{} was rejected for the authorised caller {caller} (after ownership transfer: {transferred}): {:?}",
                    e.target,
                    e.variant,
                    r.err()
                );
            }
            _ => {
                // authorised but success is not asserted for this variant (migrations, internal
                // callbacks whose canonical payload may fail for unrelated reasons)
                rec.class("authorised_attempt_not_judged");
            }
        }
        Ok(())
    }
}

// ---------------------------------------------------------------------------------------------
// internal callback forged while a loan is in progress
// ---------------------------------------------------------------------------------------------

#[derive(Clone, Debug, Serialize, Deserialize)]
pub struct ForgeCase {
    pub cw20: bool,
    pub deposit: Uint128,
    /// loan = k/65536 of the vault balance
    pub loan_k: u16,
    pub old_balance: Uint128,
    pub loan_amount: Uint128,
    /// what the borrower does after the forged callback, before repaying exactly
    pub then: u8,
    pub then_amount: Uint128,
    /// forge from inside a nested loan as well
    pub nested: bool,
}

pub struct ForgedCallbackDuringLoan;

impl Check for ForgedCallbackDuringLoan {
    type Case = ForgeCase;
    fn name(&self) -> &'static str {
        "forged_callback_during_loan"
    }
    fn rule(&self) -> &'static str {
        "vault (native or cw20 asset) with liquidity; a flash loan whose borrower contract, from inside its callback (optionally inside a nested loan), sends the vault its internal Callback(AfterTrade{old_balance, loan_amount}) message with generated arguments (0, the real values, random), then optionally deposits / withdraws / collects, then repays exactly. The borrower's reply handler reports the vault's verdict: the forged callback must be rejected whenever the sender is not the vault itself, also while a loan is in progress; afterwards the loan counter is 0 and no share was minted inside the loan. Non-trivial: the loan transaction succeeded (so the verdict was observed in a committed transaction)."
    }
    fn strategy(&self, _tier: Tier) -> BoxedStrategy<ForgeCase> {
        let arg = || prop_oneof![2 => Just(0u128), 2 => crate::engine::gen::log_uniform(1, 1u128 << 60)];
        (any::<bool>(), crate::engine::gen::log_uniform(10_000, 1u128 << 50), 1u16..60000, arg(), arg(), 0u8..4, crate::engine::gen::log_uniform(1, 1u128 << 40), any::<bool>())
            .prop_map(|(cw20, deposit, loan_k, o, l, then, ta, nested)| ForgeCase {
                cw20,
                deposit: Uint128::new(deposit),
                loan_k,
                old_balance: Uint128::new(o),
                loan_amount: Uint128::new(l),
                then,
                then_amount: Uint128::new(ta),
                nested,
            })
            .boxed()
    }
    fn cases(&self, tier: Tier) -> u32 {
        tier.pick(3_000, 200_000)
    }
    fn min_nontrivial(&self) -> f64 {
        0.2
    }
    fn test(&self, c: &ForgeCase, rec: &Rec) -> TResult {
        use crate::mocks::{Repay, Step};
        use crate::vaults::{VaultCfg, VaultWorld};
        let cfg = VaultCfg { cw20: c.cw20, fees: [Uint128::new(1_000_000_000_000_000), Uint128::new(2_000_000_000_000_000), Uint128::zero()] };
        let mut vw = VaultWorld::build(&cfg).map_err(|e| Fail::new(format!("world build failed: {e}")))?;
        let u0 = vw.user(0);
        vw.deposit(&u0, c.deposit.u128()).map_err(|e| Fail::unobservable(format!("set-up: funding deposit failed: {e}")))?;
        let bal = vw.w.bal(&vw.info, &vw.vault);
        let amount = crate::engine::gen::frac(c.loan_k, bal).max(1);
        let forge = Step::ForgeCallback { old_balance: c.old_balance, loan_amount: c.loan_amount };
        let mut inner = vec![forge.clone()];
        match c.then {
            1 => inner.push(Step::Deposit { amount: c.then_amount, swallow: true }),
            2 => inner.push(Step::Withdraw { shares: c.then_amount }),
            3 => inner.push(Step::Collect),
            _ => {}
        }
        inner.push(Step::Repay(Repay::Exact));
        let program = if c.nested {
            vec![Step::NestedLoan { amount: Uint128::new((amount / 2).max(1)), program: inner }, forge, Step::Repay(Repay::Exact)]
        } else {
            inner
        };
        let supply_before = vw.w.cw20_supply(&vw.lp);
        let r = vw.start_loan(&u0, amount, &program);
        match r {
            Ok(resp) => {
                rec.nontrivial(hash_of(c));
                rec.sample(c);
                let mut seen = 0;
                for ev in &resp.events {
                    for a in &ev.attributes {
                        if a.key == "forged_callback" {
                            seen += 1;
                            ensure!(
                                a.value == "rejected",
                                "the vault accepted Callback(AfterTrade {{ old_balance: {}, loan_amount: {} }}) sent by the borrower contract while a loan of {amount} was in progress (nested: {})",
                                c.old_balance,
                                c.loan_amount,
                                c.nested
                            );
                        }
                    }
                }
                ensure!(seen >= 1, "the borrower's reply handler did not report a verdict on the forged callback");
                rec.class("forged_callback_rejected");
                let counter = vw.loan_counter();
                ensure!(counter == Some(0) || counter.is_none(), "loan counter is {counter:?} after the loan transaction");
                let supply_after = vw.w.cw20_supply(&vw.lp);
                let borrower_lp = vw.w.cw20_balance(&vw.lp, &vw.borrower);
                ensure!(
                    supply_after <= supply_before || borrower_lp == 0,
                    "vault shares were minted to the borrower inside the loan: supply {supply_before} -> {supply_after}, borrower holds {borrower_lp}"
                );
            }
            Err(_) => rec.class("loan_reverted"),
        }
        Ok(())
    }
}

pub fn property() -> Property {
    let mism = table_mismatches();
    if !mism.is_empty() {
        println!("INCONCLUSIVE property=C16 the ExecuteMsg variant table is out of date: {}", mism.join(" | "));
        std::process::exit(2);
    }
    Property {
        id: "C16",
        checks: vec![Box::new(PrivilegeMatrix), Box::new(ForgedCallbackDuringLoan)],
        assumptions: vec![
            "14 of the 16 crates are covered: the cw20 token (cw20-base semantics) and the test-only fee-distributor mock are not part of the privilege table",
            "the swap router's route management is authorised by the wasm admin; the world instantiates the router with an admin (with no admin the code deliberately lets anyone in)",
            "AssertMinimumReceive has no sender check by construction and no effects: effect-freeness is asserted instead of rejection",
            "for migrations only the rejection of unauthorised callers is asserted (the authorised payload is refused by the child's version check)",
        ],
    }
}

#[allow(dead_code)]
fn _unused(_: Decimal) {}
