//! C03 — two-asset stableswap: the invariant leaks nothing (pure through the hook + live pool).

use cosmwasm_std::Uint128;
use proptest::prelude::*;
use serde::{Deserialize, Serialize};

use terraswap_pair::verif_hooks::{compute_lp_mint_amount_for_stableswap_deposit, compute_swap};
use white_whale_std::pool_network::asset::PairType;

use crate::engine::{gen, hash_of, Check, Fail, Property, Rec, TResult, Tier};
use crate::pools::{fees_u, PairCfg, PairWorld, PoolView};
use crate::props::c01::{resolve, Amt};
use crate::refmath::{ceil_div, exact_d2, exact_y2, pow10, to_f64, to_u128, u, U};
use crate::world::{dec, pool_fee};
use crate::{ensure, ensure_sig};

/// "a few base units", scaled by the local slope; calibrated on the unchanged tree (see DESIGN §4).
pub const K_DUST: u128 = 6;

pub const DECIMALS: [(u8, u8); 6] = [(6, 6), (6, 8), (8, 6), (6, 18), (18, 6), (4, 5)];

pub fn norm(amount: u128, decimals: u8) -> U {
    u(amount) * pow10(18 - decimals as u32)
}

fn amp_strategy() -> BoxedStrategy<u64> {
    prop_oneof![
        4 => gen::log_uniform(1, 1_000_000).prop_map(|a| a as u64),
        2 => prop_oneof![Just(1u64), Just(2), Just(100), Just(1_000_000), Just(85), Just(1000)],
    ]
    .boxed()
}

/// reserves: whole tokens in [1, 2^(100)/10^dec), imbalance ≤ 2^40 in normalised terms
fn reserves(dx: u8, dy: u8) -> BoxedStrategy<(u128, u128)> {
    let max_bits = 100u32;
    (gen::log_uniform(1, 1u128 << 60), 0u32..=40, any::<bool>(), any::<u64>(), any::<u64>())
        .prop_map(move |(base_whole, imb, flip, r1, r2)| {
            let ex = 10u128.pow(dx as u32);
            let ey = 10u128.pow(dy as u32);
            let cap_x = ((1u128 << max_bits) - 1) / ex;
            let cap_y = ((1u128 << max_bits) - 1) / ey;
            let a = base_whole.max(1);
            let b = a.saturating_mul(1u128 << imb);
            let (wx, wy) = if flip { (b, a) } else { (a, b) };
            let wx = wx.clamp(1, cap_x.max(1));
            let wy = wy.clamp(1, cap_y.max(1));
            // add sub-token noise
            let x = (wx * ex + (r1 as u128 % ex)).min((1u128 << max_bits) - 1);
            let y = (wy * ey + (r2 as u128 % ey)).min((1u128 << max_bits) - 1);
            (x.max(ex), y.max(ey))
        })
        .boxed()
}

#[derive(Clone, Debug, Serialize, Deserialize)]
pub struct SwapCase {
    pub amp: u64,
    pub decimals: (u8, u8),
    pub offer_pool: Uint128,
    pub ask_pool: Uint128,
    pub offer: Uint128,
    pub delta: Uint128,
    pub fees: [Uint128; 3],
}

#[derive(Debug)]
pub struct SwapOut {
    pub ret: u128,
    pub gross: u128,
    pub spread: u128,
    pub fees: [u128; 3], // protocol, swap, burn
}

pub fn call_swap(
    amp: u64,
    op: u128,
    ap: u128,
    offer: u128,
    fees: [u128; 3],
    decimals: (u8, u8),
) -> Result<SwapOut, String> {
    let r = std::panic::catch_unwind(|| {
        compute_swap(
            Uint128::new(op),
            Uint128::new(ap),
            Uint128::new(offer),
            pool_fee(fees),
            &PairType::StableSwap { amp },
            decimals.0,
            decimals.1,
        )
    });
    match r {
        Ok(Ok(s)) => {
            let g = u(s.return_amount.u128())
                + u(s.swap_fee_amount.u128())
                + u(s.protocol_fee_amount.u128())
                + u(s.burn_fee_amount.u128());
            Ok(SwapOut {
                ret: s.return_amount.u128(),
                gross: to_u128(g).ok_or("gross overflow")?,
                spread: s.spread_amount.u128(),
                fees: [
                    s.protocol_fee_amount.u128(),
                    s.swap_fee_amount.u128(),
                    s.burn_fee_amount.u128(),
                ],
            })
        }
        Ok(Err(e)) => Err(e.to_string()),
        Err(p) => Err(format!("panic: {}", crate::engine::panic_msg(&p))),
    }
}

/// The curve bound: given reserves and an offer, the smallest ask reserve (in ask base units,
/// rounded up) the invariant allows, and the slope-scaled tolerance in ask base units.
pub fn curve_floor(amp: u64, op: u128, ap: u128, offer: u128, decimals: (u8, u8)) -> (U, U, f64) {
    let xn = norm(op, decimals.0);
    let yn = norm(ap, decimals.1);
    let on = norm(offer, decimals.0);
    let d = exact_d2(xn, yn, amp);
    let ystar_n = exact_y2(xn + on, d, amp);
    let unit = pow10(18 - decimals.1 as u32);
    let ystar = ceil_div(ystar_n, unit);
    let slope = if d.is_zero() {
        U::ONE
    } else {
        ceil_div(u(3) * ystar_n, d).max(U::ONE)
    };
    let tol = u(K_DUST) * slope;
    (ystar, tol, to_f64(slope))
}

pub fn judge_swap(
    amp: u64,
    op: u128,
    ap: u128,
    offer: u128,
    decimals: (u8, u8),
    gross: u128,
    rec: &Rec,
    what: &str,
) -> TResult {
    ensure!(gross <= ap, "{what}: gross proceeds {gross} exceed the ask reserve {ap}");
    let (ystar, tol, slope) = curve_floor(amp, op, ap, offer, decimals);
    let y_after = u(ap - gross);
    if y_after < ystar {
        let short = ystar - y_after;
        rec.maximum("swap_short_over_slope", to_f64(short) / slope);
        rec.class("swap_shorts_pool_within_dust");
        ensure!(
            short <= tol,
            "{what}: ask reserve after swap {y_after} is {short} base units below the curve point {ystar} (tolerance {tol}; amp={amp} offer_pool={op} ask_pool={ap} offer={offer} decimals={decimals:?})"
        );
    }
    Ok(())
}

pub struct SsSwapPure;

impl Check for SsSwapPure {
    type Case = SwapCase;
    fn name(&self) -> &'static str {
        "stableswap_swap_curve_bound"
    }
    fn rule(&self) -> &'static str {
        "amp log-uniform in [1,10^6] + constants, decimals from the six listed settings, reserves >= one whole token and < 2^100 base units with normalised imbalance up to 2^40, offers log-uniform in [1,2^100), valid fee triples, delta for the monotonicity pair; compute_swap (StableSwap arm) through the hook; oracle: exact D* (bisection on the invariant polynomial over 18-decimal-normalised reserves, U1024) and curve point y*; ask reserve after >= y* - 6*max(1,ceil(3y*/D*)) base units, gross <= ask reserve, gross monotone in the offer. Only successful results are judged. Non-trivial: gross >= 1; distinct by case hash."
    }
    fn strategy(&self, _tier: Tier) -> BoxedStrategy<SwapCase> {
        (0usize..DECIMALS.len(), amp_strategy())
            .prop_flat_map(|(di, amp)| {
                let d = DECIMALS[di];
                (
                    Just(d),
                    Just(amp),
                    reserves(d.0, d.1),
                    prop_oneof![
                        3 => gen::amount(1, (1u128 << 100) - 1),
                        3 => any::<u16>().prop_map(|k| k as u128 | (1u128 << 127)), // marker: relative
                    ],
                    gen::amount(0, 1u128 << 90),
                    gen::valid_fee_triple(),
                )
            })
            .prop_map(|(d, amp, (x, y), offer, delta, fees)| {
                let offer = if offer >> 127 == 1 {
                    // relative to the offer reserve: k/8192 of it (up to 8x the reserve)
                    let k = offer & 0xFFFF;
                    ((u(x) * u(k)) / u(8192)).min(u((1u128 << 100) - 1))
                } else {
                    u(offer)
                };
                let offer = to_u128(offer).unwrap().max(1);
                SwapCase {
                    amp,
                    decimals: d,
                    offer_pool: Uint128::new(x),
                    ask_pool: Uint128::new(y),
                    offer: Uint128::new(offer),
                    delta: Uint128::new(delta),
                    fees: [
                        Uint128::new(fees[0]),
                        Uint128::new(fees[1]),
                        Uint128::new(fees[2]),
                    ],
                }
            })
            .boxed()
    }
    fn cases(&self, tier: Tier) -> u32 {
        tier.pick(200_000, 10_000_000)
    }
    fn min_nontrivial(&self) -> f64 {
        0.05
    }
    fn test(&self, c: &SwapCase, rec: &Rec) -> TResult {
        let fees = fees_u(&c.fees);
        let (op, ap, offer) = (c.offer_pool.u128(), c.ask_pool.u128(), c.offer.u128());
        let out = match call_swap(c.amp, op, ap, offer, fees, c.decimals) {
            Ok(o) => o,
            Err(_) => {
                rec.class("not_computed");
                return Ok(());
            }
        };
        rec.class(&format!("decimals_{}_{}", c.decimals.0, c.decimals.1));
        if out.gross >= 1 {
            rec.nontrivial(hash_of(c));
            rec.sample(c);
        }
        judge_swap(c.amp, op, ap, offer, c.decimals, out.gross, rec, "swap")?;
        // fee floors on the gross amount
        let g = u(out.gross);
        for (i, name) in ["protocol", "swap", "burn"].iter().enumerate() {
            ensure!(
                u(out.fees[i]) == crate::refmath::fee_floor(g, fees[i]),
                "{name} fee {} is not floor(share*gross) for gross {}",
                out.fees[i],
                out.gross
            );
        }
        // monotone in the offer
        if let Some(o2) = offer.checked_add(c.delta.u128()) {
            if o2 < (1u128 << 100) {
                if let Ok(out2) = call_swap(c.amp, op, ap, o2, fees, c.decimals) {
                    rec.class("monotone_pair_checked");
                    ensure!(
                        out2.gross >= out.gross,
                        "proceeds decreased when the offer grew: offer {offer} -> gross {}, offer {o2} -> gross {} (amp={} pools {op}/{ap} decimals {:?})",
                        out.gross,
                        out2.gross,
                        c.amp,
                        c.decimals
                    );
                    if fees.iter().filter(|f| **f > 0).count() <= 1 {
                        ensure!(
                            out2.ret >= out.ret,
                            "net proceeds decreased when the offer grew: {} -> {}",
                            out.ret,
                            out2.ret
                        );
                    }
                }
            }
        }
        Ok(())
    }
}

// ---------------------------------------------------------------------------------------------
// LP mint (pure)
// ---------------------------------------------------------------------------------------------

#[derive(Clone, Debug, Serialize, Deserialize)]
pub struct MintCase {
    pub amp: u64,
    pub decimals: (u8, u8),
    pub pool: (Uint128, Uint128),
    pub deposit: (Uint128, Uint128),
    pub supply: Uint128,
}

/// D* of a pool whose reserves are shifted by `k` base units of each asset (down when `up` is
/// false, never below one base unit). This is how "a few base units of rounding dust" is given a
/// meaning that scales with the curve's local slope: the tolerance lives on the reserves, not on D.
fn d_shifted(pool: (u128, u128), decimals: (u8, u8), amp: u64, k: u128, up: bool, normalise: bool) -> U {
    let sh = |v: u128| if up { v.saturating_add(k) } else { v.saturating_sub(k).max(1) };
    if normalise {
        exact_d2(norm(sh(pool.0), decimals.0), norm(sh(pool.1), decimals.1), amp)
    } else {
        exact_d2(u(sh(pool.0)), u(sh(pool.1)), amp)
    }
}

/// (D1+1)·S ≥ D0·(S+m); the +1 is the reference's own integer floor.
fn per_lp_not_lower(d0: U, d1: U, s0: u128, s1: u128) -> bool {
    (d1 + U::ONE) * u(s0) >= d0 * u(s1)
}

pub fn judge_mint(
    amp: u64,
    decimals: (u8, u8),
    pool: (u128, u128),
    deposit: (u128, u128),
    supply: u128,
    minted: u128,
    rec: &Rec,
    what: &str,
) -> TResult {
    let after = (pool.0 + deposit.0, pool.1 + deposit.1);
    let d0x = d_shifted(pool, decimals, amp, 0, false, true);
    let d1x = d_shifted(after, decimals, amp, 0, true, true);
    if per_lp_not_lower(d0x, d1x, supply, supply + minted) {
        return Ok(());
    }
    // not exactly proportional: is it within K_DUST base units of each reserve?
    let d0 = d_shifted(pool, decimals, amp, K_DUST, false, true);
    let d1 = d_shifted(after, decimals, amp, K_DUST, true, true);
    if per_lp_not_lower(d0, d1, supply, supply + minted) {
        rec.class("mint_above_exact_within_dust");
        return Ok(());
    }
    if decimals.0 != decimals.1 {
        // known defect class: the pair solves D over RAW, un-normalised amounts. The failure is
        // attributed to it only when the mint is consistent with that model (same dust).
        let r0 = d_shifted(pool, decimals, amp, K_DUST, false, false);
        let r1 = d_shifted(after, decimals, amp, K_DUST, true, false);
        if per_lp_not_lower(r0, r1, supply, supply + minted) {
            return rec.known_or_fail(
            "ss-lp-mint-raw-decimals",
            format!("{what}: deposit {deposit:?} into pool {pool:?} (decimals {decimals:?}, amp {amp}) minted {minted} on supply {supply}: invariant per LP on decimal-normalised reserves falls (D* {d0x} -> {d1x}); consistent with D solved over raw amounts"
        ));
        }
    }
    Err(Fail::new(format!(
        "{what}: deposit {deposit:?} into pool {pool:?} (decimals {decimals:?}, amp {amp}) minted {minted} on supply {supply}: more than the proportional increase of the invariant (D* {d0x} -> {d1x}), beyond {K_DUST} base units of dust on each reserve"
    )))
}

pub struct SsMintPure;

impl Check for SsMintPure {
    type Case = MintCase;
    fn name(&self) -> &'static str {
        "stableswap_lp_mint_bound"
    }
    fn rule(&self) -> &'static str {
        "amp, decimals, pool reserves as for swaps; deposits log-uniform in [1,2^100) or proportional/one-sided relative to the pool; LP supply around the pool's D or arbitrary; compute_lp_mint_amount_for_stableswap_deposit through the hook; oracle: exact D* on decimal-normalised reserves before/after, (D*1+1)*S >= D*0*(S+m). Non-trivial: a mint > 0 was returned; class 'unequal_decimals_unbalanced' counts deposits whose ratio differs from the pool ratio by > 1% at unequal decimals."
    }
    fn strategy(&self, _tier: Tier) -> BoxedStrategy<MintCase> {
        (0usize..DECIMALS.len(), amp_strategy())
            .prop_flat_map(|(di, amp)| {
                let d = DECIMALS[di];
                (
                    Just(d),
                    Just(amp),
                    reserves(d.0, d.1),
                    prop_oneof![
                        2 => (gen::amount(1, (1u128 << 99) - 1), gen::amount(1, (1u128 << 99) - 1)).prop_map(|(a, b)| (0u8, a, b)),
                        2 => (any::<u16>(), any::<u16>()).prop_map(|(a, b)| (1u8, a as u128, b as u128)), // proportional k/4096 each
                        2 => (any::<u16>(), 0u128..3).prop_map(|(a, b)| (2u8, a as u128, b)), // one-sided
                    ],
                    prop_oneof![Just(0u8), Just(1u8), Just(2u8)],
                    gen::amount(1000, 1u128 << 100),
                )
            })
            .prop_map(|(d, amp, (x, y), (mode, a, b), smode, sabs)| {
                let cap = (1u128 << 100) - 1;
                let (dx, dy) = match mode {
                    0 => (a, b),
                    1 => (
                        to_u128((u(x) * u(a) / u(4096)).min(u(cap))).unwrap().max(1),
                        to_u128((u(y) * u(b) / u(4096)).min(u(cap))).unwrap().max(1),
                    ),
                    _ => {
                        let big = to_u128((u(y) * u(a) / u(4096)).min(u(cap))).unwrap().max(1);
                        (b.max(1), big)
                    }
                };
                let dx = dx.min(cap - x.min(cap - 1)).max(1);
                let dy = dy.min(cap - y.min(cap - 1)).max(1);
                // supply: the D of the raw pool (what the pair itself would have minted), a
                // multiple of it, or arbitrary
                let draw = to_u128(exact_d2(u(x), u(y), amp).min(u(u128::MAX >> 2))).unwrap().max(1000);
                let supply = match smode {
                    0 => draw,
                    1 => draw / 3 + 1000,
                    _ => sabs,
                };
                MintCase {
                    amp,
                    decimals: d,
                    pool: (Uint128::new(x), Uint128::new(y)),
                    deposit: (Uint128::new(dx), Uint128::new(dy)),
                    supply: Uint128::new(supply),
                }
            })
            .boxed()
    }
    fn cases(&self, tier: Tier) -> u32 {
        tier.pick(150_000, 8_000_000)
    }
    fn min_nontrivial(&self) -> f64 {
        0.05
    }
    fn test(&self, c: &MintCase, rec: &Rec) -> TResult {
        let (px, py) = (c.pool.0.u128(), c.pool.1.u128());
        let (dx, dy) = (c.deposit.0.u128(), c.deposit.1.u128());
        let amp = c.amp;
        let r = std::panic::catch_unwind(|| {
            compute_lp_mint_amount_for_stableswap_deposit(
                &amp,
                Uint128::new(dx),
                Uint128::new(dy),
                Uint128::new(px),
                Uint128::new(py),
                c.supply,
            )
        });
        let minted = match r {
            Ok(Some(m)) => m.u128(),
            Ok(None) => {
                rec.class("none");
                return Ok(());
            }
            Err(_) => {
                rec.class("aborted");
                return Ok(());
            }
        };
        if minted > 0 {
            rec.nontrivial(hash_of(c));
            rec.sample(c);
        }
        if c.decimals.0 != c.decimals.1 {
            // deposit ratio vs pool ratio (normalised), > 1 % apart?
            let lhs = norm(dx, c.decimals.0) * norm(py, c.decimals.1);
            let rhs = norm(dy, c.decimals.1) * norm(px, c.decimals.0);
            let (big, small) = if lhs > rhs { (lhs, rhs) } else { (rhs, lhs) };
            if big * u(100) > small * u(101) {
                rec.class("unequal_decimals_unbalanced");
            } else {
                rec.class("unequal_decimals_balanced");
            }
        } else {
            rec.class("equal_decimals");
        }
        judge_mint(amp, c.decimals, (px, py), (dx, dy), c.supply.u128(), minted, rec, "mint")
    }
}

// ---------------------------------------------------------------------------------------------
// live pool histories
// ---------------------------------------------------------------------------------------------

#[derive(Clone, Debug, Serialize, Deserialize)]
pub enum Op {
    Provide {
        user: u8,
        a0: Amt,
        a1: Amt,
        /// assets listed in the message in the opposite order to the pool's own
        #[serde(default)]
        reversed: bool,
    },
    ProvideBalanced { user: u8, k: u16 },
    ProvideOneSided { user: u8, which: bool, k: u16 },
    Withdraw { user: u8, k: u16 },
    Swap { user: u8, dir: bool, amt: Amt },
    ProvideThenWithdraw { user: u8, a0: Amt, a1: Amt },
    Collect,
    /// adversarial: direct `WithdrawLiquidity {}` with a native coin attached (cw20-LP pool)
    WithdrawDirect { user: u8, denom: u8, amount: Uint128 },
    /// adversarial: a cw20 Receive hook from the wrong place
    ForgedHook { user: u8, via: u8, swap_hook: bool, amount: Uint128 },
}

#[derive(Clone, Debug, Serialize, Deserialize)]
pub struct Case {
    pub cfg: PairCfg,
    pub init: (Uint128, Uint128),
    pub ops: Vec<Op>,
}

fn amt100() -> BoxedStrategy<Amt> {
    prop_oneof![
        4 => gen::amount(1, 1u128 << 96).prop_map(|a| Amt::Abs(Uint128::new(a))),
        5 => (0u16..40000).prop_map(Amt::OfReserve),
    ]
    .boxed()
}

fn op() -> BoxedStrategy<Op> {
    prop_oneof![
        2 => (0u8..4, amt100(), amt100(), any::<bool>()).prop_map(|(user, a0, a1, reversed)| Op::Provide { user, a0, a1, reversed }),
        2 => (0u8..4, 1u16..30000).prop_map(|(user, k)| Op::ProvideBalanced { user, k }),
        2 => (0u8..4, any::<bool>(), 1u16..60000).prop_map(|(user, which, k)| Op::ProvideOneSided { user, which, k }),
        3 => (0u8..4, gen::share_sel()).prop_map(|(user, k)| Op::Withdraw { user, k }),
        6 => (0u8..4, any::<bool>(), amt100()).prop_map(|(user, dir, amt)| Op::Swap { user, dir, amt }),
        2 => (0u8..4, amt100(), amt100()).prop_map(|(user, a0, a1)| Op::ProvideThenWithdraw { user, a0, a1 }),
        1 => Just(Op::Collect),
        1 => (0u8..4, 0u8..3, prop_oneof![Just(1u128), Just(1000), gen::amount(1, 1u128 << 70)]).prop_map(|(user, denom, a)| Op::WithdrawDirect { user, denom, amount: Uint128::new(a) }),
        1 => (0u8..4, prop_oneof![Just(0u8), Just(2u8)], any::<bool>(), prop_oneof![Just(1u128), Just(1000), gen::amount(1, 1u128 << 60)]).prop_map(|(user, via, swap_hook, a)| Op::ForgedHook { user, via, swap_hook: if via == 2 { true } else { swap_hook }, amount: Uint128::new(a) }),
    ]
    .boxed()
}

pub struct SsPoolHistory;

fn dstar(v: &PoolView, decimals: [u8; 2], amp: u64) -> U {
    exact_d2(norm(v.reserves[0], decimals[0]), norm(v.reserves[1], decimals[1]), amp)
}

impl SsPoolHistory {
    fn deposit_step(
        pw: &mut PairWorld,
        amp: u64,
        usr: &cosmwasm_std::Addr,
        amounts: [u128; 2],
        before: &PoolView,
        rec: &Rec,
        step: usize,
    ) -> Result<Option<(PoolView, u128)>, Fail> {
        let lp0 = pw.lp_balance(usr);
        let r = pw.provide(usr, amounts, None, None);
        if r.is_err() {
            rec.class("provide_rejected");
            return Ok(None);
        }
        let after = pw.view().map_err(|e| Fail::new(format!("Pool query failed: {e}")))?;
        let minted = pw.lp_balance(usr) - lp0;
        rec.class("provide_ok");
        if before.total_share > 0 {
            judge_mint(
                amp,
                (pw.decimals[0], pw.decimals[1]),
                (before.reserves[0], before.reserves[1]),
                (amounts[0], amounts[1]),
                before.total_share,
                after.total_share - before.total_share,
                rec,
                &format!("step {step} live deposit"),
            )?;
        }
        Ok(Some((after, minted)))
    }
}

impl Check for SsPoolHistory {
    type Case = Case;
    fn name(&self) -> &'static str {
        "stableswap_pool_history"
    }
    fn rule(&self) -> &'static str {
        "live two-asset stableswap pair (through the factory): configuration (kinds, decimals from the six settings, amp, fees) and up to 30/80 operations {provide arbitrary / balanced / one-sided, withdraw, swap both directions native or cw20, provide-then-withdraw, collect}; after each swap the curve bound of the pure check is applied to the real reserves before/after, each deposit must not lower exact D* per LP on decimal-normalised reserves, withdrawals pay <= pro-rata and do not lower D* per LP. Non-trivial: >= 1 successful swap with gross >= 1 and >= 1 successful deposit into a pool with LPs."
    }
    fn strategy(&self, tier: Tier) -> BoxedStrategy<Case> {
        let max_ops = tier.pick(30usize, 80usize);
        (
            any::<[bool; 2]>(),
            0usize..DECIMALS.len(),
            amp_strategy(),
            gen::small_fee_triple(),
            gen::log_uniform(1, 1u128 << 40),
            0u32..=20,
            any::<bool>(),
            prop::collection::vec(op(), 1..max_ops),
        )
            .prop_map(|(cw20, di, amp, fees, whole, imb, flip, ops)| {
                let d = DECIMALS[di];
                let a = whole;
                let b = whole.saturating_mul(1u128 << imb).min(1u128 << 45);
                let (wx, wy) = if flip { (b, a) } else { (a, b) };
                let x = wx.saturating_mul(10u128.pow(d.0 as u32)).min(1u128 << 98);
                let y = wy.saturating_mul(10u128.pow(d.1 as u32)).min(1u128 << 98);
                Case {
                    cfg: PairCfg {
                        cw20,
                        decimals: [d.0, d.1],
                        fees: [Uint128::new(fees[0]), Uint128::new(fees[1]), Uint128::new(fees[2])],
                        amp: Some(amp),
                    },
                    init: (Uint128::new(x.max(10u128.pow(d.0 as u32))), Uint128::new(y.max(10u128.pow(d.1 as u32)))),
                    ops,
                }
            })
            .boxed()
    }
    fn cases(&self, tier: Tier) -> u32 {
        tier.pick(12_000, 500_000)
    }
    fn min_nontrivial(&self) -> f64 {
        0.02
    }
    fn test(&self, c: &Case, rec: &Rec) -> TResult {
        let amp = c.cfg.amp.unwrap();
        let mut pw = PairWorld::build(&c.cfg).map_err(|e| Fail::new(format!("world build failed: {e}")))?;
        let dcm = pw.decimals;
        let u0 = pw.user(0);
        if pw.provide(&u0, [c.init.0.u128(), c.init.1.u128()], None, None).is_err() {
            rec.class("init_rejected");
            return Ok(());
        }
        let mut before = pw.view().map_err(|e| Fail::new(format!("Pool query failed: {e}")))?;
        let mut swaps = 0;
        let mut deposits = 0;
        for (step, op) in c.ops.iter().enumerate() {
            pw.reversed_msgs = false;
            // the property quantifies over pools holding at least one whole token of each asset
            if before.reserves[0] < 10u128.pow(dcm[0] as u32) || before.reserves[1] < 10u128.pow(dcm[1] as u32) {
                rec.class("left_domain_below_one_whole_token");
                break;
            }
            match op {
                Op::Provide { user, a0, a1, reversed } => {
                    pw.reversed_msgs = *reversed;
                    let usr = pw.user(*user);
                    let amounts = [
                        resolve(a0, before.reserves[0], pw.w.bal(&pw.infos[0], &usr)).max(1),
                        resolve(a1, before.reserves[1], pw.w.bal(&pw.infos[1], &usr)).max(1),
                    ];
                    if let Some((after, _)) = Self::deposit_step(&mut pw, amp, &usr, amounts, &before, rec, step)? {
                        deposits += 1;
                        before = after;
                    }
                }
                Op::ProvideBalanced { user, k } => {
                    let usr = pw.user(*user);
                    let amounts = [
                        crate::engine::gen::frac(*k, before.reserves[0]).max(1),
                        crate::engine::gen::frac(*k, before.reserves[1]).max(1),
                    ];
                    if let Some((after, _)) = Self::deposit_step(&mut pw, amp, &usr, amounts, &before, rec, step)? {
                        deposits += 1;
                        before = after;
                    }
                }
                Op::ProvideOneSided { user, which, k } => {
                    let usr = pw.user(*user);
                    let i = if *which { 1 } else { 0 };
                    let mut amounts = [1u128, 1u128];
                    amounts[i] = crate::engine::gen::frac(*k, before.reserves[i]).max(1);
                    if let Some((after, _)) = Self::deposit_step(&mut pw, amp, &usr, amounts, &before, rec, step)? {
                        rec.class("one_sided_deposit_ok");
                        deposits += 1;
                        before = after;
                    }
                }
                Op::ProvideThenWithdraw { user, a0, a1 } => {
                    let usr = pw.user(*user);
                    let amounts = [
                        resolve(a0, before.reserves[0], pw.w.bal(&pw.infos[0], &usr)).max(1),
                        resolve(a1, before.reserves[1], pw.w.bal(&pw.infos[1], &usr)).max(1),
                    ];
                    let start = before.clone();
                    let s_start = before.total_share;
                    let known_before = rec.local_known.get();
                    if let Some((mid, minted)) = Self::deposit_step(&mut pw, amp, &usr, amounts, &before, rec, step)? {
                        deposits += 1;
                        before = mid;
                        // a deposit that hit the known raw-decimals defect already lowered D* per LP;
                        // the round-trip clause would only restate the same root cause
                        let deposit_clean = rec.local_known.get() == known_before;
                        let withdrawn = pw.withdraw(&usr, minted).is_ok();
                        if withdrawn && !deposit_clean {
                            before = pw.view().map_err(|e| Fail::new(format!("Pool query failed: {e}")))?;
                        } else if withdrawn {
                            let end = pw.view().map_err(|e| Fail::new(format!("Pool query failed: {e}")))?;
                            rec.class("provide_then_withdraw_ok");
                            // the round trip must leave the pool with at least the invariant per
                            // LP it started with
                            let d_end = d_shifted((end.reserves[0], end.reserves[1]), (dcm[0], dcm[1]), amp, K_DUST, true, true);
                            let d_start = d_shifted((start.reserves[0], start.reserves[1]), (dcm[0], dcm[1]), amp, K_DUST, false, true);
                            ensure!(
                                per_lp_not_lower(d_start, d_end, s_start, end.total_share),
                                "step {step}: deposit {amounts:?} then withdraw of the minted {minted} shares lowered D* per LP: {d_start}/{s_start} -> {d_end}/{}",
                                end.total_share
                            );
                            before = end;
                        }
                    }
                }
                Op::Withdraw { user, k } => {
                    let usr = pw.user(*user);
                    let shares = crate::engine::gen::frac(*k, pw.lp_balance(&usr));
                    let b = [pw.w.bal(&pw.infos[0], &usr), pw.w.bal(&pw.infos[1], &usr)];
                    if pw.withdraw(&usr, shares).is_ok() {
                        rec.class("withdraw_ok");
                        let after = pw.view().map_err(|e| Fail::new(format!("Pool query failed: {e}")))?;
                        for i in 0..2 {
                            let got = pw.w.bal(&pw.infos[i], &usr) - b[i];
                            ensure!(
                                u(got) * u(before.total_share) <= u(before.reserves[i]) * u(shares),
                                "step {step}: withdrawal of {shares}/{} paid {got} of asset {i} > pro-rata of {}",
                                before.total_share,
                                before.reserves[i]
                            );
                        }
                        if after.total_share > 0 {
                            let d0 = dstar(&before, dcm, amp);
                            let d1 = dstar(&after, dcm, amp);
                            ensure!(
                                (d1 + U::ONE) * u(before.total_share) >= d0 * u(after.total_share),
                                "step {step}: withdrawal lowered D* per LP: {d0}/{} -> {d1}/{}",
                                before.total_share,
                                after.total_share
                            );
                        }
                        before = after;
                    }
                }
                Op::Swap { user, dir, amt } => {
                    let usr = pw.user(*user);
                    let oi = if *dir { 1 } else { 0 };
                    let ai = 1 - oi;
                    let amount = resolve(amt, before.reserves[oi], pw.w.bal(&pw.infos[oi], &usr)).max(1);
                    if amount >= (1u128 << 100) {
                        continue;
                    }
                    let r = pw.swap(&usr, oi, amount, None, Some(dec(500_000_000_000_000_000)), None);
                    if let Ok(resp) = r {
                        let after = pw.view().map_err(|e| Fail::new(format!("Pool query failed: {e}")))?;
                        // gross = what left the reserve + swap fee that stayed: reserve delta of the
                        // ask side is gross - swap_fee; use the emitted claims only for the swap fee
                        // split, validated against the reserve delta
                        let attrs = crate::pools::swap_attrs(&resp, &pw.pair)
                            .ok_or_else(|| Fail::unobservable("the swap response carries no parsable return / spread / fee attributes"))?;
                        let left = before.reserves[ai] - after.reserves[ai];
                        ensure!(
                            left == attrs.return_amount + attrs.protocol_fee + attrs.burn_fee,
                            "step {step}: ask reserve fell by {left} but return+protocol+burn = {}",
                            attrs.return_amount + attrs.protocol_fee + attrs.burn_fee
                        );
                        ensure!(
                            after.reserves[oi] == before.reserves[oi] + amount,
                            "step {step}: offer reserve {} -> {} after an offer of {amount}",
                            before.reserves[oi],
                            after.reserves[oi]
                        );
                        let gross = left + attrs.swap_fee;
                        if gross >= 1 {
                            swaps += 1;
                        }
                        rec.class("swap_ok");
                        judge_swap(
                            amp,
                            before.reserves[oi],
                            before.reserves[ai],
                            amount,
                            (dcm[oi], dcm[ai]),
                            gross,
                            rec,
                            &format!("step {step} live swap"),
                        )?;
                        before = after;
                    } else {
                        rec.class("swap_rejected");
                    }
                }
                Op::Collect => {
                    let who = pw.user(3);
                    let _ = pw.collect(&who);
                    before = pw.view().map_err(|e| Fail::new(format!("Pool query failed: {e}")))?;
                }
                Op::ForgedHook { user, via, swap_hook, amount } => {
                    let usr = pw.user(*user);
                    let lp_b = pw.lp_balance(&usr);
                    let supply_b = before.total_share;
                    let bals_b = [pw.w.bal(&pw.infos[0], &usr), pw.w.bal(&pw.infos[1], &usr)];
                    if pw.forged_hook(&usr, *via, *swap_hook, amount.u128()).is_ok() {
                        rec.class("hook_message_accepted");
                        let lp_a = pw.lp_balance(&usr);
                        let v = pw.view().map_err(|e| Fail::new(format!("Pool query failed: {e}")))?;
                        let bals_a = [pw.w.bal(&pw.infos[0], &usr), pw.w.bal(&pw.infos[1], &usr)];
                        ensure!(
                            v.total_share >= supply_b || lp_b.saturating_sub(lp_a) >= supply_b - v.total_share,
                            "step {step}: a cw20 hook (via {via}, swap hook {swap_hook}, amount {amount}) burnt LP nobody gave up: supply {supply_b} -> {}, sender's LP {lp_b} -> {lp_a}",
                            v.total_share
                        );
                        ensure!(
                            bals_a[0] <= bals_b[0] && bals_a[1] <= bals_b[1],
                            "step {step}: a forged cw20 hook (via {via}, swap hook {swap_hook}, amount {amount}) paid the sender: {bals_b:?} -> {bals_a:?}"
                        );
                    }
                    before = pw.view().map_err(|e| Fail::new(format!("Pool query failed: {e}")))?;
                }
                Op::WithdrawDirect { user, denom, amount } => {
                    let usr = pw.user(*user);
                    let d = ["uaaa", "uaaab", "uccc"][(*denom % 3) as usize];
                    let b = [pw.w.bal(&pw.infos[0], &usr), pw.w.bal(&pw.infos[1], &usr)];
                    let lp_b = pw.lp_balance(&usr);
                    if pw.withdraw_direct(&usr, d, amount.u128()).is_ok() {
                        rec.class("withdraw_direct_accepted");
                        let a = [pw.w.bal(&pw.infos[0], &usr), pw.w.bal(&pw.infos[1], &usr)];
                        let lp_a = pw.lp_balance(&usr);
                        ensure!(
                            lp_a < lp_b || (a[0] <= b[0] && a[1] <= b[1]),
                            "step {step}: the direct WithdrawLiquidity message with {amount}{d} attached paid the sender out of the pool (balances {b:?} -> {a:?}) although its LP balance did not fall ({lp_b} -> {lp_a})"
                        );
                        let locked = pw.lp_balance(&pw.pair);
                        ensure!(locked >= 1000, "step {step}: minimum-liquidity stake not locked after a direct WithdrawLiquidity message: pair holds {locked} LP");
                    }
                    before = pw.view().map_err(|e| Fail::new(format!("Pool query failed: {e}")))?;
                }
            }
        }
        if swaps >= 1 && deposits >= 1 {
            rec.nontrivial(hash_of(c));
            rec.sample(c);
        }
        Ok(())
    }
}

pub fn property() -> Property {
    Property {
        id: "C03",
        checks: vec![Box::new(SsSwapPure), Box::new(SsMintPure), Box::new(SsPoolHistory)],
        assumptions: vec![
            "reference D*/y* = integer bisection on the invariant polynomial over 18-decimal-normalised reserves (refmath.rs), independent of the contract's Newton iterations and Decimal256 arithmetic",
            "dust constant K=6 slope-scaled base units for the swap clause only (granted by the property text), calibrated on the unchanged tree; the measured maximum is reported in the evidence",
            "the reference's own integer floor (1 unit of 10^-18 token) is allowed in D* comparisons",
            "only successful computations are judged (no totality claim for this arm)",
        ],
    }
}
