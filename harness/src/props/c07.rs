//! C07 — protocol and burn fees: every unit charged is accounted, nothing else moves.

use cosmwasm_std::Uint128;
use proptest::prelude::*;
use serde::{Deserialize, Serialize};

use crate::engine::{gen, hash_of, Check, Fail, Property, Rec, TResult, Tier};
use crate::ensure;
use crate::pools::{fees_u, swap_attrs, PairCfg, PairWorld, PoolView, TrioCfg, TrioWorld};
use crate::props::c01::{resolve, Amt};
use crate::refmath::{fee_floor, u};
use crate::vaults::{run_history, vcfg, vop, VAmt, VCase, VOp};
use crate::world::dec;

pub const MIN_COLLECTABLE: u128 = 1000;

#[derive(Clone, Debug, Serialize, Deserialize)]
pub enum Op {
    Swap { user: u8, from: u8, to: u8, amt: Amt },
    /// swap sized so that the protocol fee it adds is tiny (pending stays ≤ 1000)
    TinySwap { user: u8, from: u8, to: u8, units: u16 },
    Collect { caller: u8 },
    CollectTwice { caller: u8 },
    Provide { user: u8, k: u16 },
    Withdraw { user: u8, k: u16 },
    SetFees { fees: [Uint128; 3] },
    /// re-point the configured fee collector: 0 the original collector contract, 1 / 2 two plain accounts
    SetCollector { which: u8 },
}

fn op(n_assets: u8) -> BoxedStrategy<Op> {
    let a = prop_oneof![
        3 => gen::amount(1, 1u128 << 80).prop_map(|a| Amt::Abs(Uint128::new(a))),
        6 => (0u16..20000).prop_map(Amt::OfReserve),
    ];
    prop_oneof![
        6 => (0u8..4, 0..n_assets, 0..n_assets, a).prop_map(|(user, from, to, amt)| Op::Swap { user, from, to, amt }),
        4 => (0u8..4, 0..n_assets, 0..n_assets, 1u16..3000).prop_map(|(user, from, to, units)| Op::TinySwap { user, from, to, units }),
        4 => (0u8..5).prop_map(|caller| Op::Collect { caller }),
        1 => (0u8..5).prop_map(|caller| Op::CollectTwice { caller }),
        1 => (0u8..4, 1u16..20000).prop_map(|(user, k)| Op::Provide { user, k }),
        1 => (0u8..4, gen::share_sel()).prop_map(|(user, k)| Op::Withdraw { user, k }),
        1 => gen::small_fee_triple().prop_map(|f| Op::SetFees { fees: [Uint128::new(f[0]), Uint128::new(f[1]), Uint128::new(f[2])] }),
        1 => (0u8..3).prop_map(|which| Op::SetCollector { which }),
    ]
    .boxed()
}

fn fee_cfg() -> BoxedStrategy<[Uint128; 3]> {
    prop_oneof![
        4 => gen::small_fee_triple(),
        1 => gen::valid_fee_triple(),
        // zero burn / zero protocol
        1 => gen::small_fee_triple().prop_map(|f| [f[0], f[1], 0]),
        1 => gen::small_fee_triple().prop_map(|f| [0, f[1], f[2]]),
    ]
    .prop_map(|f| [Uint128::new(f[0]), Uint128::new(f[1]), Uint128::new(f[2])])
    .boxed()
}

/// Model ledger per asset.
#[derive(Clone, Debug, Default)]
struct Ledger {
    pending: Vec<u128>,
    all_time: Vec<u128>,
    burned: Vec<u128>,
}

fn check_ledger(l: &Ledger, v: &PoolView, all_time: &[u128], burned: &[u128], what: &str) -> TResult {
    ensure!(
        v.pending == l.pending,
        "{what}: pending protocol-fee ledger {:?} != charged − transferred {:?}",
        v.pending,
        l.pending
    );
    ensure!(
        all_time == l.all_time.as_slice(),
        "{what}: all-time collected {:?} != sum of charges {:?}",
        all_time,
        l.all_time
    );
    ensure!(
        burned == l.burned.as_slice(),
        "{what}: all-time burned {:?} != sum of burn charges {:?}",
        burned,
        l.burned
    );
    Ok(())
}

// ---------------------------------------------------------------------------------------------
// pair (constant product and stableswap)
// ---------------------------------------------------------------------------------------------

#[derive(Clone, Debug, Serialize, Deserialize)]
pub struct PairCase {
    pub cfg: PairCfg,
    pub init: (Uint128, Uint128),
    pub ops: Vec<Op>,
}

pub struct PairFeeLedger;

impl Check for PairFeeLedger {
    type Case = PairCase;
    fn name(&self) -> &'static str {
        "pair_fee_ledger"
    }
    fn rule(&self) -> &'static str {
        "constant-product or two-asset stableswap pair (native/cw20, fee triples incl. zero burn / zero protocol), initial liquidity, then up to 30/80 operations {swap, tiny swap (keeps pending <= 1000), collect by anyone, collect twice, provide, withdraw, fee change}. Model ledger per asset: pending = charged − transferred. Each swap's emitted amounts are claims validated against observed deltas (receiver's balance, circulating supply for the burn, pending ledger, reserves, collector untouched); protocol fee == floor(share*gross). A collection must transfer exactly the pending amounts to the configured collector, to nobody else, and leave reported reserves unchanged. All-time counters equal the sums of charges and never shrink. Non-trivial: >= 1 collection with a non-zero pending amount; class counters for collections with 0 < pending <= 1000."
    }
    fn strategy(&self, tier: Tier) -> BoxedStrategy<PairCase> {
        let max_ops = tier.pick(30usize, 80usize);
        (
            any::<[bool; 2]>(),
            proptest::option::weighted(0.4, prop_oneof![Just(1u64), Just(100), 1u64..5000]),
            fee_cfg(),
            gen::log_uniform(1_000_000, 1u128 << 80),
            gen::log_uniform(1_000_000, 1u128 << 80),
            prop::collection::vec(op(2), 1..max_ops),
        )
            .prop_map(|(cw20, amp, fees, i0, i1, ops)| {
                let (i0, i1) = if amp.is_some() {
                    // keep stableswap pools within 2^20 of each other
                    (i0, i0.max(1 << 20) / 3 + (i1 % (i0.max(2))))
                } else {
                    (i0, i1)
                };
                PairCase {
                    cfg: PairCfg {
                        cw20,
                        decimals: [6, 6],
                        fees,
                        amp,
                    },
                    init: (Uint128::new(i0), Uint128::new(i1.max(1_000_000))),
                    ops,
                }
            })
            .boxed()
    }
    fn cases(&self, tier: Tier) -> u32 {
        tier.pick(24_000, 750_000)
    }
    fn min_nontrivial(&self) -> f64 {
        0.05
    }
    fn test(&self, c: &PairCase, rec: &Rec) -> TResult {
        let mut pw = PairWorld::build(&c.cfg).map_err(|e| Fail::new(format!("world build failed: {e}")))?;
        let original_collector = pw.collector.clone();
        let u0 = pw.user(0);
        if pw.provide(&u0, [c.init.0.u128(), c.init.1.u128()], None, None).is_err() {
            rec.class("init_rejected");
            return Ok(());
        }
        let mut fees = fees_u(&c.cfg.fees);
        let mut l = Ledger {
            pending: vec![0, 0],
            all_time: vec![0, 0],
            burned: vec![0, 0],
        };
        let mut before = pw.view().map_err(|e| Fail::new(format!("Pool query failed: {e}")))?;
        let mut nonzero_collections = 0;
        for (step, op) in c.ops.iter().enumerate() {
            match op {
                Op::Swap { .. } | Op::TinySwap { .. } => {
                    let (user, from, to, amount) = match op {
                        Op::Swap { user, from, to, amt } => {
                            let f = (*from % 2) as usize;
                            let usr = pw.user(*user);
                            (*user, f, *to, resolve(amt, before.reserves[f], pw.w.bal(&pw.infos[f], &usr)).max(1))
                        }
                        Op::TinySwap { user, from, to, units } => ((*user), (*from % 2) as usize, *to, *units as u128),
                        _ => unreachable!(),
                    };
                    let _ = to;
                    let oi = from;
                    let ai = 1 - oi;
                    let usr = pw.user(user);
                    let recv = pw.user(user.wrapping_add(1));
                    let rb = pw.w.bal(&pw.infos[ai], &recv);
                    let supply_b = pw.w.supply(&pw.infos[ai]);
                    let coll_b = [pw.w.bal(&pw.infos[0], &pw.collector), pw.w.bal(&pw.infos[1], &pw.collector)];
                    let r = pw.swap(&usr, oi, amount, None, Some(dec(500_000_000_000_000_000)), Some(&recv));
                    let Ok(resp) = r else {
                        rec.class("swap_rejected");
                        continue;
                    };
                    rec.class("swap_ok");
                    let at = swap_attrs(&resp, &pw.pair).ok_or_else(|| Fail::unobservable("the swap response carries no parsable return / spread / fee attributes"))?;
                    let after = pw.view().map_err(|e| Fail::new(format!("Pool query failed: {e}")))?;
                    let got = pw.w.bal(&pw.infos[ai], &recv) - rb;
                    ensure!(got == at.return_amount, "step {step}: receiver got {got}, swap reports return {}", at.return_amount);
                    let supply_a = pw.w.supply(&pw.infos[ai]);
                    ensure!(
                        supply_b - supply_a == at.burn_fee,
                        "step {step}: circulating supply of the ask asset fell by {}, swap reports burn fee {}",
                        supply_b - supply_a,
                        at.burn_fee
                    );
                    let gross = u(at.return_amount) + u(at.swap_fee) + u(at.protocol_fee) + u(at.burn_fee);
                    ensure!(
                        u(at.protocol_fee) == fee_floor(gross, fees[0]) && u(at.swap_fee) == fee_floor(gross, fees[1]) && u(at.burn_fee) == fee_floor(gross, fees[2]),
                        "step {step}: fees ({},{},{}) are not the floors of the configured shares of the gross amount {gross}",
                        at.protocol_fee, at.swap_fee, at.burn_fee
                    );
                    ensure!(
                        after.pending[ai] == before.pending[ai] + at.protocol_fee && after.pending[oi] == before.pending[oi],
                        "step {step}: pending ledger {:?} -> {:?}, protocol fee charged {} on asset {ai}",
                        before.pending, after.pending, at.protocol_fee
                    );
                    ensure!(
                        after.balances[ai] + at.return_amount + at.burn_fee == before.balances[ai]
                            && after.balances[oi] == before.balances[oi] + amount,
                        "step {step}: pool balances {:?} -> {:?} for offer {amount}, return {}, burn {}",
                        before.balances, after.balances, at.return_amount, at.burn_fee
                    );
                    ensure!(
                        after.reserves[ai] + at.return_amount + at.burn_fee + at.protocol_fee == before.reserves[ai],
                        "step {step}: reported ask reserve {} -> {}",
                        before.reserves[ai], after.reserves[ai]
                    );
                    for i in 0..2 {
                        ensure!(
                            pw.w.bal(&pw.infos[i], &pw.collector) == coll_b[i],
                            "step {step}: a swap moved funds to the fee collector"
                        );
                    }
                    l.pending[ai] += at.protocol_fee;
                    l.all_time[ai] += at.protocol_fee;
                    l.burned[ai] += at.burn_fee;
                    before = after;
                }
                Op::Collect { caller } | Op::CollectTwice { caller } => {
                    let twice = matches!(op, Op::CollectTwice { .. });
                    for round in 0..(if twice { 2 } else { 1 }) {
                        let who = if *caller == 4 { pw.w.owner.clone() } else { pw.user(*caller) };
                        let coll_b = [pw.w.bal(&pw.infos[0], &pw.collector), pw.w.bal(&pw.infos[1], &pw.collector)];
                        let who_b = [pw.w.bal(&pw.infos[0], &who), pw.w.bal(&pw.infos[1], &who)];
                        if pw.collect(&who).is_err() {
                            rec.class("collect_rejected");
                            continue;
                        }
                        let after = pw.view().map_err(|e| Fail::new(format!("Pool query failed: {e}")))?;
                        for i in 0..2 {
                            let p = before.pending[i];
                            if p == 0 {
                                rec.class("collect_pending_zero");
                            } else if p <= MIN_COLLECTABLE {
                                rec.class("collect_pending_sub_threshold");
                            } else {
                                rec.class("collect_pending_above_threshold");
                            }
                            if p > 0 {
                                nonzero_collections += 1;
                            }
                            let got = pw.w.bal(&pw.infos[i], &pw.collector) - coll_b[i];
                            let cleared = before.pending[i] - after.pending[i].min(before.pending[i]);
                            if !(got == cleared && after.pending[i] <= before.pending[i]) {
                                let msg = format!(
                                    "step {step} (round {round}): collection of asset {i}: pending {} -> {}, but the collector received {got}",
                                    before.pending[i], after.pending[i]
                                );
                                if got == 0 && before.pending[i] <= MIN_COLLECTABLE && after.pending[i] == 0 {
                                    rec.known_or_fail("pool-collect-sub-threshold-zeroes-ledger", msg)?;
                                } else {
                                    return Err(Fail::new(msg));
                                }
                            }
                            ensure!(
                                after.reserves[i] == before.reserves[i] || (got == 0 && before.pending[i] <= MIN_COLLECTABLE),
                                "step {step}: collection changed the reported reserve of asset {i}: {} -> {}",
                                before.reserves[i], after.reserves[i]
                            );
                            ensure!(
                                after.balances[i] + got == before.balances[i],
                                "step {step}: collection moved {} of asset {i} out of the pool, collector received {got}",
                                before.balances[i] - after.balances[i]
                            );
                            if who != pw.collector {
                                ensure!(
                                    pw.w.bal(&pw.infos[i], &who) == who_b[i],
                                    "step {step}: the caller of CollectProtocolFees received funds"
                                );
                            }
                            l.pending[i] = after.pending[i];
                        }
                        before = after;
                    }
                }
                Op::Provide { user, k } => {
                    let usr = pw.user(*user);
                    let a = [gen::frac(*k, before.reserves[0]).max(1), gen::frac(*k, before.reserves[1]).max(1)];
                    let _ = pw.provide(&usr, a, None, None);
                    before = pw.view().map_err(|e| Fail::new(format!("Pool query failed: {e}")))?;
                }
                Op::Withdraw { user, k } => {
                    let usr = pw.user(*user);
                    let sh = gen::frac(*k, pw.lp_balance(&usr));
                    let _ = pw.withdraw(&usr, sh);
                    before = pw.view().map_err(|e| Fail::new(format!("Pool query failed: {e}")))?;
                }
                Op::SetFees { fees: f } => {
                    if pw.set_fees(fees_u(f)).is_ok() {
                        fees = fees_u(f);
                    }
                }
                Op::SetCollector { which } => {
                    let to = match *which % 3 {
                        0 => original_collector.clone(),
                        1 => cosmwasm_std::Addr::unchecked("collector-two"),
                        _ => cosmwasm_std::Addr::unchecked("collector-three"),
                    };
                    if pw.set_collector(&to).is_ok() {
                        rec.class("collector_repointed");
                    }
                }
            }
            pw.ledger_query_matrix().map_err(|e| Fail::new(format!("step {step}: {e}")))?;
            let at = pw.all_time(false).map_err(|e| Fail::new(e))?;
            let bu = pw.all_time(true).map_err(|e| Fail::new(e))?;
            check_ledger(&l, &before, &at, &bu, &format!("step {step} ({op:?})"))?;
        }
        if nonzero_collections >= 1 {
            rec.nontrivial(hash_of(c));
            rec.sample(c);
        }
        Ok(())
    }
}

// ---------------------------------------------------------------------------------------------
// trio
// ---------------------------------------------------------------------------------------------

#[derive(Clone, Debug, Serialize, Deserialize)]
pub struct TrioCase {
    pub cfg: TrioCfg,
    pub init: [Uint128; 3],
    pub ops: Vec<Op>,
}

pub struct TrioFeeLedger;

impl Check for TrioFeeLedger {
    type Case = TrioCase;
    fn name(&self) -> &'static str {
        "trio_fee_ledger"
    }
    fn rule(&self) -> &'static str {
        "three-asset stableswap pool; same operation alphabet and ledger oracle as pair_fee_ledger over all six swap directions."
    }
    fn strategy(&self, tier: Tier) -> BoxedStrategy<TrioCase> {
        let max_ops = tier.pick(30usize, 80usize);
        (
            any::<[bool; 3]>(),
            prop_oneof![Just(1u64), Just(100), 1u64..5000],
            fee_cfg(),
            gen::log_uniform(1_000_000, 1u128 << 70),
            0u32..8,
            0u32..8,
            prop::collection::vec(op(3), 1..max_ops),
        )
            .prop_map(|(cw20, amp, fees, base, s1, s2, ops)| TrioCase {
                cfg: TrioCfg {
                    cw20,
                    decimals: [6, 6, 6],
                    fees,
                    amp,
                },
                init: [
                    Uint128::new(base),
                    Uint128::new((base >> s1).max(100_000)),
                    Uint128::new((base >> s2).max(100_000)),
                ],
                ops,
            })
            .boxed()
    }
    fn cases(&self, tier: Tier) -> u32 {
        tier.pick(18_000, 600_000)
    }
    fn min_nontrivial(&self) -> f64 {
        0.05
    }
    fn test(&self, c: &TrioCase, rec: &Rec) -> TResult {
        let mut tw = TrioWorld::build(&c.cfg).map_err(|e| Fail::new(format!("world build failed: {e}")))?;
        let original_collector = tw.collector.clone();
        let u0 = tw.user(0);
        if tw
            .provide(&u0, [c.init[0].u128(), c.init[1].u128(), c.init[2].u128()], None, None)
            .is_err()
        {
            rec.class("init_rejected");
            return Ok(());
        }
        let mut fees = fees_u(&c.cfg.fees);
        let mut l = Ledger {
            pending: vec![0; 3],
            all_time: vec![0; 3],
            burned: vec![0; 3],
        };
        let mut before = tw.view().map_err(|e| Fail::new(format!("Pool query failed: {e}")))?;
        let mut nonzero_collections = 0;
        for (step, op) in c.ops.iter().enumerate() {
            match op {
                Op::Swap { .. } | Op::TinySwap { .. } => {
                    let (user, oi, ai, amount) = match op {
                        Op::Swap { user, from, to, amt } => {
                            let f = (*from % 3) as usize;
                            let usr = tw.user(*user);
                            (*user, f, (*to % 3) as usize, resolve(amt, before.reserves[f], tw.w.bal(&tw.infos[f], &usr)).max(1))
                        }
                        Op::TinySwap { user, from, to, units } => (*user, (*from % 3) as usize, (*to % 3) as usize, *units as u128),
                        _ => unreachable!(),
                    };
                    if oi == ai {
                        continue;
                    }
                    let ni = 3 - oi - ai;
                    let usr = tw.user(user);
                    let recv = tw.user(user.wrapping_add(1));
                    let rb = tw.w.bal(&tw.infos[ai], &recv);
                    let supply_b = tw.w.supply(&tw.infos[ai]);
                    let coll_b: Vec<u128> = (0..3).map(|i| tw.w.bal(&tw.infos[i], &tw.collector)).collect();
                    let r = tw.swap(&usr, oi, ai, amount, None, Some(dec(500_000_000_000_000_000)), Some(&recv));
                    let Ok(resp) = r else {
                        rec.class("swap_rejected");
                        continue;
                    };
                    rec.class("swap_ok");
                    let at = swap_attrs(&resp, &tw.trio).ok_or_else(|| Fail::unobservable("the swap response carries no parsable return / spread / fee attributes"))?;
                    let after = tw.view().map_err(|e| Fail::new(format!("Pool query failed: {e}")))?;
                    let got = tw.w.bal(&tw.infos[ai], &recv) - rb;
                    ensure!(got == at.return_amount, "step {step}: receiver got {got}, swap reports return {}", at.return_amount);
                    let supply_a = tw.w.supply(&tw.infos[ai]);
                    ensure!(
                        supply_b - supply_a == at.burn_fee,
                        "step {step}: circulating supply of the ask asset fell by {}, swap reports burn fee {}",
                        supply_b - supply_a,
                        at.burn_fee
                    );
                    let gross = u(at.return_amount) + u(at.swap_fee) + u(at.protocol_fee) + u(at.burn_fee);
                    ensure!(
                        u(at.protocol_fee) == fee_floor(gross, fees[0]) && u(at.swap_fee) == fee_floor(gross, fees[1]) && u(at.burn_fee) == fee_floor(gross, fees[2]),
                        "step {step}: fees ({},{},{}) are not the floors of the configured shares of the gross amount {gross}",
                        at.protocol_fee, at.swap_fee, at.burn_fee
                    );
                    ensure!(
                        after.pending[ai] == before.pending[ai] + at.protocol_fee
                            && after.pending[oi] == before.pending[oi]
                            && after.pending[ni] == before.pending[ni],
                        "step {step}: pending ledger {:?} -> {:?}, protocol fee charged {} on asset {ai}",
                        before.pending, after.pending, at.protocol_fee
                    );
                    ensure!(
                        after.balances[ai] + at.return_amount + at.burn_fee == before.balances[ai]
                            && after.balances[oi] == before.balances[oi] + amount
                            && after.balances[ni] == before.balances[ni],
                        "step {step}: pool balances {:?} -> {:?} for offer {amount}, return {}, burn {}",
                        before.balances, after.balances, at.return_amount, at.burn_fee
                    );
                    for i in 0..3 {
                        ensure!(
                            tw.w.bal(&tw.infos[i], &tw.collector) == coll_b[i],
                            "step {step}: a swap moved funds to the fee collector"
                        );
                    }
                    l.pending[ai] += at.protocol_fee;
                    l.all_time[ai] += at.protocol_fee;
                    l.burned[ai] += at.burn_fee;
                    before = after;
                }
                Op::Collect { caller } | Op::CollectTwice { caller } => {
                    let twice = matches!(op, Op::CollectTwice { .. });
                    for round in 0..(if twice { 2 } else { 1 }) {
                        let who = if *caller == 4 { tw.w.owner.clone() } else { tw.user(*caller) };
                        let coll_b: Vec<u128> = (0..3).map(|i| tw.w.bal(&tw.infos[i], &tw.collector)).collect();
                        let who_b: Vec<u128> = (0..3).map(|i| tw.w.bal(&tw.infos[i], &who)).collect();
                        if tw.collect(&who).is_err() {
                            rec.class("collect_rejected");
                            continue;
                        }
                        let after = tw.view().map_err(|e| Fail::new(format!("Pool query failed: {e}")))?;
                        for i in 0..3 {
                            let p = before.pending[i];
                            if p == 0 {
                                rec.class("collect_pending_zero");
                            } else if p <= MIN_COLLECTABLE {
                                rec.class("collect_pending_sub_threshold");
                            } else {
                                rec.class("collect_pending_above_threshold");
                            }
                            if p > 0 {
                                nonzero_collections += 1;
                            }
                            let got = tw.w.bal(&tw.infos[i], &tw.collector) - coll_b[i];
                            let cleared = before.pending[i] - after.pending[i].min(before.pending[i]);
                            if !(got == cleared && after.pending[i] <= before.pending[i]) {
                                let msg = format!(
                                    "step {step} (round {round}): collection of asset {i}: pending {} -> {}, but the collector received {got}",
                                    before.pending[i], after.pending[i]
                                );
                                if got == 0 && before.pending[i] <= MIN_COLLECTABLE && after.pending[i] == 0 {
                                    rec.known_or_fail("pool-collect-sub-threshold-zeroes-ledger", msg)?;
                                } else {
                                    return Err(Fail::new(msg));
                                }
                            }
                            ensure!(
                                after.reserves[i] == before.reserves[i] || (got == 0 && before.pending[i] <= MIN_COLLECTABLE),
                                "step {step}: collection changed the reported reserve of asset {i}: {} -> {}",
                                before.reserves[i], after.reserves[i]
                            );
                            ensure!(
                                after.balances[i] + got == before.balances[i],
                                "step {step}: collection moved {} of asset {i} out of the pool, collector received {got}",
                                before.balances[i] - after.balances[i]
                            );
                            if who != tw.collector {
                                ensure!(
                                    tw.w.bal(&tw.infos[i], &who) == who_b[i],
                                    "step {step}: the caller of CollectProtocolFees received funds"
                                );
                            }
                            l.pending[i] = after.pending[i];
                        }
                        before = after;
                    }
                }
                Op::Provide { user, k } => {
                    let usr = tw.user(*user);
                    let a = [
                        gen::frac(*k, before.reserves[0]).max(1),
                        gen::frac(*k, before.reserves[1]).max(1),
                        gen::frac(*k, before.reserves[2]).max(1),
                    ];
                    let _ = tw.provide(&usr, a, None, None);
                    before = tw.view().map_err(|e| Fail::new(format!("Pool query failed: {e}")))?;
                }
                Op::Withdraw { user, k } => {
                    let usr = tw.user(*user);
                    let sh = gen::frac(*k, tw.lp_balance(&usr));
                    let _ = tw.withdraw(&usr, sh);
                    before = tw.view().map_err(|e| Fail::new(format!("Pool query failed: {e}")))?;
                }
                Op::SetFees { fees: f } => {
                    if tw.update(Some(fees_u(f)), None, None).is_ok() {
                        fees = fees_u(f);
                    }
                }
                Op::SetCollector { which } => {
                    let to = match *which % 3 {
                        0 => original_collector.clone(),
                        1 => cosmwasm_std::Addr::unchecked("collector-two"),
                        _ => cosmwasm_std::Addr::unchecked("collector-three"),
                    };
                    if tw.set_collector(&to).is_ok() {
                        rec.class("collector_repointed");
                    }
                }
            }
            tw.ledger_query_matrix().map_err(|e| Fail::new(format!("step {step}: {e}")))?;
            let at = tw.all_time(false).map_err(|e| Fail::new(e))?;
            let bu = tw.all_time(true).map_err(|e| Fail::new(e))?;
            check_ledger(&l, &before, &at, &bu, &format!("step {step} ({op:?})"))?;
        }
        if nonzero_collections >= 1 {
            rec.nontrivial(hash_of(c));
            rec.sample(c);
        }
        Ok(())
    }
}

// ---------------------------------------------------------------------------------------------
// vault
// ---------------------------------------------------------------------------------------------

pub struct VaultFeeLedger;

impl Check for VaultFeeLedger {
    type Case = VCase;
    fn name(&self) -> &'static str {
        "vault_fee_ledger"
    }
    fn rule(&self) -> &'static str {
        "vault histories (see C05/C06) weighted towards loans and collections; after every step the pending ledger equals protocol fees charged (floor(share*loan) of every completed loan, computed by the harness) minus what reached the collector, a collection moves exactly the pending amount to the collector and to nobody else, all-time collected / burned counters equal the sums of the charges and never shrink, burned amounts leave circulation. Non-trivial: >= 1 collection of a non-zero pending amount."
    }
    fn strategy(&self, tier: Tier) -> BoxedStrategy<VCase> {
        let max_ops = tier.pick(25usize, 60usize);
        (vcfg(), prop::collection::vec(vop(1, 4, 3, 2), 1..max_ops), gen::amount(10_000, 1u128 << 100))
            .prop_map(|(cfg, mut ops, d0)| {
                ops.insert(0, VOp::Deposit { user: 0, amt: VAmt::Abs(Uint128::new(d0)) });
                ops.insert(1, VOp::Deposit { user: 4, amt: VAmt::Abs(Uint128::new(d0 / 7 + 2000)) });
                VCase { cfg, ops }
            })
            .boxed()
    }
    fn cases(&self, tier: Tier) -> u32 {
        tier.pick(24_000, 750_000)
    }
    fn min_nontrivial(&self) -> f64 {
        0.05
    }
    fn test(&self, c: &VCase, rec: &Rec) -> TResult {
        let st = run_history(c, rec, false)?;
        if st.collections_nonzero >= 1 {
            rec.nontrivial(hash_of(c));
            rec.sample(c);
        }
        Ok(())
    }
}

pub fn property() -> Property {
    Property {
        id: "C07",
        checks: vec![Box::new(PairFeeLedger), Box::new(TrioFeeLedger), Box::new(VaultFeeLedger)],
        assumptions: vec![
            "swap attributes are treated as claims and validated against independently observed balance / supply / ledger deltas",
            "closed world: the circulating supply of a native denom is the sum over every account and contract the harness created",
            "cw-multi-test 0.16.5 stands in for the chain",
        ],
    }
}
