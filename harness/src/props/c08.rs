//! C08 — bonding conservation (real whale_lair + real fee_distributor / fee_collector).

use cosmwasm_std::{coin, Addr, Coin, Decimal, Uint128, Uint64};
use proptest::prelude::*;
use serde::{Deserialize, Serialize};

use white_whale_std::pool_network::asset::AssetInfo;
use white_whale_std::whale_lair as lair;

use crate::engine::{gen, hash_of, Check, Fail, Property, Rec, TResult, Tier};
use crate::ensure;
use crate::world::{asset, native, token, World, DAY_NS, START_TIME_S};

pub const DENOMS: [&str; 3] = ["ampwhale", "ampwhalex", "amp"];
pub const USERS: [&str; 4] = ["alice", "bob", "carol", "dave"];
pub const B_FUND: u128 = 1u128 << 100;

pub struct BondWorld {
    pub w: World,
    pub lair: Addr,
    pub dist: Addr,
    pub collector: Addr,
    pub cw20: Addr,
    pub period_ns: u64,
}

pub fn build_bond_world(period_ns: u64, grace: u64) -> Result<BondWorld, String> {
    build_hub(period_ns, grace, DAY_NS, START_TIME_S * 1_000_000_000)
}

pub fn build_hub(period_ns: u64, grace: u64, duration_ns: u64, genesis_ns: u64) -> Result<BondWorld, String> {
    let mut w = World::new_with_fund(&USERS, &["ampwhale", "ampwhalex", "amp", "uwhale"], B_FUND);
    w.setup_pool_network();
    w.setup_vault_network();
    let cw20 = w.create_cw20_with_fund("bond", 6, B_FUND);
    w.setup_fee_hub(
        &["ampwhale", "ampwhalex"],
        period_ns,
        Decimal::one(),
        grace,
        duration_ns,
        genesis_ns,
        native("uwhale"),
    )?;
    let lair = w.whale_lair.clone().unwrap();
    let dist = w.fee_distributor.clone().unwrap();
    let collector = w.fee_collector.clone().unwrap();
    Ok(BondWorld {
        w,
        lair,
        dist,
        collector,
        cw20,
        period_ns,
    })
}

impl BondWorld {
    pub fn user(&self, i: u8) -> Addr {
        self.w.users[(i as usize) % self.w.users.len()].clone()
    }
    pub fn new_epoch(&mut self, who: &Addr) -> Result<(), String> {
        let d = self.dist.clone();
        self.w
            .exec(who, &d, &white_whale_std::fee_distributor::ExecuteMsg::NewEpoch {}, &[])
            .map(|_| ())
    }
    pub fn claim(&mut self, who: &Addr) -> Result<(), String> {
        let d = self.dist.clone();
        self.w
            .exec(who, &d, &white_whale_std::fee_distributor::ExecuteMsg::Claim {}, &[])
            .map(|_| ())
    }
    pub fn bond(&mut self, who: &Addr, info: &AssetInfo, declared: u128, funds: &[Coin]) -> Result<(), String> {
        let l = self.lair.clone();
        self.w
            .exec(who, &l, &lair::ExecuteMsg::Bond { asset: asset(info, declared) }, funds)
            .map(|_| ())
    }
    /// the amount of `denom` the contract reports as bonded by `who`
    pub fn bonded_of(&self, who: &Addr, denom: &str) -> u128 {
        let b: Result<lair::BondedResponse, _> = self.w.query(&self.lair, &lair::QueryMsg::Bonded { address: who.to_string() });
        b.ok()
            .and_then(|b| b.bonded_assets.iter().find(|a| a.info == native(denom)).map(|a| a.amount.u128()))
            .unwrap_or(0)
    }
    pub fn unbond(&mut self, who: &Addr, info: &AssetInfo, amount: u128) -> Result<(), String> {
        let l = self.lair.clone();
        self.w
            .exec(who, &l, &lair::ExecuteMsg::Unbond { asset: asset(info, amount) }, &[])
            .map(|_| ())
    }
    pub fn withdraw(&mut self, who: &Addr, denom: &str) -> Result<(), String> {
        let l = self.lair.clone();
        self.w
            .exec(who, &l, &lair::ExecuteMsg::Withdraw { denom: denom.to_string() }, &[])
            .map(|_| ())
    }
}

#[derive(Clone, Debug, Serialize, Deserialize)]
pub enum Dt {
    Zero,
    OneNs,
    OneSec,
    PeriodMinus1,
    Period,
    PeriodPlus1,
    Day,
    Ns(u64),
}

#[derive(Clone, Debug, Serialize, Deserialize)]
pub enum FundsKind {
    Exact,
    /// declared amount differs from the coin sent
    Mismatch,
    /// right amount, other denom
    WrongDenom,
    /// two coins
    Extra,
    None,
}

#[derive(Clone, Debug, Serialize, Deserialize)]
pub enum Op {
    Bond { user: u8, denom: u8, amount: Uint128, funds: FundsKind },
    BondCw20 { user: u8, amount: Uint128 },
    /// `pick`: choose the (user, denom) among those that currently have a bond (monotone index)
    Unbond { user: u8, denom: u8, k: u16, pick: Option<u16> },
    /// two unbonds of the same denom by the same user in one block
    UnbondTwice { user: u8, denom: u8, k1: u16, k2: u16 },
    /// `pick`: choose the (user, denom) among those that currently have unbonding records
    Withdraw { user: u8, denom: u8, pick: Option<u16> },
    WithdrawOther { caller: u8, denom: u8 },
    Advance { dt: Dt },
    NewEpoch { caller: u8 },
    /// create epochs until the distributor refuses (bounded), so that the lair's
    /// "epoch is current" precondition holds again after long time jumps
    CatchUpEpochs,
    Claim { user: u8 },
    Inflow { amount: Uint128 },
}

#[derive(Clone, Debug, Serialize, Deserialize)]
pub struct Case {
    pub period_ns: u64,
    pub ops: Vec<Op>,
}

fn dt() -> BoxedStrategy<Dt> {
    prop_oneof![
        3 => Just(Dt::Zero),
        1 => Just(Dt::OneNs),
        3 => Just(Dt::OneSec),
        2 => Just(Dt::PeriodMinus1),
        2 => Just(Dt::Period),
        1 => Just(Dt::PeriodPlus1),
        1 => Just(Dt::Day),
        1 => gen::log_uniform(1, 3 * DAY_NS as u128).prop_map(|n| Dt::Ns(n as u64)),
    ]
    .boxed()
}

fn op() -> BoxedStrategy<Op> {
    let funds = prop_oneof![
        12 => Just(FundsKind::Exact),
        1 => Just(FundsKind::Mismatch),
        1 => Just(FundsKind::WrongDenom),
        1 => Just(FundsKind::Extra),
        1 => Just(FundsKind::None),
    ];
    prop_oneof![
        7 => (0u8..4, prop_oneof![12 => 0u8..2, 1 => Just(2u8)], gen::amount(0, 1u128 << 90), funds)
            .prop_map(|(user, denom, amount, funds)| Op::Bond { user, denom, amount: Uint128::new(amount), funds }),
        1 => (0u8..4, gen::amount(1, 1u128 << 60)).prop_map(|(user, amount)| Op::BondCw20 { user, amount: Uint128::new(amount) }),
        7 => (0u8..4, prop_oneof![12 => 0u8..2, 1 => Just(2u8)], prop_oneof![6 => 1u16..u16::MAX, 1 => Just(0u16), 1 => Just(u16::MAX)]).prop_map(|(user, denom, k)| Op::Unbond { user, denom, k, pick: None }),
        6 => (any::<u16>(), 1u16..u16::MAX).prop_map(|(p, k)| Op::Unbond { user: 0, denom: 0, k, pick: Some(p) }),
        3 => (0u8..4, 0u8..2, 1u16..40000, 1u16..u16::MAX).prop_map(|(user, denom, k1, k2)| Op::UnbondTwice { user, denom, k1, k2 }),
        7 => (0u8..4, prop_oneof![12 => 0u8..2, 1 => Just(2u8)]).prop_map(|(user, denom)| Op::Withdraw { user, denom, pick: None }),
        6 => any::<u16>().prop_map(|p| Op::Withdraw { user: 0, denom: 0, pick: Some(p) }),
        1 => (0u8..4, 0u8..2).prop_map(|(caller, denom)| Op::WithdrawOther { caller, denom }),
        6 => dt().prop_map(|dt| Op::Advance { dt }),
        1 => (0u8..4).prop_map(|caller| Op::NewEpoch { caller }),
        5 => Just(Op::CatchUpEpochs),
        2 => (0u8..4).prop_map(|user| Op::Claim { user }),
        1 => gen::amount(1, 1u128 << 70).prop_map(|a| Op::Inflow { amount: Uint128::new(a) }),
    ]
    .boxed()
}

#[derive(Clone, Debug)]
struct Record {
    user: usize,
    denom: usize,
    ts: u64,
    amount: u128,
}

/// unbondings of one user and denom made in the same block form one record (keyed by timestamp)
fn push_record(records: &mut Vec<Record>, r: Record) {
    if let Some(e) = records.iter_mut().find(|e| e.user == r.user && e.denom == r.denom && e.ts == r.ts) {
        e.amount += r.amount;
    } else {
        records.push(r);
    }
}

pub struct BondingHistory;

impl BondingHistory {
    fn check_state(bw: &BondWorld, bonded: &[[u128; 3]; 4], records: &[Record], step: usize, op: &Op) -> TResult {
        // contract balance of each bonding asset == bonded + pending unbondings
        for d in 0..2 {
            let total_b: u128 = (0..4).map(|u| bonded[u][d]).sum();
            let total_r: u128 = records.iter().filter(|r| r.denom == d).map(|r| r.amount).sum();
            let bank = bw.w.bank(&bw.lair, DENOMS[d]);
            ensure!(
                bank == total_b + total_r,
                "step {step} ({op:?}): the bonding contract holds {bank} {} but bonded {total_b} + pending unbondings {total_r} = {}",
                DENOMS[d],
                total_b + total_r
            );
        }
        let tb: lair::BondedResponse = bw
            .w
            .query(&bw.lair, &lair::QueryMsg::TotalBonded {})
            .map_err(|e| Fail::new(format!("TotalBonded query failed: {e}")))?;
        let sum_all: u128 = (0..4).map(|u| bonded[u][0] + bonded[u][1]).sum();
        ensure!(
            tb.total_bonded.u128() == sum_all,
            "step {step} ({op:?}): TotalBonded {} != sum of the users' bonds {sum_all}",
            tb.total_bonded
        );
        for d in 0..2 {
            let want: u128 = (0..4).map(|u| bonded[u][d]).sum();
            let got = tb
                .bonded_assets
                .iter()
                .find(|a| a.info == native(DENOMS[d]))
                .map(|a| a.amount.u128())
                .unwrap_or(0);
            ensure!(got == want, "step {step} ({op:?}): TotalBonded reports {got} {} but users hold {want}", DENOMS[d]);
        }
        for u in 0..4 {
            let usr = bw.user(u as u8);
            let b: lair::BondedResponse = bw
                .w
                .query(&bw.lair, &lair::QueryMsg::Bonded { address: usr.to_string() })
                .map_err(|e| Fail::new(format!("Bonded query failed: {e}")))?;
            ensure!(
                b.total_bonded.u128() == bonded[u][0] + bonded[u][1],
                "step {step} ({op:?}): Bonded({usr}) = {} but the model has {}",
                b.total_bonded,
                bonded[u][0] + bonded[u][1]
            );
            for d in 0..2 {
                let mine: Vec<&Record> = records.iter().filter(|r| r.user == u && r.denom == d).collect();
                if mine.len() <= 30 {
                    let ur: lair::UnbondingResponse = bw
                        .w
                        .query(
                            &bw.lair,
                            &lair::QueryMsg::Unbonding {
                                address: usr.to_string(),
                                denom: DENOMS[d].to_string(),
                                start_after: None,
                                limit: Some(30),
                            },
                        )
                        .map_err(|e| Fail::new(format!("Unbonding query failed: {e}")))?;
                    let want: u128 = mine.iter().map(|r| r.amount).sum();
                    ensure!(
                        ur.total_amount.u128() == want,
                        "step {step} ({op:?}): Unbonding({usr},{}) reports {} but the user unbonded {want} that was not withdrawn yet",
                        DENOMS[d],
                        ur.total_amount
                    );
                }
            }
        }
        Ok(())
    }
}

impl Check for BondingHistory {
    type Case = Case;
    fn name(&self) -> &'static str {
        "bonding_history"
    }
    fn rule(&self) -> &'static str {
        "real whale_lair wired to the real fee_distributor/collector (the lair's claim-first and epoch-is-current preconditions are real); unbonding period from {1 s, 1 h, 1 day, 14 days}; 4 users, 2 whitelisted denoms + 1 non-whitelisted + a cw20; up to 40/120 operations {bond with exact / mismatching / wrong-denom / extra / no funds, bond a cw20, unbond a fraction, two unbonds in one block, withdraw, withdraw for a denom one has nothing in, advance time by 0 / 1 ns / 1 s / period-1 / period / period+1 / 1 day / random, NewEpoch, Claim, fee inflow}. Reference model: bonded[user][denom] and the multiset of unbonding records. After every step: contract balance == bonded + pending per denom, TotalBonded == sum of users, Bonded / Unbonding queries == model, a withdrawal pays exactly the matured records (ts + period <= now, oldest 30) to the caller only and removes them, Withdrawable query == the same sum; a non-whitelisted or cw20 asset is never accepted; a bond accepted with surplus / short / stray funds is judged by the balance equation with the amount the contract credits; rejected steps leave the world unchanged. Non-trivial: >= 1 successful withdrawal of a matured record and >= 2 users with bonds; class 'two_unbonds_same_block'."
    }
    fn strategy(&self, tier: Tier) -> BoxedStrategy<Case> {
        let max_ops = tier.pick(40usize, 120usize);
        let free_histories = (
            prop_oneof![Just(1_000_000_000u64), Just(3_600_000_000_000), Just(DAY_NS), Just(14 * DAY_NS)],
            prop::collection::vec(op(), 1..max_ops),
        )
            .prop_map(|(period_ns, mut ops)| {
                // the first epoch must exist before anyone can usefully bond
                ops.insert(0, Op::NewEpoch { caller: 0 });
                Case { period_ns, ops }
            })
            .boxed();
        // directed shape: one address piles up more unbonding records of one denom than one page of the
        // contract's listings holds (30), in different blocks, lets some or all of them mature and
        // withdraws repeatedly
        let many = (
            prop_oneof![Just(1_000_000_000u64), Just(3_600_000_000_000)],
            0u8..4,
            0u8..2,
            31usize..38,
            prop_oneof![Just(Dt::Period), Just(Dt::PeriodPlus1), Just(Dt::PeriodMinus1), Just(Dt::Day)],
            prop::collection::vec(op(), 0..8),
        )
            .prop_map(|(period_ns, user, denom, n, wait, tail)| {
                let mut ops = vec![
                    Op::NewEpoch { caller: 0 },
                    Op::Bond { user, denom, amount: Uint128::new(1u128 << 40), funds: FundsKind::Exact },
                ];
                for i in 0..n {
                    ops.push(Op::Unbond { user, denom, k: 1 + (i as u16 % 5), pick: None });
                    ops.push(Op::Advance { dt: Dt::OneNs });
                }
                ops.push(Op::Advance { dt: wait });
                ops.push(Op::CatchUpEpochs);
                ops.push(Op::Withdraw { user, denom, pick: None });
                ops.push(Op::Withdraw { user, denom, pick: None });
                ops.extend(tail);
                Case { period_ns, ops }
            })
            .boxed();
        let free = free_histories;
        prop_oneof![14 => free, 1 => many].boxed()
    }
    fn cases(&self, tier: Tier) -> u32 {
        tier.pick(20_000, 1_000_000)
    }
    fn min_nontrivial(&self) -> f64 {
        0.02
    }
    fn test(&self, c: &Case, rec: &Rec) -> TResult {
        let mut bw = build_bond_world(c.period_ns, 2).map_err(|e| Fail::new(format!("world build failed: {e}")))?;
        let mut bonded = [[0u128; 3]; 4];
        let mut records: Vec<Record> = vec![];
        let mut matured_withdrawals = 0;
        for (step, op) in c.ops.iter().enumerate() {
            let snap = bw.w.snapshot();
            let now = bw.w.now().nanos();
            let mut rejected = false;
            match op {
                Op::Bond { user, denom, amount, funds } => {
                    let u = (*user % 4) as usize;
                    let d = (*denom % 3) as usize;
                    let usr = bw.user(*user);
                    let a = amount.u128();
                    let coins: Vec<Coin> = match funds {
                        FundsKind::Exact => if a > 0 { vec![coin(a, DENOMS[d])] } else { vec![] },
                        // declared amount a, attached something else: more, one less, half, double, one unit
                        FundsKind::Mismatch => {
                            let sent = match (a / 7) % 5 {
                                0 => a + 1,
                                1 => a.saturating_sub(1),
                                2 => a / 2,
                                3 => a.saturating_mul(2).max(2),
                                _ => if a == 1 { 2 } else { 1 },
                            };
                            if sent == 0 { vec![] } else { vec![coin(sent, DENOMS[d])] }
                        }
                        FundsKind::WrongDenom => vec![coin(a.max(1), DENOMS[(d + 1) % 2])],
                        // the stated asset in full plus a second coin: the fee denom, the other bonding
                        // denom, or the non-whitelisted one
                        FundsKind::Extra => {
                            let other = match (a / 3) % 3 {
                                0 => "uwhale",
                                1 => DENOMS[(d + 1) % 2],
                                _ => DENOMS[2],
                            };
                            let mut v = vec![coin(a.max(1), DENOMS[d])];
                            if other != DENOMS[d] {
                                v.push(coin(1 + (a / 9) % 1000, other));
                            }
                            v.sort_by(|x, y| x.denom.cmp(&y.denom));
                            v
                        }
                        FundsKind::None => vec![],
                    };
                    let bonded_before = bw.bonded_of(&usr, DENOMS[d]);
                    let r = bw.bond(&usr, &native(DENOMS[d]), a, &coins);
                    let acceptable = matches!(funds, FundsKind::Exact) && d < 2 && a > 0;
                    match r {
                        Ok(()) => {
                            // what the statement says about an accepted bond: only whitelisted native assets,
                            // and (after the step, in check_state) the contract's balance of every bonding asset
                            // equals bonded + pending. The model takes the amount the contract itself credits to
                            // the user, so a bond accepted with surplus, short or stray funds is judged by the
                            // balance equation, not by "this message must be refused".
                            ensure!(
                                d < 2,
                                "step {step}: bond of {a} {} (not whitelisted) with funds {coins:?} was accepted",
                                DENOMS[d]
                            );
                            let credited = bw.bonded_of(&usr, DENOMS[d]).saturating_sub(bonded_before);
                            rec.class(if acceptable { "bond_ok" } else { "bond_accepted_with_irregular_funds" });
                            bonded[u][d] += credited;
                        }
                        Err(_) => {
                            rejected = true;
                            rec.class(if acceptable { "bond_rejected_precondition" } else { "bond_rejected_invalid" });
                        }
                    }
                }
                Op::BondCw20 { user, amount } => {
                    let usr = bw.user(*user);
                    let t = bw.cw20.clone();
                    let r = bw.bond(&usr, &token(&t), amount.u128(), &[]);
                    ensure!(r.is_err(), "step {step}: bonding a cw20 token was accepted");
                    rejected = true;
                    rec.class("bond_cw20_rejected");
                }
                Op::Unbond { user, denom, k, pick } => {
                    let (mut user, mut denom) = (*user, *denom);
                    if let Some(p) = pick {
                        let elig: Vec<(u8, u8)> = (0..4u8).flat_map(|u| (0..2u8).map(move |d| (u, d))).filter(|(u, d)| bonded[*u as usize][*d as usize] > 0).collect();
                        if !elig.is_empty() {
                            let e = elig[gen::idx(*p, elig.len())];
                            user = e.0;
                            denom = e.1;
                        }
                    }
                    let (user, denom) = (&user, &denom);
                    let u = (*user % 4) as usize;
                    let d = (*denom % 3) as usize;
                    let usr = bw.user(*user);
                    // one unbond in sixteen asks for more than the user has bonded (up to the global total and beyond)
                    let a = if *k % 16 == 7 {
                        rec.class("unbond_attempt_above_own_bond");
                        bonded[u][d.min(1)] + 1 + (*k as u128 >> 4) * (bonded.iter().map(|b| b[d.min(1)]).sum::<u128>() / 2048 + 1)
                    } else {
                        gen::frac(*k, bonded[u][d.min(1)])
                    };
                    match bw.unbond(&usr, &native(DENOMS[d]), a) {
                        Ok(()) => {
                            ensure!(d < 2 && a > 0 && a <= bonded[u][d], "step {step}: unbond of {a} {} accepted with a bond of {}", DENOMS[d], bonded[u][d.min(1)]);
                            rec.class("unbond_ok");
                            bonded[u][d] -= a;
                            push_record(&mut records, Record { user: u, denom: d, ts: now, amount: a });
                        }
                        Err(_) => rejected = true,
                    }
                }
                Op::UnbondTwice { user, denom, k1, k2 } => {
                    let u = (*user % 4) as usize;
                    let d = (*denom % 2) as usize;
                    let usr = bw.user(*user);
                    let a1 = gen::frac(*k1, bonded[u][d]);
                    if bw.unbond(&usr, &native(DENOMS[d]), a1).is_ok() {
                        bonded[u][d] -= a1;
                        push_record(&mut records, Record { user: u, denom: d, ts: now, amount: a1 });
                        let a2 = gen::frac(*k2, bonded[u][d]);
                        if bw.unbond(&usr, &native(DENOMS[d]), a2).is_ok() {
                            rec.class("two_unbonds_same_block");
                            bonded[u][d] -= a2;
                            push_record(&mut records, Record { user: u, denom: d, ts: now, amount: a2 });
                        }
                    }
                }
                Op::Withdraw { .. } | Op::WithdrawOther { .. } => {
                    let (mut user, mut denom) = match op {
                        Op::Withdraw { user, denom, .. } => (*user, *denom),
                        Op::WithdrawOther { caller, denom } => (*caller, *denom),
                        _ => unreachable!(),
                    };
                    if let Op::Withdraw { pick: Some(p), .. } = op {
                        let mut elig: Vec<(u8, u8)> = records.iter().map(|r| (r.user as u8, r.denom as u8)).collect();
                        elig.sort();
                        elig.dedup();
                        if !elig.is_empty() {
                            let e = elig[gen::idx(*p, elig.len())];
                            user = e.0;
                            denom = e.1;
                        }
                    }
                    let (user, denom) = (&user, &denom);
                    let u = (*user % 4) as usize;
                    let d = (*denom % 3) as usize;
                    let usr = bw.user(*user);
                    // expected: matured records among the oldest 30 of (user, denom)
                    let mut mine: Vec<usize> = (0..records.len())
                        .filter(|i| records[*i].user == u && records[*i].denom == d)
                        .collect();
                    mine.sort_by_key(|i| records[*i].ts);
                    let considered: Vec<usize> = mine.into_iter().take(30).collect();
                    let matured: Vec<usize> = considered
                        .iter()
                        .copied()
                        .filter(|i| records[*i].ts.checked_add(bw.period_ns).map(|t| t <= now).unwrap_or(false))
                        .collect();
                    let expect: u128 = matured.iter().map(|i| records[*i].amount).sum();
                    let wq: Result<lair::WithdrawableResponse, String> = bw.w.query(
                        &bw.lair,
                        &lair::QueryMsg::Withdrawable {
                            address: usr.to_string(),
                            denom: DENOMS[d].to_string(),
                        },
                    );
                    if let Ok(wq) = &wq {
                        ensure!(
                            wq.withdrawable_amount.u128() == expect,
                            "step {step}: Withdrawable({usr},{}) = {} but matured unbondings sum to {expect} (now {now}, period {})",
                            DENOMS[d],
                            wq.withdrawable_amount,
                            bw.period_ns
                        );
                    }
                    let balances_before: Vec<u128> = (0..4).map(|i| bw.w.bank(&bw.user(i as u8), DENOMS[d])).collect();
                    match bw.withdraw(&usr, DENOMS[d]) {
                        Ok(()) => {
                            rec.class("withdraw_ok");
                            for i in 0..4 {
                                let delta = bw.w.bank(&bw.user(i as u8), DENOMS[d]) - balances_before[i];
                                if i == u {
                                    ensure!(
                                        delta == expect,
                                        "step {step}: withdrawal paid {delta} {} to {usr}, but the matured unbondings sum to {expect} (now {now}, period {}, records {:?})",
                                        DENOMS[d],
                                        bw.period_ns,
                                        records.iter().filter(|r| r.user == u && r.denom == d).collect::<Vec<_>>()
                                    );
                                } else {
                                    ensure!(delta == 0, "step {step}: a withdrawal by {usr} paid {delta} to another user");
                                }
                            }
                            if expect > 0 {
                                matured_withdrawals += 1;
                            }
                            let mut keep = vec![];
                            for (i, r) in records.iter().enumerate() {
                                if !matured.contains(&i) {
                                    keep.push(r.clone());
                                }
                            }
                            records = keep;
                        }
                        Err(_) => {
                            rejected = true;
                            // a withdrawal with matured funds must not be refused
                            ensure!(
                                expect == 0,
                                "step {step}: withdrawal of {expect} matured {} by {usr} was rejected",
                                DENOMS[d]
                            );
                        }
                    }
                }
                Op::Advance { dt } => {
                    let ns = match dt {
                        Dt::Zero => 0,
                        Dt::OneNs => 1,
                        Dt::OneSec => 1_000_000_000,
                        Dt::PeriodMinus1 => bw.period_ns - 1,
                        Dt::Period => bw.period_ns,
                        Dt::PeriodPlus1 => bw.period_ns + 1,
                        Dt::Day => DAY_NS,
                        Dt::Ns(n) => *n,
                    };
                    bw.w.advance(ns, if ns > 0 { 1 } else { 0 });
                    continue;
                }
                Op::NewEpoch { caller } => {
                    let who = bw.user(*caller);
                    if bw.new_epoch(&who).is_ok() {
                        rec.class("new_epoch_ok");
                    } else {
                        rejected = true;
                    }
                }
                Op::CatchUpEpochs => {
                    let who = bw.user(0);
                    let mut n = 0;
                    while n < 20 && bw.new_epoch(&who).is_ok() {
                        n += 1;
                    }
                    rec.class_n("new_epoch_ok", n);
                    if n == 0 {
                        rejected = true;
                    }
                }
                Op::Claim { user } => {
                    let who = bw.user(*user);
                    if bw.claim(&who).is_ok() {
                        rec.class("claim_ok");
                    } else {
                        rejected = true;
                    }
                }
                Op::Inflow { amount } => {
                    let owner = bw.w.owner.clone();
                    let c = bw.collector.clone();
                    let _ = bw.w.transfer(&owner, &c, &native("uwhale"), amount.u128());
                }
            }
            if rejected {
                rec.class("rejected");
                let nowsnap = bw.w.snapshot();
                ensure!(
                    nowsnap == snap,
                    "step {step} ({op:?}): rejected operation changed the world: {}",
                    snap.diff(&nowsnap)
                );
            }
            Self::check_state(&bw, &bonded, &records, step, op)?;
        }
        let holders = (0..4).filter(|u| bonded[*u][0] + bonded[*u][1] > 0).count();
        if matured_withdrawals >= 1 && holders >= 1 {
            rec.nontrivial(hash_of(c));
            rec.sample(c);
        }
        Ok(())
    }
}

pub fn property() -> Property {
    Property {
        id: "C08",
        checks: vec![Box::new(BondingHistory)],
        assumptions: vec![
            "the lair runs against the real fee distributor / collector so its preconditions (claim first, epoch is current) are the real ones",
            "Withdraw considers the oldest 30 unbonding records of (user, denom) — the documented page limit — and the model does the same",
            "cw-multi-test 0.16.5 stands in for the chain; block time is owned by the harness",
        ],
    }
}

#[allow(dead_code)]
fn _unused(_: Uint64) {}
