//! C10 — fee pipeline: owed protocol fees reach the epoch, minus only the take rate (full hub:
//! pairs, vaults, router, collector, distributor, lair), with route / pair faults.

use cosmwasm_std::{coin, to_json_binary, Addr, CosmosMsg, Decimal, Empty, Uint128, Uint64, WasmMsg};
use proptest::prelude::*;
use serde::{Deserialize, Serialize};

use white_whale_std::fee_collector as fc;
use white_whale_std::fee_distributor as fd;
use white_whale_std::pool_network::asset::{AssetInfo, PairType};
use white_whale_std::pool_network::{pair, router};
use white_whale_std::vault_network::{vault, vault_router};

use crate::engine::{gen, hash_of, Check, Fail, Property, Rec, TResult, Tier};
use crate::ensure;
use crate::mocks::{purse_contract, PurseMsg};
use crate::refmath::{to_u128, u};
/// the pair's MINIMUM_COLLECTABLE_BALANCE and the collector's MINIMUM_AGGREGABLE_BALANCE as compiled
/// (cfg(wwcore_verif) hooks), so that a tree with other thresholds is judged against its own
fn pair_threshold() -> u128 {
    terraswap_pair::verif_hooks::MINIMUM_COLLECTABLE_BALANCE.u128()
}
fn collector_threshold() -> u128 {
    fee_collector::verif_hooks::MINIMUM_AGGREGABLE_BALANCE.u128()
}

use crate::world::{asset, dec, native, pool_fee, token, vault_fee, World, DAY_NS, START_TIME_S};

pub const FUND: u128 = 1u128 << 110;
pub const USERS: [&str; 3] = ["alice", "bob", "carol"];

#[derive(Clone, Debug, Serialize, Deserialize)]
pub enum TakeRate {
    Inactive,
    Zero,
    OneAtomic,
    Tenth,
    AlmostOne,
    Atomics(Uint128),
}

#[derive(Clone, Debug, Serialize, Deserialize)]
pub enum Op {
    /// swap on pair i (0: uwhale/uusdc, 1: uwhale/tokx, 2: uusdc/uatom)
    Swap { pair: u8, dir: bool, k: u16, user: u8 },
    TinySwap { pair: u8, dir: bool, units: u16, user: u8 },
    /// router flash loan on vault i (0: uwhale, 1: uusdc, 2: tokx) with proceeds covering the fees
    Loan { vault: u8, k: u16, user: u8 },
    /// the same with the amount sized so that the vault's protocol fee on it is `fee_units` base units
    /// (fee states of a vault: 1, just below / at / just above 1000, a few hundred)
    TinyLoan { vault: u8, fee_units: u16, user: u8 },
    /// swap on pair i sized (by bisection over the pair's own Simulation query) so that the pending
    /// protocol fee of the asked asset lands exactly on `target` (999 / 1000 / 1001 = around the pools'
    /// collection threshold, or a random small value)
    SwapToPending { pair: u8, dir: bool, target: u16, user: u8 },
    SetTakeRate { rate: TakeRate, dao: bool },
    /// route management: 0 uusdc->uwhale, 1 tokx->uwhale, 2 uatom->uusdc->uwhale
    AddRoute { which: u8 },
    RemoveRoute { which: u8 },
    DisableSwaps { pair: u8, disabled: bool },
    RemovePair { pair: u8 },
    DrainPair { pair: u8 },
    /// plain transfer of an asset to the collector (0 uwhale, 1 uusdc, 2 tokx, 3 uatom)
    Donate { which: u8, amount: Uint128 },
    /// `inside_loan = Some((vault, k))`: the NewEpoch message is sent from inside a flash loan taken on
    /// that vault through the vault router (payload: NewEpoch, then the repayment), i.e. while the
    /// vault's loan is outstanding
    NewEpoch {
        late_ns: u64,
        caller: u8,
        #[serde(default)]
        inside_loan: Option<(u8, u16)>,
    },
    ForwardFeesBy { caller: u8 },
    Claim { user: u8 },
    /// the distributor's owner raises the grace period by 1 or 2 (an already expired epoch can come
    /// back into the window: its remainder must not be rolled over a second time)
    IncreaseGrace { by: u8 },
}

#[derive(Clone, Debug, Serialize, Deserialize)]
pub struct Case {
    pub pair_fees: [Uint128; 3],
    pub vault_fees: [Uint128; 3],
    pub routes: [bool; 3],
    pub grace: u64,
    pub ops: Vec<Op>,
    /// eleven more registered pairs and eleven more registered vaults (no liquidity, no fees) whose asset
    /// names sort before the three pairs / vaults under observation: the hub then has more children than
    /// one default page of the factories' listings
    #[serde(default)]
    pub many_children: bool,
    /// twenty-eight more registered pairs and vaults instead (names sorting first): each factory then has
    /// 31 children, one more than the single page of 30 `ForwardFees` asks for, and one observed pair
    /// and one observed vault lie beyond that page
    #[serde(default)]
    pub overfull: bool,
}

fn take_rate() -> BoxedStrategy<TakeRate> {
    prop_oneof![
        2 => Just(TakeRate::Inactive),
        1 => Just(TakeRate::Zero),
        1 => Just(TakeRate::OneAtomic),
        3 => Just(TakeRate::Tenth),
        1 => Just(TakeRate::AlmostOne),
        2 => (0u128..1_000_000_000_000_000_000u128).prop_map(|a| TakeRate::Atomics(Uint128::new(a))),
    ]
    .boxed()
}

fn op() -> BoxedStrategy<Op> {
    prop_oneof![
        8 => (0u8..3, any::<bool>(), 1u16..20000, 0u8..3).prop_map(|(pair, dir, k, user)| Op::Swap { pair, dir, k, user }),
        3 => (0u8..3, any::<bool>(), 1u16..3000, 0u8..3).prop_map(|(pair, dir, units, user)| Op::TinySwap { pair, dir, units, user }),
        5 => (0u8..3, 1u16..40000, 0u8..3).prop_map(|(vault, k, user)| Op::Loan { vault, k, user }),
        3 => (0u8..3, prop_oneof![Just(1u16), Just(999), Just(1000), Just(1001), 1u16..1000, 1u16..3000], 0u8..3).prop_map(|(vault, fee_units, user)| Op::TinyLoan { vault, fee_units, user }),
        3 => (0u8..3, any::<bool>(), prop_oneof![1 => Just(999u16), 3 => Just(1000u16), 1 => Just(1001u16), 2 => 1u16..3000], 0u8..3).prop_map(|(pair, dir, target, user)| Op::SwapToPending { pair, dir, target, user }),
        3 => (take_rate(), any::<bool>()).prop_map(|(rate, dao)| Op::SetTakeRate { rate, dao }),
        2 => (0u8..3).prop_map(|which| Op::AddRoute { which }),
        1 => (0u8..3).prop_map(|which| Op::RemoveRoute { which }),
        1 => (0u8..3, any::<bool>()).prop_map(|(pair, disabled)| Op::DisableSwaps { pair, disabled }),
        1 => (0u8..3).prop_map(|pair| Op::RemovePair { pair }),
        1 => (0u8..3).prop_map(|pair| Op::DrainPair { pair }),
        2 => (0u8..4, prop_oneof![2 => gen::amount(1, 1u128 << 60), 2 => gen::amount(1u128 << 60, 1u128 << 100)]).prop_map(|(which, a)| Op::Donate { which, amount: Uint128::new(a) }),
        7 => (prop_oneof![3 => Just(0u64), 1 => 0u64..DAY_NS], 0u8..3, prop_oneof![5 => Just(None), 1 => (0u8..3, 1u16..40000).prop_map(Some)])
            .prop_map(|(late_ns, caller, inside_loan)| Op::NewEpoch { late_ns, caller, inside_loan }),
        1 => (0u8..5).prop_map(|caller| Op::ForwardFeesBy { caller }),
        1 => (0u8..3).prop_map(|user| Op::Claim { user }),
        1 => (1u8..3).prop_map(|by| Op::IncreaseGrace { by }),
    ]
    .boxed()
}

struct Hub {
    w: World,
    assets: Vec<AssetInfo>, // 0 uwhale, 1 uusdc, 2 tokx, 3 uatom
    pairs: Vec<Addr>,
    pair_assets: Vec<[usize; 2]>,
    pair_lp: Vec<Addr>,
    vaults: Vec<Addr>,
    vault_assets: Vec<usize>,
    purse: Addr,
    dao: Addr,
    collector: Addr,
    dist: Addr,
    router: Addr,
    vrouter: Addr,
}

impl Hub {
    fn build(c: &Case) -> Result<Hub, String> {
        let mut w = World::new_with_fund(&USERS, &["uwhale", "uusdc", "uatom", "ampwhale"], FUND);
        w.setup_pool_network();
        w.setup_vault_network();
        let tokx = w.create_cw20_with_fund("tokx", 6, FUND);
        for d in ["uwhale", "uusdc", "uatom"] {
            w.register_native_decimals(d, 6);
        }
        let assets = vec![native("uwhale"), native("uusdc"), token(&tokx), native("uatom")];
        if c.many_children || c.overfull {
            w.register_native_decimals("aaz", 6);
            for i in 0..(if c.overfull { 28 } else { 11 }) {
                let d = if c.overfull { format!("aab{}{}", (b'a' + (i / 26) as u8) as char, (b'a' + (i % 26) as u8) as char) } else { format!("aaa{}", (b'a' + i as u8) as char) };
                w.register_native_decimals(&d, 6);
                w.create_pair([native(&d), native("aaz")], pool_fee([0, 0, 0]), PairType::ConstantProduct).map_err(|e| format!("filler pair {i}: {e}"))?;
                w.create_vault(&native(&d), vault_fee([0, 0, 0])).map_err(|e| format!("filler vault {i}: {e}"))?;
            }
        }
        let pf = [c.pair_fees[0].u128(), c.pair_fees[1].u128(), c.pair_fees[2].u128()];
        let pair_assets = vec![[0usize, 1usize], [0, 2], [1, 3]];
        let mut pairs = vec![];
        let mut pair_lp = vec![];
        for pa in &pair_assets {
            let info = w.create_pair(
                [assets[pa[0]].clone(), assets[pa[1]].clone()],
                pool_fee(pf),
                PairType::ConstantProduct,
            )?;
            pairs.push(Addr::unchecked(info.contract_addr));
            pair_lp.push(match info.liquidity_token {
                AssetInfo::Token { contract_addr } => Addr::unchecked(contract_addr),
                _ => return Err("native lp".into()),
            });
        }
        let vf = [c.vault_fees[0].u128(), c.vault_fees[1].u128(), 0];
        let vault_assets = vec![0usize, 1, 2];
        let mut vaults = vec![];
        for va in &vault_assets {
            let (v, _lp) = w.create_vault(&assets[*va], vault_fee(vf))?;
            vaults.push(v);
        }
        w.setup_fee_hub(
            &["ampwhale"],
            DAY_NS,
            Decimal::one(),
            c.grace,
            DAY_NS,
            START_TIME_S * 1_000_000_000,
            native("uwhale"),
        )?;
        let pcode = w.app.store_code(purse_contract());
        let owner = w.owner.clone();
        let purse = w.instantiate(pcode, &owner, &Empty {}, "purse", None)?;
        for a in assets.iter().take(3) {
            w.transfer(&owner, &purse, a, FUND / 4)?;
        }
        let dao = w.add_account("dao");
        let collector = w.fee_collector.clone().unwrap();
        let dist = w.fee_distributor.clone().unwrap();
        let router = w.router.clone().unwrap();
        let vrouter = w.vault_router.clone().unwrap();
        let mut hub = Hub {
            w,
            assets,
            pairs,
            pair_assets,
            pair_lp,
            vaults,
            vault_assets,
            purse,
            dao,
            collector,
            dist,
            router,
            vrouter,
        };
        // liquidity
        let alice = hub.w.users[0].clone();
        for i in 0..3 {
            hub.provide(i, &alice, 1_000_000_000_000, 2_000_000_000_000)?;
        }
        for i in 0..3 {
            hub.vault_deposit(i, &alice, 5_000_000_000_000)?;
        }
        // a bonder so that claims can happen
        let lair = hub.w.whale_lair.clone().unwrap();
        let _ = hub.new_epoch(&alice).map(|_| ());
        hub.w
            .exec(
                &alice,
                &lair,
                &white_whale_std::whale_lair::ExecuteMsg::Bond {
                    asset: asset(&native("ampwhale"), 1_000_000),
                },
                &[coin(1_000_000, "ampwhale")],
            )
            .map_err(|e| format!("bond: {e}"))?;
        for (i, on) in c.routes.iter().enumerate() {
            if *on {
                let _ = hub.add_route(i);
            }
        }
        Ok(hub)
    }

    fn provide(&mut self, i: usize, who: &Addr, a0: u128, a1: u128) -> Result<(), String> {
        let pa = self.pair_assets[i];
        let mut funds = vec![];
        for (k, amt) in [(pa[0], a0), (pa[1], a1)] {
            match &self.assets[k] {
                AssetInfo::NativeToken { denom } => funds.push(coin(amt, denom)),
                AssetInfo::Token { contract_addr } => {
                    let t = Addr::unchecked(contract_addr);
                    let p = self.pairs[i].clone();
                    self.w.increase_allowance(who, &t, &p, amt);
                }
            }
        }
        funds.sort_by(|a, b| a.denom.cmp(&b.denom));
        let p = self.pairs[i].clone();
        self.w
            .exec(
                who,
                &p,
                &pair::ExecuteMsg::ProvideLiquidity {
                    assets: [asset(&self.assets[pa[0]], a0), asset(&self.assets[pa[1]], a1)],
                    slippage_tolerance: None,
                    receiver: None,
                },
                &funds,
            )
            .map(|_| ())
    }

    fn vault_deposit(&mut self, i: usize, who: &Addr, amt: u128) -> Result<(), String> {
        let v = self.vaults[i].clone();
        match &self.assets[self.vault_assets[i]] {
            AssetInfo::NativeToken { denom } => self
                .w
                .exec(who, &v, &vault::ExecuteMsg::Deposit { amount: Uint128::new(amt) }, &[coin(amt, denom)])
                .map(|_| ()),
            AssetInfo::Token { contract_addr } => {
                let t = Addr::unchecked(contract_addr);
                self.w.increase_allowance(who, &t, &v, amt);
                self.w
                    .exec(who, &v, &vault::ExecuteMsg::Deposit { amount: Uint128::new(amt) }, &[])
                    .map(|_| ())
            }
        }
    }

    fn swap(&mut self, i: usize, dir: bool, amount: u128, who: &Addr) -> Result<(), String> {
        let pa = self.pair_assets[i];
        let oi = if dir { pa[1] } else { pa[0] };
        let p = self.pairs[i].clone();
        match &self.assets[oi] {
            AssetInfo::NativeToken { denom } => self
                .w
                .exec(
                    who,
                    &p,
                    &pair::ExecuteMsg::Swap {
                        offer_asset: asset(&self.assets[oi], amount),
                        belief_price: None,
                        max_spread: Some(dec(500_000_000_000_000_000)),
                        to: None,
                    },
                    &[coin(amount, denom)],
                )
                .map(|_| ()),
            AssetInfo::Token { contract_addr } => {
                let t = Addr::unchecked(contract_addr);
                self.w
                    .cw20_send(
                        who,
                        &t,
                        &p,
                        amount,
                        &pair::Cw20HookMsg::Swap {
                            belief_price: None,
                            max_spread: Some(dec(500_000_000_000_000_000)),
                            to: None,
                        },
                    )
                    .map(|_| ())
            }
        }
    }

    fn reserve(&self, i: usize, asset_idx: usize) -> u128 {
        let r: Result<pair::PoolResponse, _> = self.w.query(&self.pairs[i], &pair::QueryMsg::Pool {});
        r.ok()
            .and_then(|p| p.assets.iter().find(|a| a.info == self.assets[asset_idx]).map(|a| a.amount.u128()))
            .unwrap_or(0)
    }

    /// membership of the three observed pairs / vaults in the first page of 30 of their factory's listing
    fn first_page_membership(&self) -> ([bool; 3], [bool; 3]) {
        use white_whale_std::pool_network::factory as pf;
        use white_whale_std::vault_network::vault_factory as vfm;
        let mut p = [true; 3];
        let mut v = [true; 3];
        if let (Some(f), Some(vf)) = (self.w.factory.clone(), self.w.vault_factory.clone()) {
            let r: Result<pf::PairsResponse, _> = self.w.query(&f, &pf::QueryMsg::Pairs { start_after: None, limit: Some(30) });
            if let Ok(r) = r {
                for i in 0..3 {
                    p[i] = r.pairs.iter().any(|x| x.contract_addr == self.pairs[i].as_str());
                }
            }
            let r: Result<vfm::VaultsResponse, _> = self.w.query(&vf, &vfm::QueryMsg::Vaults { start_after: None, limit: Some(30) });
            if let Ok(r) = r {
                for i in 0..3 {
                    v[i] = r.vaults.iter().any(|x| x.vault == self.vaults[i].as_str());
                }
            }
        }
        (p, v)
    }

    fn pair_pending(&self, i: usize) -> Vec<(usize, u128)> {
        let r: Result<pair::ProtocolFeesResponse, _> = self.w.query(
            &self.pairs[i],
            &pair::QueryMsg::ProtocolFees {
                asset_id: None,
                all_time: None,
            },
        );
        let mut out = vec![];
        if let Ok(f) = r {
            for k in self.pair_assets[i] {
                let a = f.fees.iter().find(|a| a.info == self.assets[k]).map(|a| a.amount.u128()).unwrap_or(0);
                out.push((k, a));
            }
        }
        out
    }

    fn vault_pending(&self, i: usize) -> u128 {
        let r: Result<vault::ProtocolFeesResponse, _> =
            self.w.query(&self.vaults[i], &vault::QueryMsg::ProtocolFees { all_time: false });
        r.map(|f| f.fees.amount.u128()).unwrap_or(0)
    }

    fn route_def(&self, which: usize) -> router::SwapRoute {
        let hop = |a: usize, b: usize| router::SwapOperation::TerraSwap {
            offer_asset_info: self.assets[a].clone(),
            ask_asset_info: self.assets[b].clone(),
        };
        match which {
            0 => router::SwapRoute {
                offer_asset_info: self.assets[1].clone(),
                ask_asset_info: self.assets[0].clone(),
                swap_operations: vec![hop(1, 0)],
            },
            1 => router::SwapRoute {
                offer_asset_info: self.assets[2].clone(),
                ask_asset_info: self.assets[0].clone(),
                swap_operations: vec![hop(2, 0)],
            },
            _ => router::SwapRoute {
                offer_asset_info: self.assets[3].clone(),
                ask_asset_info: self.assets[0].clone(),
                swap_operations: vec![hop(3, 1), hop(1, 0)],
            },
        }
    }

    fn add_route(&mut self, which: usize) -> Result<(), String> {
        let owner = self.w.owner.clone();
        let r = self.router.clone();
        let def = self.route_def(which);
        self.w
            .exec(&owner, &r, &router::ExecuteMsg::AddSwapRoutes { swap_routes: vec![def] }, &[])
            .map(|_| ())
    }

    fn remove_route(&mut self, which: usize) -> Result<(), String> {
        let owner = self.w.owner.clone();
        let r = self.router.clone();
        let def = self.route_def(which);
        self.w
            .exec(&owner, &r, &router::ExecuteMsg::RemoveSwapRoutes { swap_routes: vec![def] }, &[])
            .map(|_| ())
    }

    fn new_epoch(&mut self, who: &Addr) -> crate::world::ExecResult {
        let d = self.dist.clone();
        self.w.exec(who, &d, &fd::ExecuteMsg::NewEpoch {}, &[])
    }

    /// protocol fees charged by swaps executed inside a transaction, per (pair index, asset index),
    /// read from the swap events (claims validated by C07)
    fn swap_fees_in(&self, resp: &cw_multi_test::AppResponse) -> Result<Vec<[u128; 4]>, Fail> {
        let mut out = vec![[0u128; 4]; self.pairs.len()];
        for ev in &resp.events {
            if ev.ty != "wasm" {
                continue;
            }
            let get = |k: &str| ev.attributes.iter().find(|a| a.key == k).map(|a| a.value.clone());
            if get("action").as_deref() != Some("swap") {
                continue;
            }
            let Some(addr) = get("_contract_addr") else { continue };
            let Some(pi) = self.pairs.iter().position(|p| p.as_str() == addr) else { continue };
            let (Some(ask), Some(fee)) = (get("ask_asset"), get("protocol_fee_amount").and_then(|v| v.parse::<u128>().ok())) else {
                return Err(Fail::unobservable("a swap event of a registered pair carries no parsable ask_asset / protocol_fee_amount attributes"));
            };
            if let Some(ai) = self.assets.iter().position(|a| a.to_string() == ask) {
                out[pi][ai] += fee;
            }
        }
        Ok(out)
    }

    fn current_epoch(&self) -> Result<fd::Epoch, String> {
        let r: fd::EpochResponse = self.w.query(&self.dist, &fd::QueryMsg::CurrentEpoch {})?;
        Ok(r.epoch)
    }

    fn collector_config(&self) -> Result<fc::Config, String> {
        self.w.query(&self.collector, &fc::QueryMsg::Config {})
    }
}

fn uw(v: &[white_whale_std::pool_network::asset::Asset]) -> u128 {
    v.iter().filter(|a| a.info == native("uwhale")).map(|a| a.amount.u128()).sum()
}

pub struct FeePipeline;

impl Check for FeePipeline {
    type Case = Case;
    fn name(&self) -> &'static str {
        "fee_pipeline_new_epoch"
    }
    fn rule(&self) -> &'static str {
        "full hub: 3 constant-product pairs (uwhale/uusdc, uwhale/cw20, uusdc/uatom), 3 vaults (uwhale, uusdc, cw20), pool router with generated initial routes to the distribution asset (1-hop, 1-hop cw20, 2-hop), collector, distributor (grace 1..4), lair; up to 40/100 operations {swaps, tiny swaps and swaps sized by bisection over the Simulation query so that a pair's pending fee lands exactly on 999 / 1000 / 1001 (fee states 0 / <= 1000 / exactly the threshold / above), router flash loans and tiny router flash loans (vault fee states 1 / 999 / 1000 / 1001 / a few hundred), take-rate changes in {inactive, 0, 1e-18, 0.1, ~1, random} with/without DAO address, add/remove route, disable swaps on a pair (simulation passes, execution fails), de-register a pair, drain a pair's liquidity, donations to the collector, ForwardFees by non-distributors, claims, grace-period increases, NewEpoch on time or late}; one hub in eight has 14 children per factory (more than a default page), one in twenty-five has 31 (more than the page of 30 ForwardFees asks for: an observed pair and vault beyond it keep their fees — listed finding forward-fees-single-page — and the rest of the oracle goes on). Oracle per NewEpoch: failure => world snapshot unchanged; success => every registered pair's pending entries above 1000 and every vault's pending fees are 0 and what left them arrived in the collector, each non-distribution asset in the collector is either untouched (+collected) or fully swapped (0), the pool router holds nothing, DAO delta == floor(rate * (DAO delta + distributor inflow)) iff the take rate is active (and TakeRateHistory records it) else 0, distributor inflow == new epoch total - rolled-over remainder, the collector's distribution-asset balance is 0 afterwards. ForwardFees from anyone but the distributor is rejected. Non-trivial: a successful NewEpoch with non-zero collected fees from >= 1 pair and >= 1 vault."
    }
    fn strategy(&self, tier: Tier) -> BoxedStrategy<Case> {
        let max_ops = tier.pick(40usize, 100usize);
        (
            gen::small_fee_triple(),
            gen::small_fee_triple(),
            any::<[bool; 3]>(),
            1u64..=4,
            prop::collection::vec(op(), 3..max_ops),
            proptest::bool::weighted(0.12),
            proptest::bool::weighted(0.04),
        )
            .prop_map(|(pf, vf, routes, grace, ops, many_children, overfull)| Case {
                // protocol fee never zero-only so that the pipeline has something to move
                pair_fees: [Uint128::new(pf[0].max(1_000_000_000_000_000)), Uint128::new(pf[1]), Uint128::new(pf[2])],
                vault_fees: [Uint128::new(vf[0].max(1_000_000_000_000_000)), Uint128::new(vf[1]), Uint128::zero()],
                routes,
                grace,
                ops,
                many_children: many_children && !overfull,
                overfull,
            })
            .boxed()
    }
    fn cases(&self, tier: Tier) -> u32 {
        tier.pick(12_000, 800_000)
    }
    fn min_nontrivial(&self) -> f64 {
        0.05
    }
    fn test(&self, c: &Case, rec: &Rec) -> TResult {
        if c.many_children {
            rec.class("hub_with_more_children_than_one_listing_page");
        }
        if c.overfull {
            rec.class("hub_with_31_children_per_factory");
        }
        let mut h = Hub::build(c).map_err(|e| Fail::new(format!("world build failed: {e}")))?;
        let mut registered = [true; 3];
        let mut nontrivial_epochs = 0;
        for (step, op) in c.ops.iter().enumerate() {
            match op {
                Op::Swap { pair, dir, k, user } => {
                    let i = (*pair % 3) as usize;
                    let pa = h.pair_assets[i];
                    let oi = if *dir { pa[1] } else { pa[0] };
                    let amt = gen::frac(*k, h.reserve(i, oi)).max(1);
                    let who = h.w.users[(*user % 3) as usize].clone();
                    if h.swap(i, *dir, amt, &who).is_ok() {
                        rec.class("swap_ok");
                    }
                }
                Op::TinySwap { pair, dir, units, user } => {
                    let who = h.w.users[(*user % 3) as usize].clone();
                    if h.swap((*pair % 3) as usize, *dir, *units as u128, &who).is_ok() {
                        rec.class("tiny_swap_ok");
                    }
                }
                Op::SwapToPending { pair, dir, target, user } => {
                    let i = (*pair % 3) as usize;
                    let who = h.w.users[(*user % 3) as usize].clone();
                    let pa = h.pair_assets[i];
                    let (oi, ai) = if *dir { (pa[1], pa[0]) } else { (pa[0], pa[1]) };
                    let pending = h.pair_pending(i).iter().find(|(k, _)| *k == ai).map(|(_, a)| *a).unwrap_or(0);
                    let target = *target as u128;
                    if pending >= target {
                        continue;
                    }
                    let need = target - pending;
                    let fee_of = |h: &Hub, x: u128| -> Option<u128> {
                        let r: Result<pair::SimulationResponse, _> =
                            h.w.query(&h.pairs[i], &pair::QueryMsg::Simulation { offer_asset: asset(&h.assets[oi], x) });
                        r.ok().map(|s| s.protocol_fee_amount.u128())
                    };
                    let cap = h.w.bal(&h.assets[oi], &h.pairs[i]).saturating_mul(2).min(h.w.bal(&h.assets[oi], &who));
                    let (mut lo, mut hi) = (1u128, cap);
                    if hi < 1 || fee_of(&h, hi).map(|f| f < need).unwrap_or(true) {
                        continue;
                    }
                    while lo < hi {
                        let mid = lo + (hi - lo) / 2;
                        match fee_of(&h, mid) {
                            Some(f) if f >= need => hi = mid,
                            _ => lo = mid + 1,
                        }
                    }
                    if fee_of(&h, lo) != Some(need) {
                        continue;
                    }
                    if h.swap(i, *dir, lo, &who).is_ok() {
                        rec.class("swap_to_pending_fee_target_ok");
                        if target == pair_threshold() {
                            rec.class("pair_pending_fee_exactly_at_collection_threshold");
                        }
                    }
                }
                Op::Loan { .. } | Op::TinyLoan { .. } => {
                    let (vault, user) = match op {
                        Op::Loan { vault, user, .. } | Op::TinyLoan { vault, user, .. } => (vault, user),
                        _ => unreachable!(),
                    };
                    let i = (*vault % 3) as usize;
                    let info = h.assets[h.vault_assets[i]].clone();
                    let bal = h.w.bal(&info, &h.vaults[i]);
                    let amt = match op {
                        Op::Loan { k, .. } => gen::frac(*k, bal).max(1),
                        // smallest amount whose protocol fee floors to fee_units
                        Op::TinyLoan { fee_units, .. } => {
                            let share = c.vault_fees[0].u128().max(1);
                            let a = to_u128((u(*fee_units as u128) * u(1_000_000_000_000_000_000) + u(share - 1)) / u(share)).unwrap_or(1);
                            rec.class("tiny_loan");
                            a.clamp(1, bal.max(1))
                        }
                        _ => unreachable!(),
                    };
                    let who = h.w.users[(*user % 3) as usize].clone();
                    let pay: CosmosMsg = WasmMsg::Execute {
                        contract_addr: h.purse.to_string(),
                        msg: to_json_binary(&PurseMsg::Pay {
                            asset: info.clone(),
                            amount: Uint128::new(amt / 2 + 10),
                            to: h.vrouter.to_string(),
                        })
                        .unwrap(),
                        funds: vec![],
                    }
                    .into();
                    let vr = h.vrouter.clone();
                    if h
                        .w
                        .exec(
                            &who,
                            &vr,
                            &vault_router::ExecuteMsg::FlashLoan {
                                assets: vec![asset(&info, amt)],
                                msgs: vec![pay],
                            },
                            &[],
                        )
                        .is_ok()
                    {
                        rec.class("loan_ok");
                    }
                }
                Op::SetTakeRate { rate, dao } => {
                    let (active, r) = match rate {
                        TakeRate::Inactive => (false, None),
                        TakeRate::Zero => (true, Some(Decimal::zero())),
                        TakeRate::OneAtomic => (true, Some(dec(1))),
                        TakeRate::Tenth => (true, Some(dec(100_000_000_000_000_000))),
                        TakeRate::AlmostOne => (true, Some(dec(999_999_999_999_999_999))),
                        TakeRate::Atomics(a) => (true, Some(dec(a.u128()))),
                    };
                    let owner = h.w.owner.clone();
                    let col = h.collector.clone();
                    let _ = h.w.exec(
                        &owner,
                        &col,
                        &fc::ExecuteMsg::UpdateConfig {
                            owner: None,
                            pool_router: None,
                            fee_distributor: None,
                            pool_factory: None,
                            vault_factory: None,
                            take_rate: r,
                            take_rate_dao_address: if *dao { Some(h.dao.to_string()) } else { None },
                            is_take_rate_active: Some(active),
                        },
                        &[],
                    );
                }
                Op::AddRoute { which } => {
                    let _ = h.add_route((*which % 3) as usize);
                }
                Op::RemoveRoute { which } => {
                    let _ = h.remove_route((*which % 3) as usize);
                }
                Op::DisableSwaps { pair, disabled } => {
                    let owner = h.w.owner.clone();
                    let f = h.w.factory.clone().unwrap();
                    let _ = h.w.exec(
                        &owner,
                        &f,
                        &white_whale_std::pool_network::factory::ExecuteMsg::UpdatePairConfig {
                            pair_addr: h.pairs[(*pair % 3) as usize].to_string(),
                            owner: None,
                            fee_collector_addr: None,
                            pool_fees: None,
                            feature_toggle: Some(pair::FeatureToggle {
                                withdrawals_enabled: true,
                                deposits_enabled: true,
                                swaps_enabled: !*disabled,
                            }),
                        },
                        &[],
                    );
                }
                Op::RemovePair { pair } => {
                    let i = (*pair % 3) as usize;
                    let pa = h.pair_assets[i];
                    let owner = h.w.owner.clone();
                    let f = h.w.factory.clone().unwrap();
                    if h
                        .w
                        .exec(
                            &owner,
                            &f,
                            &white_whale_std::pool_network::factory::ExecuteMsg::RemovePair {
                                asset_infos: [h.assets[pa[0]].clone(), h.assets[pa[1]].clone()],
                            },
                            &[],
                        )
                        .is_ok()
                    {
                        registered[i] = false;
                        rec.class("pair_deregistered");
                    }
                }
                Op::DrainPair { pair } => {
                    let i = (*pair % 3) as usize;
                    let alice = h.w.users[0].clone();
                    let lp = h.pair_lp[i].clone();
                    let p = h.pairs[i].clone();
                    let bal = h.w.cw20_balance(&lp, &alice);
                    if bal > 0 && h.w.cw20_send(&alice, &lp, &p, bal, &pair::Cw20HookMsg::WithdrawLiquidity {}).is_ok() {
                        rec.class("pair_drained");
                    }
                }
                Op::Donate { which, amount } => {
                    let owner = h.w.owner.clone();
                    let col = h.collector.clone();
                    let a = h.assets[(*which % 4) as usize].clone();
                    let _ = h.w.transfer(&owner, &col, &a, amount.u128());
                }
                Op::Claim { user } => {
                    let who = h.w.users[(*user % 3) as usize].clone();
                    let d = h.dist.clone();
                    let _ = h.w.exec(&who, &d, &fd::ExecuteMsg::Claim {}, &[]);
                }
                Op::IncreaseGrace { by } => {
                    let owner = h.w.owner.clone();
                    let d = h.dist.clone();
                    let cur: fd::Config = h.w.query(&d, &fd::QueryMsg::Config {}).map_err(Fail::new)?;
                    let to = cur.grace_period.u64() + *by as u64;
                    if h
                        .w
                        .exec(
                            &owner,
                            &d,
                            &fd::ExecuteMsg::UpdateConfig { owner: None, bonding_contract_addr: None, fee_collector_addr: None, grace_period: Some(Uint64::new(to)), distribution_asset: None, epoch_config: None },
                            &[],
                        )
                        .is_ok()
                    {
                        rec.class("grace_increased");
                    }
                }
                Op::ForwardFeesBy { caller } => {
                    let who = match *caller {
                        3 => h.w.owner.clone(),
                        4 => h.collector.clone(),
                        u => h.w.users[(u % 3) as usize].clone(),
                    };
                    let snap = h.w.snapshot();
                    let epoch = h.current_epoch().map_err(Fail::new)?;
                    let col = h.collector.clone();
                    let r = h.w.exec(
                        &who,
                        &col,
                        &fc::ExecuteMsg::ForwardFees {
                            epoch,
                            forward_fees_as: native("uwhale"),
                        },
                        &[],
                    );
                    ensure!(r.is_err(), "step {step}: ForwardFees sent by {who} (not the fee distributor) was accepted");
                    let s2 = h.w.snapshot();
                    ensure!(s2 == snap, "step {step}: rejected ForwardFees changed the world: {}", snap.diff(&s2));
                    rec.class("forward_fees_unauthorised_rejected");
                }
                Op::NewEpoch { late_ns, caller, inside_loan } => {
                    let cur = h.current_epoch().map_err(Fail::new)?;
                    let now = h.w.now().nanos();
                    let target = cur.start_time.nanos() + DAY_NS + late_ns;
                    if target > now {
                        h.w.advance(target - now, 1);
                    }
                    let who = h.w.users[(*caller % 3) as usize].clone();
                    // observations before
                    let cfg = h.collector_config().map_err(Fail::new)?;
                    let pend_pairs: Vec<Vec<(usize, u128)>> = (0..3).map(|i| h.pair_pending(i)).collect();
                    let pend_vaults: Vec<u128> = (0..3).map(|i| h.vault_pending(i)).collect();
                    // which observed children are on the one page of 30 that ForwardFees asks each factory for
                    let (on_page_pair, on_page_vault) = h.first_page_membership();
                    let col_before: Vec<u128> = h.assets.iter().map(|a| h.w.bal(a, &h.collector)).collect();
                    let dist_before = h.w.bank(&h.dist, "uwhale");
                    let dao_before = h.w.bank(&h.dao, "uwhale");
                    let grace: fd::Config = h.w.query(&h.dist, &fd::QueryMsg::Config {}).map_err(Fail::new)?;
                    let g = grace.grace_period.u64();
                    // expiring epoch = oldest of the last g epochs
                    let n = cur.id.u64();
                    let rolled = if n >= g && g > 0 {
                        let e: fd::EpochResponse = h
                            .w
                            .query(&h.dist, &fd::QueryMsg::Epoch { id: Uint64::new(n - g + 1) })
                            .map_err(Fail::new)?;
                        uw(&e.epoch.available)
                    } else {
                        0
                    };
                    let snap = h.w.snapshot();
                    // protocol fee the enclosing loan (if any) leaves pending in its vault after the epoch's collection
                    let mut loan_fee = [0u128; 3];
                    let r = match inside_loan {
                        None => h.new_epoch(&who),
                        Some((vault, k)) => {
                            rec.class("new_epoch_attempt_inside_a_flash_loan");
                            let i = (*vault % 3) as usize;
                            let info = h.assets[h.vault_assets[i]].clone();
                            let bal = h.w.bal(&info, &h.vaults[i]);
                            let amt = gen::frac(*k, bal).max(1);
                            loan_fee[i] = to_u128(u(amt) * u(c.vault_fees[0].u128()) / u(1_000_000_000_000_000_000)).unwrap();
                            let epoch_msg: CosmosMsg = WasmMsg::Execute { contract_addr: h.dist.to_string(), msg: to_json_binary(&fd::ExecuteMsg::NewEpoch {}).unwrap(), funds: vec![] }.into();
                            let pay: CosmosMsg = WasmMsg::Execute {
                                contract_addr: h.purse.to_string(),
                                msg: to_json_binary(&PurseMsg::Pay { asset: info.clone(), amount: Uint128::new(amt / 2 + 10), to: h.vrouter.to_string() }).unwrap(),
                                funds: vec![],
                            }
                            .into();
                            let vr = h.vrouter.clone();
                            h.w.exec(&who, &vr, &vault_router::ExecuteMsg::FlashLoan { assets: vec![asset(&info, amt)], msgs: vec![epoch_msg, pay] }, &[])
                        }
                    };
                    let resp = match r {
                        Err(_) => {
                            rec.class("new_epoch_rejected");
                            let s2 = h.w.snapshot();
                            ensure!(s2 == snap, "step {step}: failed NewEpoch changed the world: {}", snap.diff(&s2));
                            continue;
                        }
                        Ok(resp) => resp,
                    };
                    rec.class("new_epoch_ok");
                    // swaps executed by the aggregation charge new protocol fees in the pairs they cross
                    let agg_fees = h.swap_fees_in(&resp)?;
                    // (1) pending fees collected
                    let mut collected = vec![0u128; 4];
                    let mut from_pairs = 0u128;
                    let mut from_vaults = 0u128;
                    for i in 0..3 {
                        let after = h.pair_pending(i);
                        for (j, (k, before_amt)) in pend_pairs[i].iter().enumerate() {
                            let a = after[j].1;
                            let added = agg_fees[i][*k];
                            if registered[i] && !on_page_pair[i] && *before_amt > 0 && a == *before_amt + added {
                                // listed finding: a registered pair beyond the 30th entry of the factory's listing is
                                // not visited by ForwardFees (one fixed page per factory); the entry stays pending
                                if *before_amt > pair_threshold() {
                                    rec.known_or_fail(
                                        "forward-fees-single-page",
                                        format!("step {step}: registered pair {i} lies beyond the first 30 entries of the pool factory's listing and kept its pending {before_amt} of asset {k} across NewEpoch"),
                                    )?;
                                }
                            } else if registered[i] {
                                // An entry above the pool's collection threshold must be collected; a smaller one is
                                // either collected or left as it was (the statement gives no number for the
                                // threshold; the pool's own constant, read through a hook, bounds what may stay behind).
                                let kept = if *before_amt <= pair_threshold() && a == *before_amt + added { *before_amt } else { 0 };
                                if kept != 0 {
                                    rec.class("sub_threshold_entry_left_in_pool");
                                }
                                ensure!(
                                    a == kept + added,
                                    "step {step}: pair {i} owes {a} of asset {k} after NewEpoch (was {before_amt}, aggregation swaps added {added}); expected {}",
                                    kept + added
                                );
                                collected[*k] += before_amt - kept;
                                from_pairs += before_amt - kept;
                            } else {
                                ensure!(a == *before_amt + added, "step {step}: de-registered pair {i} was collected");
                            }
                        }
                    }
                    for i in 0..3 {
                        let a = h.vault_pending(i);
                        if !on_page_vault[i] && pend_vaults[i] > 0 && a == pend_vaults[i] + loan_fee[i] {
                            rec.known_or_fail(
                                "forward-fees-single-page",
                                format!("step {step}: registered vault {i} lies beyond the first 30 entries of the vault factory's listing and kept its pending {} across NewEpoch", pend_vaults[i]),
                            )?;
                            continue;
                        }
                        ensure!(
                            a == loan_fee[i],
                            "step {step}: vault {i} owes {a} after NewEpoch (was {}; the enclosing loan's own protocol fee is {})",
                            pend_vaults[i],
                            loan_fee[i]
                        );
                        if (1..=1000).contains(&pend_vaults[i]) {
                            rec.class("vault_fee_of_at_most_1000_collected");
                        }
                        if inside_loan.is_some() && pend_vaults[i] > 0 {
                            rec.class("vault_fees_collected_by_an_epoch_created_inside_a_loan");
                        }
                        collected[h.vault_assets[i]] += pend_vaults[i];
                        from_vaults += pend_vaults[i];
                    }
                    // (2) non-distribution assets: untouched (+collected) or fully swapped
                    for k in 1..4 {
                        let after = h.w.bal(&h.assets[k], &h.collector);
                        let untouched = col_before[k] + collected[k];
                        ensure!(
                            after == untouched || after == 0,
                            "step {step}: collector's balance of asset {k} went {} (+{} collected) -> {after}: neither untouched nor fully swapped",
                            col_before[k],
                            collected[k]
                        );
                        if after == 0 && untouched > 0 {
                            rec.class("asset_swapped");
                        } else if untouched > 0 {
                            rec.class("asset_left_in_collector");
                            // Leaving an asset is only legitimate when the pipeline had no swap to
                            // try: at most MINIMUM_AGGREGABLE_BALANCE (1000), not an asset of a
                            // registered pool or vault, no registered route, or a route whose
                            // simulation fails. Otherwise a swap was issued, and since a failed
                            // step must undo the whole NewEpoch, a successful NewEpoch cannot leave
                            // the asset behind. (None of these conditions changes inside NewEpoch:
                            // registrations and routes are untouched and the constant-product
                            // simulation succeeds for any positive reserves.)
                            let listed = (0..3).any(|i| registered[i] && on_page_pair[i] && h.pair_assets[i].contains(&k))
                                || (0..3).any(|i| on_page_vault[i] && h.vault_assets[i] == k);
                            if untouched > collector_threshold() && listed {
                                let route: Result<Vec<router::SwapOperation>, String> = h.w.query(
                                    &h.router,
                                    &router::QueryMsg::SwapRoute { offer_asset_info: h.assets[k].clone(), ask_asset_info: h.assets[0].clone() },
                                );
                                if let Ok(ops) = route {
                                    let sim: Result<router::SimulateSwapOperationsResponse, String> = h.w.query(
                                        &h.router,
                                        &router::QueryMsg::SimulateSwapOperations { offer_amount: Uint128::new(after), operations: ops },
                                    );
                                    rec.class("left_asset_had_a_route");
                                    ensure!(
                                        sim.is_err(),
                                        "step {step}: NewEpoch succeeded and left {after} of asset {k} in the collector although it is above the aggregation threshold, listed by a registered pool or vault, routed, and the route's simulation succeeds ({:?}): the swap step must have been attempted and failed, and a failed step must leave every balance unchanged",
                                        sim.as_ref().ok().map(|r| r.amount)
                                    );
                                }
                            }
                        }
                    }
                    // (3) router keeps nothing
                    for k in 0..4 {
                        let rb = h.w.bal(&h.assets[k], &h.router);
                        ensure!(rb == 0, "step {step}: the pool router holds {rb} of asset {k} after NewEpoch");
                    }
                    // (4) take rate
                    let dao_delta = h.w.bank(&h.dao, "uwhale") - dao_before;
                    let dist_in = h.w.bank(&h.dist, "uwhale") - dist_before;
                    let active = cfg.is_take_rate_active && !cfg.take_rate.is_zero() && !cfg.take_rate_dao_address.as_str().is_empty();
                    let new = h.current_epoch().map_err(Fail::new)?;
                    if active {
                        let base = u(dao_delta) + u(dist_in);
                        let want = to_u128(base * u(cfg.take_rate.atomics().u128()) / u(1_000_000_000_000_000_000)).unwrap();
                        ensure!(
                            dao_delta == want,
                            "step {step}: DAO received {dao_delta}, expected floor({} * {}) = {want}",
                            cfg.take_rate,
                            base
                        );
                        rec.class("take_rate_active");
                        let hist: Result<cosmwasm_std::Coin, _> = h.w.query(
                            &h.collector,
                            &fc::QueryMsg::TakeRateHistory { epoch_id: new.id },
                        );
                        if want > 0 {
                            match hist {
                                Ok(cn) => ensure!(
                                    cn.amount.u128() == want && cn.denom == "uwhale",
                                    "step {step}: TakeRateHistory({}) = {cn}, expected {want}uwhale",
                                    new.id
                                ),
                                Err(e) => return Err(Fail::new(format!("step {step}: TakeRateHistory({}) missing: {e}", new.id))),
                            }
                        }
                    } else {
                        ensure!(dao_delta == 0, "step {step}: the take rate is not active but the DAO received {dao_delta}");
                    }
                    // (5) distributor inflow == new total − rolled over
                    ensure!(
                        new.id.u64() == n + 1,
                        "step {step}: epoch id went {n} -> {}",
                        new.id
                    );
                    ensure!(
                        uw(&new.total) == dist_in + rolled && uw(&new.available) == uw(&new.total),
                        "step {step}: new epoch total {} / available {} but {dist_in} reached the distributor and {rolled} rolled over",
                        uw(&new.total),
                        uw(&new.available)
                    );
                    // (6) collector forwarded all of the distribution asset
                    let left = h.w.bank(&h.collector, "uwhale");
                    ensure!(left == 0, "step {step}: the collector kept {left} of the distribution asset");
                    if from_pairs > 0 && from_vaults > 0 {
                        nontrivial_epochs += 1;
                    }
                }
            }
        }
        if nontrivial_epochs >= 1 {
            rec.nontrivial(hash_of(c));
            rec.sample(c);
        }
        Ok(())
    }
}

pub fn property() -> Property {
    Property {
        id: "C10",
        checks: vec![Box::new(FeePipeline)],
        assumptions: vec![
            "ForwardFees collects pairs and vaults (limit 30 each); trios are not collected by it and are outside the property's quantifier",
            "a NewEpoch that fails because a routed swap fails at execution (spread, disabled swaps) is a rejected transaction: only 'nothing changed' is claimed for it",
            "cw-multi-test 0.16.5 stands in for the chain",
        ],
    }
}
