//! C01 — constant-product pool: solvent, LP value never falls (stateful, real pair through the
//! real factory under cw-multi-test).

use cosmwasm_std::{Decimal, Uint128};
use proptest::prelude::*;
use serde::{Deserialize, Serialize};

use crate::engine::{gen, hash_of, Check, Fail, Property, Rec, TResult, Tier};
use crate::pools::{fees_u, PairCfg, PairWorld, PoolView, USER_FUND};
use crate::refmath::u;
use crate::world::dec;
use crate::{ensure, ensure_sig};

#[derive(Clone, Debug, Serialize, Deserialize)]
pub enum Amt {
    Abs(Uint128),
    /// k/65536 of the pool reserve of the asset concerned
    OfReserve(u16),
    /// k/65536 of the sender's balance
    OfBalance(u16),
}

#[derive(Clone, Debug, Serialize, Deserialize)]
pub enum Spread {
    Default,
    Half,
    Tight,
    Belief(u16),
}

#[derive(Clone, Debug, Serialize, Deserialize)]
pub enum Op {
    Provide {
        user: u8,
        a0: Amt,
        a1: Amt,
        slippage: Option<u8>,
        receiver: Option<u8>,
        /// list the assets in the message in the opposite order to the pool's own
        #[serde(default)]
        reversed: bool,
        /// how the attached native funds / cw20 allowances relate to the declared amounts
        /// (pools::distort_funds: 0 exact, 1 one short, 2 half, 3 none, 4 one more, 5 extra denom)
        #[serde(default)]
        funds: u8,
    },
    /// deposit in the pool's current ratio: k/65536 of reserve 0 and the matching amount of 1
    ProvideBalanced { user: u8, k: u16 },
    Withdraw { user: u8, k: u16 },
    Swap {
        user: u8,
        dir: bool,
        amt: Amt,
        spread: Spread,
        to: Option<u8>,
        #[serde(default)]
        funds: u8,
    },
    Collect { caller: u8 },
    /// adversarial: the direct `WithdrawLiquidity {}` message (token-factory LP pools) with one
    /// native coin of denom uaaa / uaaab / uccc attached, sent to this cw20-LP pool
    WithdrawDirect { user: u8, denom: u8, amount: Uint128 },
    /// adversarial: a cw20 Receive hook from the wrong place (pools::PairWorld::forged_hook)
    ForgedHook { user: u8, via: u8, swap_hook: bool, amount: Uint128 },
    /// directed shape: a swap sized (by bisection over the pool's own Simulation query) so that the
    /// pending protocol fee of the ask asset lands exactly on `target` (the collection threshold
    /// and its neighbours); with `then_collect` a separate, separately judged Collect step follows
    SwapToPending { user: u8, dir: bool, target: u16, then_collect: bool },
    SetFees { fees: [Uint128; 3] },
    Donate { user: u8, which: bool, amt: Amt },
    /// deposit then immediately withdraw the minted shares
    ProvideThenWithdraw { user: u8, a0: Amt, a1: Amt },
    AdvanceBlock,
}

#[derive(Clone, Debug, Serialize, Deserialize)]
pub struct Case {
    pub cfg: PairCfg,
    pub ops: Vec<Op>,
}

pub fn amt() -> BoxedStrategy<Amt> {
    prop_oneof![
        5 => gen::amount(0, USER_FUND).prop_map(|a| Amt::Abs(Uint128::new(a))),
        3 => any::<u16>().prop_map(Amt::OfReserve),
        2 => any::<u16>().prop_map(Amt::OfBalance),
    ]
    .boxed()
}

fn small_amt() -> BoxedStrategy<Amt> {
    prop_oneof![
        5 => gen::amount(1, 1u128 << 90).prop_map(|a| Amt::Abs(Uint128::new(a))),
        4 => (0u16..20000).prop_map(Amt::OfReserve),
        1 => any::<u16>().prop_map(Amt::OfBalance),
    ]
    .boxed()
}

fn spread() -> BoxedStrategy<Spread> {
    prop_oneof![
        1 => Just(Spread::Default),
        6 => Just(Spread::Half),
        1 => Just(Spread::Tight),
        1 => any::<u16>().prop_map(Spread::Belief),
    ]
    .boxed()
}

fn fee_arr() -> BoxedStrategy<[Uint128; 3]> {
    prop_oneof![
        3 => gen::small_fee_triple(),
        1 => gen::valid_fee_triple(),
    ]
    .prop_map(|f| [Uint128::new(f[0]), Uint128::new(f[1]), Uint128::new(f[2])])
    .boxed()
}

/// mostly exact funds; the rest spread over the distortions of pools::distort_funds
pub fn funds_mode() -> BoxedStrategy<u8> {
    prop_oneof![17 => Just(0u8), 3 => 1u8..6].boxed()
}

pub fn op() -> BoxedStrategy<Op> {
    prop_oneof![
        3 => (0u8..4, amt(), amt(), proptest::option::of(0u8..4), proptest::option::of(0u8..4), any::<bool>(), funds_mode())
            .prop_map(|(user, a0, a1, slippage, receiver, reversed, funds)| Op::Provide { user, a0, a1, slippage, receiver, reversed, funds }),
        3 => (0u8..4, any::<u16>()).prop_map(|(user, k)| Op::ProvideBalanced { user, k }),
        4 => (0u8..4, gen::share_sel()).prop_map(|(user, k)| Op::Withdraw { user, k }),
        8 => (0u8..4, any::<bool>(), small_amt(), spread(), proptest::option::weighted(0.2, 0u8..4), funds_mode())
            .prop_map(|(user, dir, amt, spread, to, funds)| Op::Swap { user, dir, amt, spread, to, funds }),
        2 => (0u8..5).prop_map(|caller| Op::Collect { caller }),
        1 => (0u8..4, 0u8..3, prop_oneof![Just(1u128), Just(999), Just(1000), Just(1001), gen::amount(1, 1u128 << 70)])
            .prop_map(|(user, denom, a)| Op::WithdrawDirect { user, denom, amount: Uint128::new(a) }),
        1 => (0u8..4, 0u8..3, any::<bool>(), prop_oneof![Just(1u128), Just(1000), gen::amount(1, 1u128 << 70)])
            .prop_map(|(user, via, swap_hook, a)| Op::ForgedHook { user, via, swap_hook, amount: Uint128::new(a) }),
        1 => (0u8..4, any::<bool>(), prop_oneof![Just(999u16), Just(1000), Just(1001), 1u16..3000], proptest::bool::weighted(0.8))
            .prop_map(|(user, dir, target, then_collect)| Op::SwapToPending { user, dir, target, then_collect }),
        1 => fee_arr().prop_map(|fees| Op::SetFees { fees }),
        1 => (0u8..4, any::<bool>(), small_amt()).prop_map(|(user, which, amt)| Op::Donate { user, which, amt }),
        2 => (0u8..4, amt(), amt()).prop_map(|(user, a0, a1)| Op::ProvideThenWithdraw { user, a0, a1 }),
        1 => Just(Op::AdvanceBlock),
    ]
    .boxed()
}

pub fn cfg_strategy() -> BoxedStrategy<PairCfg> {
    (
        any::<[bool; 2]>(),
        prop_oneof![Just([6u8, 6u8]), Just([6, 18]), Just([18, 6]), Just([8, 6]), Just([0, 12])],
        fee_arr(),
    )
        .prop_map(|(cw20, decimals, fees)| PairCfg {
            cw20,
            decimals,
            fees,
            amp: None,
        })
        .boxed()
}

/// the pool's own minimum-liquidity constant (the statement gives no number), never below 1
pub fn min_liq() -> u128 {
    white_whale_std::pool_network::asset::MINIMUM_LIQUIDITY_AMOUNT.u128().max(1)
}

pub struct CpPoolHistory;

pub fn resolve(a: &Amt, reserve: u128, balance: u128) -> u128 {
    match a {
        Amt::Abs(v) => v.u128(),
        Amt::OfReserve(k) => gen::frac(*k, reserve),
        Amt::OfBalance(k) => gen::frac(*k, balance),
    }
}

/// R0'·R1'·S² ≥ R0·R1·S'²
fn lp_value_not_lower(before: &PoolView, after: &PoolView) -> bool {
    let l = u(after.reserves[0]) * u(after.reserves[1]) * u(before.total_share) * u(before.total_share);
    let r = u(before.reserves[0]) * u(before.reserves[1]) * u(after.total_share) * u(after.total_share);
    l >= r
}

fn check_solvent(v: &PoolView) -> TResult {
    for i in 0..2 {
        ensure!(
            u(v.balances[i]) >= u(v.reserves[i]) + u(v.pending[i]),
            "insolvent: asset {i} balance {} < reserve {} + owed fees {}",
            v.balances[i],
            v.reserves[i],
            v.pending[i]
        );
    }
    Ok(())
}

impl Check for CpPoolHistory {
    type Case = Case;
    fn name(&self) -> &'static str {
        "cp_pool_history"
    }
    fn rule(&self) -> &'static str {
        "configuration (native/cw20 kinds, decimals, fee triple) + history of up to 40 (quick) / 120 (thorough) operations by 4 users {provide (assets listed in either order; attached native funds / cw20 allowances exact, short, halved, missing, over-paid or with an extra denom), balanced provide, withdraw, native/cw20 swap with spread settings and receivers, fee collection by anyone, the direct WithdrawLiquidity message with a native coin attached (must never pay anyone who gives up no LP), cw20 Receive hooks sent directly by a user / by a pool asset's cw20 with the withdraw hook / by the LP token with the swap hook, swap sized by bisection over the Simulation query so that the pending protocol fee lands exactly on 999 / 1000 / 1001 (the collection threshold) or a random target, followed by a separately judged collection, fee change through the factory, donation, provide-then-withdraw, block advance}, amounts absolute (log-uniform up to 2^120 + boundaries) or relative to reserves/balances; the real pair created through the real factory. After every step: Pool query succeeds, balance >= reserve + pending fee, geometric mean per LP not lower (exact U1024), withdrawals <= pro-rata, deposit-then-withdraw <= deposited, minimum-liquidity stake locked, rejected step leaves the world snapshot unchanged. Non-trivial: >= 1 successful swap and >= 1 successful withdrawal after a second depositor joined; distinct by case hash."
    }
    fn strategy(&self, tier: Tier) -> BoxedStrategy<Case> {
        let max_ops = tier.pick(40usize, 120usize);
        (cfg_strategy(), prop::collection::vec(op(), 0..max_ops), gen::amount(1, 1u128 << 100), gen::amount(1, 1u128 << 100), 0u8..8)
            .prop_map(|(cfg, mut ops, i0, i1, shape)| {
                // most histories start with a sizeable first deposit and a second depositor
                if shape != 0 {
                    ops.insert(
                        0,
                        Op::Provide {
                            user: 0,
                            a0: Amt::Abs(Uint128::new(i0.max(2000))),
                            a1: Amt::Abs(Uint128::new(i1.max(2000))),
                            slippage: None,
                            receiver: None,
                            reversed: false,
                            funds: 0,
                        },
                    );
                    if shape > 2 {
                        ops.insert(1, Op::ProvideBalanced { user: 1, k: 20000 });
                    }
                }
                Case { cfg, ops }
            })
            .boxed()
    }
    fn cases(&self, tier: Tier) -> u32 {
        tier.pick(16_000, 750_000)
    }
    fn min_nontrivial(&self) -> f64 {
        0.02
    }
    fn test(&self, c: &Case, rec: &Rec) -> TResult {
        let mut pw = PairWorld::build(&c.cfg).map_err(|e| Fail::new(format!("world build failed: {e}")))?;
        let mut first_deposit_done = false;
        let mut depositors: std::collections::BTreeSet<u8> = Default::default();
        let mut swaps_ok = 0u32;
        let mut withdraw_after_second = 0u32;
        let mut before = pw.view().map_err(|e| Fail::new(format!("Pool query failed: {e}")))?;
        let mut ops: Vec<Op> = Vec::with_capacity(c.ops.len() + 4);
        for op in &c.ops {
            ops.push(op.clone());
            if let Op::SwapToPending { user, then_collect: true, .. } = op {
                ops.push(Op::Collect { caller: *user });
            }
        }
        for (step, op) in ops.iter().enumerate() {
            pw.reversed_msgs = false;
            pw.funds_mode = 0;
            let mut snap = pw.w.snapshot();
            let mut skip_value_check = false;
            let res: Result<(), String> = match op {
                Op::Provide { user, a0, a1, slippage, receiver, reversed, funds } => {
                    pw.reversed_msgs = *reversed;
                    pw.funds_mode = *funds;
                    if *funds != 0 {
                        rec.class("provide_with_mismatched_funds_attempt");
                    }
                    let usr = pw.user(*user);
                    let amounts = [
                        resolve(a0, before.reserves[0], pw.w.bal(&pw.infos[0], &usr)),
                        resolve(a1, before.reserves[1], pw.w.bal(&pw.infos[1], &usr)),
                    ];
                    let sl = slippage.map(|s| [dec(0), dec(10_000_000_000_000_000), dec(500_000_000_000_000_000), Decimal::one()][s as usize % 4]);
                    let recv = receiver.map(|r| pw.user(r));
                    // cw20 allowances follow the same distortion as the native funds
                    let granted = match *funds {
                        1 => [amounts[0].saturating_sub(1), amounts[1]],
                        2 => [amounts[0] / 2, amounts[1] / 2],
                        3 => [0, 0],
                        _ => amounts,
                    };
                    pw.grant(&usr, granted);
                    snap = pw.w.snapshot();
                    let to = recv.clone().unwrap_or_else(|| usr.clone());
                    let r = pw.provide_exec(&usr, amounts, sl, recv.as_ref());
                    if r.is_ok() {
                        rec.class("provide_ok");
                        if to != usr {
                            rec.class("provide_for_receiver_ok");
                        }
                        if *funds != 0 {
                            rec.class(&format!("provide_with_mismatched_funds_accepted_mode{}", funds));
                        }
                        depositors.insert(receiver.unwrap_or(*user));
                        first_deposit_done = true;
                    }
                    r.map(|_| ())
                }
                Op::ProvideBalanced { user, k } => {
                    let usr = pw.user(*user);
                    let a0 = gen::frac(*k, before.reserves[0]).max(1);
                    // matching amount of asset 1, rounded up
                    let a1 = if before.reserves[0] == 0 {
                        a0
                    } else {
                        let v = (u(a0) * u(before.reserves[1]) + u(before.reserves[0]) - u(1)) / u(before.reserves[0]);
                        crate::refmath::to_u128(v).unwrap_or(u128::MAX).max(1)
                    };
                    pw.grant(&usr, [a0, a1]);
                    snap = pw.w.snapshot();
                    let r = pw.provide_exec(&usr, [a0, a1], None, None);
                    if r.is_ok() {
                        rec.class("provide_balanced_ok");
                        depositors.insert(*user);
                        first_deposit_done = true;
                    }
                    r.map(|_| ())
                }
                Op::Withdraw { user, k } => {
                    let usr = pw.user(*user);
                    let shares = gen::frac(*k, pw.lp_balance(&usr));
                    let b0 = pw.w.bal(&pw.infos[0], &usr);
                    let b1 = pw.w.bal(&pw.infos[1], &usr);
                    let r = pw.withdraw(&usr, shares);
                    if r.is_ok() {
                        rec.class("withdraw_ok");
                        if depositors.len() >= 2 {
                            withdraw_after_second += 1;
                        }
                        let got = [pw.w.bal(&pw.infos[0], &usr) - b0, pw.w.bal(&pw.infos[1], &usr) - b1];
                        for i in 0..2 {
                            // got_i ≤ R_i·a/S  ⇔  got_i·S ≤ R_i·a
                            ensure!(
                                u(got[i]) * u(before.total_share) <= u(before.reserves[i]) * u(shares),
                                "step {step}: withdrawal of {shares}/{} shares paid {} of asset {i}, more than pro-rata of reserve {}",
                                before.total_share,
                                got[i],
                                before.reserves[i]
                            );
                        }
                    }
                    r.map(|_| ())
                }
                Op::Swap { user, dir, amt, spread, to, funds } => {
                    pw.funds_mode = *funds;
                    let usr = pw.user(*user);
                    let oi = if *dir { 1 } else { 0 };
                    let amount = resolve(amt, before.reserves[oi], pw.w.bal(&pw.infos[oi], &usr));
                    let (belief, ms) = match spread {
                        Spread::Default => (None, None),
                        Spread::Half => (None, Some(dec(500_000_000_000_000_000))),
                        Spread::Tight => (None, Some(dec(1_000_000_000_000_000))),
                        Spread::Belief(k) => {
                            // belief price around the pool price
                            let p = if before.reserves[1 - oi] == 0 {
                                Decimal::one()
                            } else {
                                Decimal::checked_from_ratio(before.reserves[oi].max(1), before.reserves[1 - oi])
                                    .unwrap_or(Decimal::one())
                            };
                            let f = Decimal::from_ratio(32768u128 + *k as u128, 65536u128);
                            (Some(p.checked_mul(f).unwrap_or(p)), Some(dec(100_000_000_000_000_000)))
                        }
                    };
                    let recv = to.map(|r| pw.user(r));
                    let r = pw.swap(&usr, oi, amount, belief, ms, recv.as_ref());
                    if r.is_ok() {
                        swaps_ok += 1;
                        rec.class(if c.cfg.cw20[oi] { "swap_cw20_ok" } else { "swap_native_ok" });
                    }
                    r.map(|_| ())
                }
                Op::SwapToPending { user, dir, target, .. } => {
                    let usr = pw.user(*user);
                    let oi = if *dir { 1 } else { 0 };
                    let ai = 1 - oi;
                    let target = *target as u128;
                    if before.pending[ai] >= target || before.reserves[oi] == 0 {
                        continue;
                    }
                    let need = target - before.pending[ai];
                    let fee_of = |pw: &PairWorld, x: u128| pw.simulate(oi, x).ok().map(|s| s.protocol_fee_amount.u128());
                    let cap = before.reserves[oi].saturating_mul(4).min(pw.w.bal(&pw.infos[oi], &usr));
                    let (mut lo, mut hi) = (1u128, cap);
                    if hi < 1 || fee_of(&pw, hi).map(|f| f < need).unwrap_or(true) {
                        continue;
                    }
                    while lo < hi {
                        let mid = lo + (hi - lo) / 2;
                        match fee_of(&pw, mid) {
                            Some(f) if f >= need => hi = mid,
                            _ => lo = mid + 1,
                        }
                    }
                    if fee_of(&pw, lo) != Some(need) {
                        continue;
                    }
                    let r = pw.swap(&usr, oi, lo, None, Some(dec(500_000_000_000_000_000)), None);
                    if r.is_ok() {
                        swaps_ok += 1;
                        rec.class("swap_to_pending_fee_target_ok");
                        if target == 1000 {
                            rec.class("pending_fee_exactly_at_collection_threshold");
                        }
                    }
                    r.map(|_| ())
                }
                Op::WithdrawDirect { user, denom, amount } => {
                    let usr = pw.user(*user);
                    let d = ["uaaa", "uaaab", "uccc"][(*denom % 3) as usize];
                    let b = [pw.w.bal(&pw.infos[0], &usr), pw.w.bal(&pw.infos[1], &usr)];
                    let lp_b = pw.lp_balance(&usr);
                    let r = pw.withdraw_direct(&usr, d, amount.u128());
                    if r.is_ok() {
                        rec.class("withdraw_direct_accepted");
                        // whatever the pool does with the message, nobody may be paid out of the pool
                        // without giving up LP shares
                        let a = [pw.w.bal(&pw.infos[0], &usr), pw.w.bal(&pw.infos[1], &usr)];
                        let lp_a = pw.lp_balance(&usr);
                        ensure!(
                            lp_a < lp_b || (a[0] <= b[0] && a[1] <= b[1]),
                            "step {step}: the direct WithdrawLiquidity message with {amount}{d} attached paid the sender out of the pool (balances {b:?} -> {a:?}) although its LP balance did not fall ({lp_b} -> {lp_a})"
                        );
                    } else {
                        rec.class("withdraw_direct_rejected");
                    }
                    r.map(|_| ())
                }
                Op::ForgedHook { user, via, swap_hook, amount } => {
                    let usr = pw.user(*user);
                    let lp_b = pw.lp_balance(&usr);
                    let supply_b = before.total_share;
                    let r = pw.forged_hook(&usr, *via, *swap_hook, amount.u128());
                    if r.is_ok() {
                        rec.class("hook_message_accepted");
                        let lp_a = pw.lp_balance(&usr);
                        let supply_a = pw.view().map(|v| v.total_share).unwrap_or(0);
                        ensure!(
                            supply_a >= supply_b || lp_b.saturating_sub(lp_a) >= supply_b - supply_a,
                            "step {step}: a cw20 hook (via {via}, swap hook {swap_hook}, amount {amount}) burnt LP nobody gave up: supply {supply_b} -> {supply_a}, sender's LP {lp_b} -> {lp_a}"
                        );
                    } else {
                        rec.class("hook_message_rejected");
                    }
                    r.map(|_| ())
                }
                Op::Collect { caller } => {
                    let who = if *caller == 4 { pw.w.owner.clone() } else { pw.user(*caller) };
                    let r = pw.collect(&who);
                    if r.is_ok() {
                        rec.class("collect_ok");
                    }
                    r.map(|_| ())
                }
                Op::SetFees { fees } => {
                    let r = pw.set_fees(fees_u(fees));
                    if r.is_ok() {
                        rec.class("set_fees_ok");
                    }
                    r.map(|_| ())
                }
                Op::Donate { user, which, amt } => {
                    let usr = pw.user(*user);
                    let i = if *which { 1 } else { 0 };
                    let amount = resolve(amt, before.reserves[i], pw.w.bal(&pw.infos[i], &usr));
                    let info = pw.infos[i].clone();
                    let pair = pw.pair.clone();
                    let r = pw.w.transfer(&usr, &pair, &info, amount);
                    if r.is_ok() {
                        rec.class("donate_ok");
                    }
                    r.map(|_| ())
                }
                Op::ProvideThenWithdraw { user, a0, a1 } => {
                    let usr = pw.user(*user);
                    let amounts = [
                        resolve(a0, before.reserves[0], pw.w.bal(&pw.infos[0], &usr)),
                        resolve(a1, before.reserves[1], pw.w.bal(&pw.infos[1], &usr)),
                    ];
                    let lp0 = pw.lp_balance(&usr);
                    let b = [pw.w.bal(&pw.infos[0], &usr), pw.w.bal(&pw.infos[1], &usr)];
                    pw.grant(&usr, amounts);
                    snap = pw.w.snapshot();
                    let r = pw.provide_exec(&usr, amounts, None, None);
                    match r {
                        Ok(_) => {
                            first_deposit_done = true;
                            depositors.insert(*user);
                            let minted = pw.lp_balance(&usr) - lp0;
                            // intermediate state must satisfy the invariants as well
                            let mid = pw.view().map_err(|e| Fail::new(format!("step {step}: Pool query failed: {e}")))?;
                            check_solvent(&mid)?;
                            if before.total_share > 0 {
                                ensure!(
                                    lp_value_not_lower(&before, &mid),
                                    "step {step}: LP value fell on deposit {:?}: {:?} -> {:?}",
                                    amounts, before, mid
                                );
                            }
                            let r2 = pw.withdraw(&usr, minted);
                            if r2.is_ok() {
                                rec.class("provide_then_withdraw_ok");
                                let a = [pw.w.bal(&pw.infos[0], &usr), pw.w.bal(&pw.infos[1], &usr)];
                                for i in 0..2 {
                                    // pro-rata against the state right before the withdrawal
                                    let got = (a[i] + amounts[i]).saturating_sub(b[i]);
                                    ensure!(
                                        u(got) * u(mid.total_share) <= u(mid.reserves[i]) * u(minted),
                                        "step {step}: withdrawal of {minted}/{} shares paid {got} of asset {i}, more than pro-rata of reserve {}",
                                        mid.total_share, mid.reserves[i]
                                    );
                                    // with pre-existing LPs a round trip can never be profitable; on an
                                    // empty pool the first depositor legitimately receives whatever was
                                    // donated before, so nothing more than pro-rata is claimed there
                                    if before.total_share == 0 {
                                        continue;
                                    }
                                    ensure!(
                                        a[i] <= b[i],
                                        "step {step}: deposit {:?} then withdraw of the {minted} minted shares returned more of asset {i}: balance {} -> {}",
                                        amounts, b[i], a[i]
                                    );
                                }
                                if before.total_share > 0 {
                                    let end = pw.view().map_err(|e| Fail::new(format!("Pool query failed: {e}")))?;
                                    ensure!(
                                        lp_value_not_lower(&mid, &end),
                                        "step {step}: LP value fell on withdraw: {:?} -> {:?}",
                                        mid, end
                                    );
                                }
                            }
                            skip_value_check = true;
                            Ok(())
                        }
                        Err(e) => Err(e),
                    }
                }
                Op::AdvanceBlock => {
                    pw.w.advance(6_000_000_000, 1);
                    continue;
                }
            };
            let after = pw
                .view()
                .map_err(|e| Fail::new(format!("step {step} ({op:?}): Pool/ProtocolFees query failed afterwards: {e}")))?;
            check_solvent(&after).map_err(|f| Fail::new(format!("step {step} ({op:?}): {}", f.msg)))?;
            match res {
                Ok(()) => {
                    if !skip_value_check && before.total_share > 0 && after.total_share > 0 {
                        ensure!(
                            lp_value_not_lower(&before, &after),
                            "step {step} ({op:?}): value per LP token fell: reserves {:?} S={} -> reserves {:?} S={}",
                            before.reserves,
                            before.total_share,
                            after.reserves,
                            after.total_share
                        );
                    }
                }
                Err(_) => {
                    rec.class("rejected");
                    let now = pw.w.snapshot();
                    ensure!(
                        now == snap,
                        "step {step} ({op:?}): rejected operation changed the world: {}",
                        snap.diff(&now)
                    );
                }
            }
            if first_deposit_done {
                let locked = pw.lp_balance(&pw.pair);
                ensure!(
                    locked >= min_liq() && after.total_share >= min_liq(),
                    "step {step} ({op:?}): minimum-liquidity stake not locked: pair holds {locked} LP, supply {}",
                    after.total_share
                );
            }
            before = after;
        }
        if swaps_ok >= 1 && withdraw_after_second >= 1 {
            rec.nontrivial(hash_of(c));
            rec.sample(c);
        }
        Ok(())
    }
}

pub fn property() -> Property {
    Property {
        id: "C01",
        checks: vec![Box::new(CpPoolHistory)],
        assumptions: vec![
            "cw-multi-test 0.16.5 bank / wasm keeper / atomic revert stand in for the chain; cw20 = the repository's terraswap_token",
            "a contract panic is a rejected transaction",
            "token-factory LP (non-default features) not exercised",
        ],
    }
}
