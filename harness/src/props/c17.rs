//! C17 — pause switches stop exactly the operation they name (exhaustive 2³ × entry paths ×
//! {empty, funded}, differential against a twin world with every switch on).

use cosmwasm_std::{coin, Addr, Uint128};
use proptest::prelude::*;
use serde::{Deserialize, Serialize};

use white_whale_std::pool_network::asset::AssetInfo;
use white_whale_std::pool_network::{pair, router, trio};
use white_whale_std::vault_network::vault;

use crate::engine::{gen, hash_of, Check, Fail, Property, Rec, TResult, Tier};
use crate::ensure;
use crate::incentives::{FeeKind, IncCfg, IncWorld, LpKind};
use crate::mocks::{Repay, Step};
use crate::pools::{PairCfg, PairWorld, TrioCfg, TrioWorld};
use crate::vaults::{VaultCfg, VaultWorld};
use crate::world::{asset, dec};

#[derive(Clone, Copy, Debug, PartialEq, Eq, Serialize, Deserialize)]
pub enum PoolKind {
    Cp,
    Stable,
    Trio,
}

/// entry paths of pool operations
#[derive(Clone, Copy, Debug, PartialEq, Eq, Serialize, Deserialize)]
pub enum PoolPath {
    Provide,
    /// swap offering asset 0 (native message or cw20 send hook, depending on the asset kind)
    SwapOffer0,
    SwapOffer1,
    /// cw20 send hook of the LP token
    Withdraw,
    /// swap through the pool router (pairs only)
    RouterHop,
}

pub const POOL_PATHS: [PoolPath; 5] = [PoolPath::Provide, PoolPath::SwapOffer0, PoolPath::SwapOffer1, PoolPath::Withdraw, PoolPath::RouterHop];

#[derive(Clone, Debug, Serialize, Deserialize)]
pub struct PoolCase {
    pub kind: PoolKind,
    pub cw20: [bool; 3],
    /// (withdrawals, deposits, swaps) enabled
    pub flags: [bool; 3],
    pub funded: bool,
    pub path: PoolPath,
    pub amount: Uint128,
    /// second operation after re-enabling everything
    pub path2: PoolPath,
    /// other fields carried by the very message that sets the switches: bit 0 pool fees (unchanged
    /// values), bit 1 an amplification ramp (three-asset pool; a valid one), bit 2 the fee collector
    /// address (pairs; unchanged value)
    #[serde(default)]
    pub companions: u8,
}

enum AnyPool {
    Pair(PairWorld),
    Trio(TrioWorld),
}

impl AnyPool {
    fn build(kind: PoolKind, cw20: [bool; 3]) -> Result<AnyPool, String> {
        let fees = [Uint128::new(1_000_000_000_000_000), Uint128::new(3_000_000_000_000_000), Uint128::new(1_000_000_000_000_000)];
        Ok(match kind {
            PoolKind::Cp | PoolKind::Stable => AnyPool::Pair(PairWorld::build(&PairCfg {
                cw20: [cw20[0], cw20[1]],
                decimals: [6, 6],
                fees,
                amp: if kind == PoolKind::Stable { Some(100) } else { None },
            })?),
            PoolKind::Trio => AnyPool::Trio(TrioWorld::build(&TrioCfg {
                cw20,
                decimals: [6, 6, 6],
                fees,
                amp: 100,
            })?),
        })
    }
    fn user(&self, i: u8) -> Addr {
        match self {
            AnyPool::Pair(p) => p.user(i),
            AnyPool::Trio(t) => t.user(i),
        }
    }
    fn fund(&mut self) -> Result<(), String> {
        let u = self.user(0);
        let a = 1_000_000_000u128;
        match self {
            AnyPool::Pair(p) => p.provide(&u, [a, a], None, None).map(|_| ()),
            AnyPool::Trio(t) => t.provide(&u, [a, a, a], None, None).map(|_| ()),
        }
    }
    fn set_flags(&mut self, f: [bool; 3]) -> Result<(), String> {
        self.set_flags_with(f, 0)
    }
    /// sets the switches in one message that also carries the `companions` fields
    fn set_flags_with(&mut self, f: [bool; 3], companions: u8) -> Result<(), String> {
        let fees = [1_000_000_000_000_000u128, 3_000_000_000_000_000, 1_000_000_000_000_000];
        match self {
            AnyPool::Pair(p) => p
                .update_cfg(if companions & 1 != 0 { Some(fees) } else { None }, Some(f), companions & 4 != 0)
                .map(|_| ()),
            AnyPool::Trio(t) => {
                let ramp = if companions & 2 != 0 {
                    let h = t.w.app.block_info().height;
                    Some(trio::RampAmp { future_a: 200, future_block: h + 10_000 })
                } else {
                    None
                };
                t.update(
                    if companions & 1 != 0 { Some(fees) } else { None },
                    Some(trio::FeatureToggle {
                        withdrawals_enabled: f[0],
                        deposits_enabled: f[1],
                        swaps_enabled: f[2],
                    }),
                    ramp,
                )
                .map(|_| ())
            }
        }
    }
    fn flags(&self) -> Result<[bool; 3], String> {
        Ok(match self {
            AnyPool::Pair(p) => {
                let c = p.config()?;
                [c.feature_toggle.withdrawals_enabled, c.feature_toggle.deposits_enabled, c.feature_toggle.swaps_enabled]
            }
            AnyPool::Trio(t) => {
                let c = t.config()?;
                [c.feature_toggle.withdrawals_enabled, c.feature_toggle.deposits_enabled, c.feature_toggle.swaps_enabled]
            }
        })
    }
    /// observable state relevant to users: balances of user 1 and of the pool in every asset and LP,
    /// LP supply
    fn observe(&self) -> Vec<u128> {
        let mut v = vec![];
        match self {
            AnyPool::Pair(p) => {
                let u = p.user(1);
                for i in &p.infos {
                    v.push(p.w.bal(i, &u));
                    v.push(p.w.bal(i, &p.pair));
                }
                v.push(p.lp_balance(&u));
                v.push(p.w.cw20_supply(&p.lp));
            }
            AnyPool::Trio(t) => {
                let u = t.user(1);
                for i in &t.infos {
                    v.push(t.w.bal(i, &u));
                    v.push(t.w.bal(i, &t.trio));
                }
                v.push(t.lp_balance(&u));
                v.push(t.w.cw20_supply(&t.lp));
            }
        }
        v
    }
    fn snapshot(&self) -> crate::world::Snapshot {
        match self {
            AnyPool::Pair(p) => p.w.snapshot(),
            AnyPool::Trio(t) => t.w.snapshot(),
        }
    }
    /// runs one entry path as user 1; returns Ok/Err
    fn run(&mut self, path: PoolPath, amount: u128) -> Result<(), String> {
        let u = self.user(1);
        match self {
            AnyPool::Pair(p) => match path {
                PoolPath::Provide => p.provide(&u, [amount, amount], None, None).map(|_| ()),
                PoolPath::SwapOffer0 => p.swap(&u, 0, amount, None, Some(dec(500_000_000_000_000_000)), None).map(|_| ()),
                PoolPath::SwapOffer1 => p.swap(&u, 1, amount, None, Some(dec(500_000_000_000_000_000)), None).map(|_| ()),
                PoolPath::Withdraw => {
                    // user 1 gets LP from user 0 first (plain transfer, not an entry path)
                    let u0 = p.user(0);
                    let lp = p.lp.clone();
                    let have = p.lp_balance(&u0);
                    let share = (amount % 1000 + 1).min(have);
                    if p.lp_balance(&u) == 0 {
                        let _ = p.w.exec(&u0, &lp, &cw20::Cw20ExecuteMsg::Transfer { recipient: u.to_string(), amount: Uint128::new(share) }, &[]);
                    }
                    let mine = p.lp_balance(&u);
                    p.withdraw(&u, mine).map(|_| ())
                }
                PoolPath::RouterHop => {
                    let r = p.w.router.clone().unwrap();
                    let ops = vec![router::SwapOperation::TerraSwap {
                        offer_asset_info: p.infos[0].clone(),
                        ask_asset_info: p.infos[1].clone(),
                    }];
                    match &p.infos[0] {
                        AssetInfo::NativeToken { denom } => p
                            .w
                            .exec(
                                &u,
                                &r,
                                &router::ExecuteMsg::ExecuteSwapOperations { operations: ops, minimum_receive: None, to: None, max_spread: Some(dec(500_000_000_000_000_000)) },
                                &[coin(amount, denom)],
                            )
                            .map(|_| ()),
                        AssetInfo::Token { contract_addr } => {
                            let t = Addr::unchecked(contract_addr);
                            p.w
                                .cw20_send(
                                    &u,
                                    &t,
                                    &r,
                                    amount,
                                    &router::Cw20HookMsg::ExecuteSwapOperations { operations: ops, minimum_receive: None, to: None, max_spread: Some(dec(500_000_000_000_000_000)) },
                                )
                                .map(|_| ())
                        }
                    }
                }
            },
            AnyPool::Trio(t) => match path {
                PoolPath::Provide => t.provide(&u, [amount, amount, amount], None, None).map(|_| ()),
                PoolPath::SwapOffer0 => t.swap(&u, 0, 1, amount, None, Some(dec(500_000_000_000_000_000)), None).map(|_| ()),
                PoolPath::SwapOffer1 => t.swap(&u, 1, 2, amount, None, Some(dec(500_000_000_000_000_000)), None).map(|_| ()),
                PoolPath::RouterHop => t.swap(&u, 2, 0, amount, None, Some(dec(500_000_000_000_000_000)), None).map(|_| ()),
                PoolPath::Withdraw => {
                    let u0 = t.user(0);
                    let lp = t.lp.clone();
                    let have = t.lp_balance(&u0);
                    let share = (amount % 1000 + 1).min(have);
                    if t.lp_balance(&u) == 0 {
                        let _ = t.w.exec(&u0, &lp, &cw20::Cw20ExecuteMsg::Transfer { recipient: u.to_string(), amount: Uint128::new(share) }, &[]);
                    }
                    let mine = t.lp_balance(&u);
                    t.withdraw(&u, mine).map(|_| ())
                }
            },
        }
    }
}

fn flag_of(path: PoolPath) -> usize {
    match path {
        PoolPath::Withdraw => 0,
        PoolPath::Provide => 1,
        _ => 2,
    }
}

pub struct PoolToggles;

impl Check for PoolToggles {
    type Case = PoolCase;
    fn name(&self) -> &'static str {
        "pool_pause_switches"
    }
    fn rule(&self) -> &'static str {
        "constant-product pair, stableswap pair and trio (asset kinds native/cw20) x all 8 combinations of (withdrawals, deposits, swaps) set through the factory — alone or in one message together with pool fees / an amplification ramp / the collector address — x entry paths {ProvideLiquidity, swap offering asset 0 / asset 1 (native Swap message or cw20 Send hook according to the asset kind), cw20 Send{WithdrawLiquidity} of the LP token, swap through the pool router (pairs) / third direction (trio)} x {empty, funded}; the full product with fixed amounts is the regression corpus and random amounts / asset kinds are drawn on top. Differential oracle against a twin world built identically with every switch on: an operation whose switch is off must be rejected with the world snapshot unchanged; every other operation must have the same outcome and the same balance / LP-supply deltas as in the twin; after re-enabling everything a second operation must again equal the twin; a fresh pool reports all switches on. Non-trivial: at least one switch off."
    }
    fn strategy(&self, _tier: Tier) -> BoxedStrategy<PoolCase> {
        (
            prop_oneof![Just(PoolKind::Cp), Just(PoolKind::Stable), Just(PoolKind::Trio)],
            any::<[bool; 3]>(),
            any::<[bool; 3]>(),
            any::<bool>(),
            0usize..5,
            gen::log_uniform(1, 1u128 << 40),
            0usize..5,
            prop_oneof![2 => Just(0u8), 3 => 0u8..8],
        )
            .prop_map(|(kind, cw20, flags, funded, p, amount, p2, companions)| PoolCase {
                kind,
                cw20,
                flags,
                funded,
                path: POOL_PATHS[p],
                amount: Uint128::new(amount),
                path2: POOL_PATHS[p2],
                companions,
            })
            .boxed()
    }
    fn cases(&self, tier: Tier) -> u32 {
        tier.pick(16_000, 800_000)
    }
    fn corpus(&self) -> Vec<PoolCase> {
        let mut out = vec![];
        for kind in [PoolKind::Cp, PoolKind::Stable, PoolKind::Trio] {
            for f in 0..8u8 {
                for funded in [false, true] {
                    for (i, path) in POOL_PATHS.iter().enumerate() {
                        out.push(PoolCase {
                            kind,
                            cw20: [i % 2 == 0, f % 2 == 0, false],
                            flags: [f & 1 != 0, f & 2 != 0, f & 4 != 0],
                            funded,
                            path: *path,
                            amount: Uint128::new(1_000_000),
                            path2: POOL_PATHS[(i + 1) % 5],
                            companions: 0,
                        });
                        if funded {
                            out.push(PoolCase {
                                kind,
                                cw20: [i % 2 == 0, f % 2 == 0, false],
                                flags: [f & 1 != 0, f & 2 != 0, f & 4 != 0],
                                funded,
                                path: *path,
                                amount: Uint128::new(1_000_000),
                                path2: POOL_PATHS[(i + 1) % 5],
                                companions: 7,
                            });
                        }
                    }
                }
            }
        }
        out
    }
    fn test(&self, c: &PoolCase, rec: &Rec) -> TResult {
        let mut a = AnyPool::build(c.kind, c.cw20).map_err(|e| Fail::new(format!("world build failed: {e}")))?;
        let mut b = AnyPool::build(c.kind, c.cw20).map_err(|e| Fail::new(format!("world build failed: {e}")))?;
        ensure!(
            a.flags().map_err(Fail::new)? == [true, true, true],
            "a freshly created pool does not report every operation enabled: {:?}",
            a.flags()
        );
        if c.funded {
            a.fund().map_err(|e| Fail::new(format!("funding a freshly created pool / vault (everything enabled) failed: {e}")))?;
            b.fund().map_err(|e| Fail::new(format!("funding a freshly created pool / vault (everything enabled) failed: {e}")))?;
        }
        a.set_flags_with(c.flags, c.companions)
            .map_err(|e| Fail::new(format!("setting the switches through the factory (companion fields {:#05b}) failed: {e}", c.companions)))?;
        // the twin gets the same companion fields, with every switch on
        b.set_flags_with([true, true, true], c.companions).map_err(|e| Fail::new(format!("twin update failed: {e}")))?;
        if c.companions != 0 {
            rec.class("switches_set_together_with_other_fields");
        }
        ensure!(
            a.flags().map_err(Fail::new)? == c.flags,
            "switches {:?} were not stored by a message that also carried other fields (bits {:#05b}: 1 fees, 2 amp ramp, 4 collector): {:?}",
            c.flags,
            c.companions,
            a.flags()
        );
        if c.flags != [true, true, true] {
            rec.nontrivial(hash_of(c));
            rec.sample(c);
        }
        let amount = c.amount.u128();
        // first operation
        let disabled = !c.flags[flag_of(c.path)];
        let oa = a.observe();
        let ob = b.observe();
        let snap = a.snapshot();
        let ra = a.run(c.path, amount);
        let rb = b.run(c.path, amount);
        if disabled {
            rec.class("disabled_path_exercised");
            ensure!(
                ra.is_err(),
                "{:?} through path {:?} succeeded although its switch is off (flags w/d/s = {:?})",
                c.kind,
                c.path,
                c.flags
            );
            if c.path != PoolPath::Withdraw && !(c.path == PoolPath::Provide && c.cw20.iter().any(|x| *x)) {
                // (the withdraw path moves LP between users and provide grants cw20 allowances first;
                // for those the effect-freeness is checked on balances below)
                let s2 = a.snapshot();
                ensure!(s2 == snap, "disabled {:?} via {:?} changed the world: {}", c.kind, c.path, snap.diff(&s2));
            }
        } else {
            rec.class("enabled_path_exercised");
            ensure!(
                ra.is_ok() == rb.is_ok(),
                "{:?} via {:?} with flags {:?}: {} but in the twin with everything enabled it {}: {:?} / {:?}",
                c.kind,
                c.path,
                c.flags,
                if ra.is_ok() { "succeeded" } else { "failed" },
                if rb.is_ok() { "succeeded" } else { "failed" },
                ra.as_ref().err(),
                rb.as_ref().err()
            );
            let da: Vec<i128> = a.observe().iter().zip(oa.iter()).map(|(x, y)| *x as i128 - *y as i128).collect();
            let db: Vec<i128> = b.observe().iter().zip(ob.iter()).map(|(x, y)| *x as i128 - *y as i128).collect();
            ensure!(
                da == db,
                "{:?} via {:?} with flags {:?} moved balances differently from the twin: {da:?} vs {db:?}",
                c.kind,
                c.path,
                c.flags
            );
        }
        // re-enable everything: behaviour equals the twin again (the twin gets the first operation's
        // state only when it was applied to both; after a disabled first op the twin is ahead, so
        // rebuild the comparison from equal states)
        if disabled {
            // bring a to b's state by running the first operation now that it is allowed
            a.set_flags([true, true, true]).map_err(Fail::new)?;
            let r = a.run(c.path, amount);
            ensure!(
                r.is_ok() == rb.is_ok(),
                "after re-enabling, {:?} via {:?} {} while the twin {}",
                c.kind,
                c.path,
                if r.is_ok() { "succeeded" } else { "failed" },
                if rb.is_ok() { "succeeded" } else { "failed" }
            );
        } else {
            a.set_flags([true, true, true]).map_err(Fail::new)?;
        }
        let oa = a.observe();
        let ob = b.observe();
        ensure!(oa == ob, "after re-enabling the observable state differs from the twin: {oa:?} vs {ob:?}");
        let ra = a.run(c.path2, amount / 2 + 1);
        let rb = b.run(c.path2, amount / 2 + 1);
        ensure!(
            ra.is_ok() == rb.is_ok() && a.observe() == b.observe(),
            "after re-enabling, {:?} via {:?} behaves differently from the twin",
            c.kind,
            c.path2
        );
        Ok(())
    }
}

// ---------------------------------------------------------------------------------------------
// vault
// ---------------------------------------------------------------------------------------------

#[derive(Clone, Copy, Debug, PartialEq, Eq, Serialize, Deserialize)]
pub enum VaultPath {
    Deposit,
    Withdraw,
    LoanDirect,
    LoanViaRouter,
}

pub const VAULT_PATHS: [VaultPath; 4] = [VaultPath::Deposit, VaultPath::Withdraw, VaultPath::LoanDirect, VaultPath::LoanViaRouter];

#[derive(Clone, Debug, Serialize, Deserialize)]
pub struct VaultCase {
    pub cw20: bool,
    /// (flash loans, deposits, withdrawals) enabled
    pub flags: [bool; 3],
    pub funded: bool,
    pub path: VaultPath,
    pub amount: Uint128,
    pub path2: VaultPath,
    /// partial updates (None = field left out of the message) applied one after the other before
    /// the switches are brought to `flags`, itself by a partial update naming only what differs
    #[serde(default)]
    pub pre: Vec<[Option<bool>; 3]>,
}

fn vflag(p: VaultPath) -> usize {
    match p {
        VaultPath::LoanDirect | VaultPath::LoanViaRouter => 0,
        VaultPath::Deposit => 1,
        VaultPath::Withdraw => 2,
    }
}

fn vrun(vw: &mut VaultWorld, p: VaultPath, amount: u128) -> Result<(), String> {
    let u = vw.user(1);
    match p {
        VaultPath::Deposit => vw.deposit(&u, amount).map(|_| ()),
        VaultPath::Withdraw => {
            let have = vw.w.cw20_balance(&vw.lp, &u);
            vw.withdraw(&u, (amount % 5000 + 1).min(have)).map(|_| ())
        }
        VaultPath::LoanDirect => {
            let bal = vw.w.bal(&vw.info, &vw.vault);
            vw.start_loan(&u, amount.min(bal), &[Step::Repay(Repay::Exact)]).map(|_| ())
        }
        VaultPath::LoanViaRouter => {
            let bal = vw.w.bal(&vw.info, &vw.vault);
            let a = amount.min(bal);
            let r = vw.router.clone();
            let msgs = vec![vw.purse_pay_msg(a / 2 + 10, &r)];
            vw.router_loan(&u, a, msgs).map(|_| ())
        }
    }
}

fn vobserve(vw: &VaultWorld) -> Vec<u128> {
    let u = vw.user(1);
    vec![
        vw.w.bal(&vw.info, &u),
        vw.w.bal(&vw.info, &vw.vault),
        vw.w.cw20_balance(&vw.lp, &u),
        vw.w.cw20_supply(&vw.lp),
        vw.w.bal(&vw.info, &vw.borrower),
        vw.w.bal(&vw.info, &vw.router),
    ]
}

fn vset(vw: &mut VaultWorld, f: [bool; 3]) -> Result<(), String> {
    vw.update(vault::UpdateConfigParams {
        flash_loan_enabled: Some(f[0]),
        deposit_enabled: Some(f[1]),
        withdraw_enabled: Some(f[2]),
        new_owner: None,
        new_vault_fees: None,
        new_fee_collector_addr: None,
    })
    .map(|_| ())
}

fn vupdate(vw: &mut VaultWorld, f: [Option<bool>; 3]) -> Result<(), String> {
    vw.update(vault::UpdateConfigParams {
        flash_loan_enabled: f[0],
        deposit_enabled: f[1],
        withdraw_enabled: f[2],
        new_owner: None,
        new_vault_fees: None,
        new_fee_collector_addr: None,
    })
    .map(|_| ())
}

/// brings the switches from `cur` to `want` naming only the fields that differ
fn vset_partial(vw: &mut VaultWorld, cur: [bool; 3], want: [bool; 3]) -> Result<(), String> {
    let mut f = [None; 3];
    for i in 0..3 {
        if cur[i] != want[i] {
            f[i] = Some(want[i]);
        }
    }
    vupdate(vw, f)
}

fn vflags(vw: &VaultWorld) -> Result<[bool; 3], String> {
    let c = vw.config()?;
    Ok([c.flash_loan_enabled, c.deposit_enabled, c.withdraw_enabled])
}

pub struct VaultToggles;

impl Check for VaultToggles {
    type Case = VaultCase;
    fn name(&self) -> &'static str {
        "vault_pause_switches"
    }
    fn rule(&self) -> &'static str {
        "vault over a native or cw20 asset x all 8 combinations of (flash loans, deposits, withdrawals) reached through sequences of partial UpdateConfig messages (each switch named or left out; after every message the stored switches must equal the named fields applied to the previous state) x entry paths {Deposit, cw20 Send{Withdraw} of the LP token, FlashLoan directly (borrower contract repaying exactly), FlashLoan through the vault router} x {empty, funded}; full product as regression corpus plus random amounts. Same differential oracle against an identically built twin with everything enabled; a fresh vault reports all switches on."
    }
    fn strategy(&self, _tier: Tier) -> BoxedStrategy<VaultCase> {
        let ob = || prop_oneof![2 => Just(None), 1 => Just(Some(false)), 1 => Just(Some(true))];
        (
            any::<bool>(),
            any::<[bool; 3]>(),
            any::<bool>(),
            0usize..4,
            gen::log_uniform(1, 1u128 << 40),
            0usize..4,
            proptest::collection::vec([ob(), ob(), ob()], 0..4),
        )
            .prop_map(|(cw20, flags, funded, p, amount, p2, pre)| VaultCase {
                cw20,
                flags,
                funded,
                path: VAULT_PATHS[p],
                amount: Uint128::new(amount),
                path2: VAULT_PATHS[p2],
                pre,
            })
            .boxed()
    }
    fn cases(&self, tier: Tier) -> u32 {
        tier.pick(16_000, 800_000)
    }
    fn corpus(&self) -> Vec<VaultCase> {
        let mut out = vec![];
        for cw20 in [false, true] {
            for f in 0..8u8 {
                for funded in [false, true] {
                    for (i, p) in VAULT_PATHS.iter().enumerate() {
                        out.push(VaultCase {
                            cw20,
                            flags: [f & 1 != 0, f & 2 != 0, f & 4 != 0],
                            funded,
                            path: *p,
                            amount: Uint128::new(1_000_000),
                            path2: VAULT_PATHS[(i + 1) % 4],
                            pre: vec![],
                        });
                        if !funded {
                            // every single-switch pause first, then the target by a partial update
                            for k in 0..3 {
                                let mut one = [None; 3];
                                one[k] = Some(false);
                                out.push(VaultCase {
                                    cw20,
                                    flags: [f & 1 != 0, f & 2 != 0, f & 4 != 0],
                                    funded: true,
                                    path: *p,
                                    amount: Uint128::new(1_000_000),
                                    path2: VAULT_PATHS[(i + 1) % 4],
                                    pre: vec![one, [None; 3]],
                                });
                            }
                        }
                    }
                }
            }
        }
        out
    }
    fn test(&self, c: &VaultCase, rec: &Rec) -> TResult {
        let cfg = VaultCfg {
            cw20: c.cw20,
            fees: [Uint128::new(1_000_000_000_000_000), Uint128::new(2_000_000_000_000_000), Uint128::zero()],
        };
        let mut a = VaultWorld::build(&cfg).map_err(|e| Fail::new(format!("world build failed: {e}")))?;
        let mut b = VaultWorld::build(&cfg).map_err(|e| Fail::new(format!("world build failed: {e}")))?;
        ensure!(vflags(&a).map_err(Fail::new)? == [true, true, true], "a fresh vault does not report everything enabled");
        if c.funded {
            for w in [&mut a, &mut b] {
                let u0 = w.user(0);
                let u1 = w.user(1);
                w.deposit(&u0, 1_000_000_000).map_err(|e| Fail::new(format!("funding a freshly created pool / vault (everything enabled) failed: {e}")))?;
                w.deposit(&u1, 5_000_000).map_err(|e| Fail::new(format!("funding a freshly created pool / vault (everything enabled) failed: {e}")))?;
            }
        }
        let mut model = [true, true, true];
        for (k, upd) in c.pre.iter().enumerate() {
            vupdate(&mut a, *upd).map_err(|e| Fail::new(format!("partial update {k} {upd:?} failed: {e}")))?;
            for i in 0..3 {
                if let Some(v) = upd[i] {
                    model[i] = v;
                }
            }
            rec.class("partial_update");
            let got = vflags(&a).map_err(Fail::new)?;
            ensure!(
                got == model,
                "after partial update {k} {upd:?} (fields l/d/w, None = not named) the vault reports switches {got:?}, named fields give {model:?}"
            );
        }
        vset_partial(&mut a, model, c.flags).map_err(|e| Fail::new(format!("setting switches failed: {e}")))?;
        let got = vflags(&a).map_err(Fail::new)?;
        ensure!(got == c.flags, "switches were not stored: brought {model:?} to {:?} naming only what differs, the vault reports {got:?}", c.flags);
        if c.flags != [true, true, true] {
            rec.nontrivial(hash_of(c));
            rec.sample(c);
        }
        let amount = c.amount.u128();
        let disabled = !c.flags[vflag(c.path)];
        let (oa, ob) = (vobserve(&a), vobserve(&b));
        let ra = vrun(&mut a, c.path, amount);
        let rb = vrun(&mut b, c.path, amount);
        if disabled {
            rec.class("disabled_path_exercised");
            ensure!(ra.is_err(), "vault {:?} succeeded although its switch is off (flags l/d/w = {:?})", c.path, c.flags);
            ensure!(vobserve(&a) == oa, "disabled vault {:?} moved funds: {:?} -> {:?}", c.path, oa, vobserve(&a));
            vset_partial(&mut a, c.flags, [true, true, true]).map_err(Fail::new)?;
            ensure!(vflags(&a).map_err(Fail::new)? == [true, true, true], "re-enabling by a partial update did not restore all switches");
            let r = vrun(&mut a, c.path, amount);
            ensure!(r.is_ok() == rb.is_ok(), "after re-enabling, vault {:?} behaves differently from the twin", c.path);
        } else {
            rec.class("enabled_path_exercised");
            ensure!(
                ra.is_ok() == rb.is_ok(),
                "vault {:?} with flags {:?} {} but the twin {}: {:?} / {:?}",
                c.path,
                c.flags,
                if ra.is_ok() { "succeeded" } else { "failed" },
                if rb.is_ok() { "succeeded" } else { "failed" },
                ra.as_ref().err(),
                rb.as_ref().err()
            );
            let da: Vec<i128> = vobserve(&a).iter().zip(oa.iter()).map(|(x, y)| *x as i128 - *y as i128).collect();
            let db: Vec<i128> = vobserve(&b).iter().zip(ob.iter()).map(|(x, y)| *x as i128 - *y as i128).collect();
            ensure!(da == db, "vault {:?} with flags {:?} moved balances differently from the twin: {da:?} vs {db:?}", c.path, c.flags);
            vset_partial(&mut a, c.flags, [true, true, true]).map_err(Fail::new)?;
            ensure!(vflags(&a).map_err(Fail::new)? == [true, true, true], "re-enabling by a partial update did not restore all switches");
        }
        ensure!(vobserve(&a) == vobserve(&b), "after re-enabling the vault state differs from the twin");
        let ra = vrun(&mut a, c.path2, amount / 2 + 1);
        let rb = vrun(&mut b, c.path2, amount / 2 + 1);
        ensure!(
            ra.is_ok() == rb.is_ok() && vobserve(&a) == vobserve(&b),
            "after re-enabling, vault {:?} behaves differently from the twin",
            c.path2
        );
        Ok(())
    }
}

// ---------------------------------------------------------------------------------------------
// frontend helper path
// ---------------------------------------------------------------------------------------------

#[derive(Clone, Debug, Serialize, Deserialize)]
pub struct HelperCase {
    pub flags: [bool; 3],
    pub amount: Uint128,
    /// LP tokens of the pair that somebody transferred to the helper beforehand (anyone can)
    #[serde(default)]
    pub stray_lp: Uint128,
}

pub struct HelperDepositToggle;

impl Check for HelperDepositToggle {
    type Case = HelperCase;
    fn name(&self) -> &'static str {
        "helper_deposit_respects_switch"
    }
    fn rule(&self) -> &'static str {
        "pair with an incentive contract and the frontend helper; all 8 switch combinations x {helper empty, helper holding LP tokens somebody sent it} (corpus) and random amounts: a deposit through the helper must be rejected without moving funds iff deposits are disabled on the pair, and otherwise succeed and stake LP for the user."
    }
    fn strategy(&self, _tier: Tier) -> BoxedStrategy<HelperCase> {
        (any::<[bool; 3]>(), gen::log_uniform(1000, 1u128 << 50), prop_oneof![1 => Just(0u128), 1 => Just(1u128), 2 => gen::log_uniform(1, 1u128 << 50)])
            .prop_map(|(flags, a, s)| HelperCase { flags, amount: Uint128::new(a), stray_lp: Uint128::new(s) })
            .boxed()
    }
    fn cases(&self, tier: Tier) -> u32 {
        tier.pick(4_000, 200_000)
    }
    fn corpus(&self) -> Vec<HelperCase> {
        (0..16u8)
            .map(|f| HelperCase {
                flags: [f & 1 != 0, f & 2 != 0, f & 4 != 0],
                amount: Uint128::new(1_000_000),
                stray_lp: Uint128::new(if f & 8 != 0 { 5_000 } else { 0 }),
            })
            .collect()
    }
    fn test(&self, c: &HelperCase, rec: &Rec) -> TResult {
        let mut iw = IncWorld::build(&IncCfg {
            lp: LpKind::PairLp,
            flow0_cw20: true,
            fee: FeeKind::Native,
            fee_amount: Uint128::new(1000),
            max_concurrent_flows: 3,
        })
        .map_err(|e| Fail::new(format!("world build failed: {e}")))?;
        let (helper, pairaddr, pa) = (iw.helper.clone().unwrap(), iw.pair.clone().unwrap(), iw.pair_assets.clone().unwrap());
        let owner = iw.w.owner.clone();
        let f = iw.w.factory.clone().unwrap();
        iw.w
            .exec(
                &owner,
                &f,
                &white_whale_std::pool_network::factory::ExecuteMsg::UpdatePairConfig {
                    pair_addr: pairaddr.to_string(),
                    owner: None,
                    fee_collector_addr: None,
                    pool_fees: None,
                    feature_toggle: Some(pair::FeatureToggle {
                        withdrawals_enabled: c.flags[0],
                        deposits_enabled: c.flags[1],
                        swaps_enabled: c.flags[2],
                    }),
                },
                &[],
            )
            .map_err(|e| Fail::new(format!("setting switches failed: {e}")))?;
        if !c.flags[1] {
            rec.nontrivial(hash_of(c));
        }
        rec.sample(c);
        let who = iw.user(1);
        let a = c.amount.u128();
        if !c.stray_lp.is_zero() {
            // LP transfers are no pool operation; the switches do not concern them
            let donor = iw.user(2);
            let lp = iw.lp.clone();
            iw.w.transfer(&donor, &helper, &lp, c.stray_lp.u128()).map_err(|e| Fail::unobservable(format!("transferring LP to the helper: {e}")))?;
            rec.class("helper_holds_stray_lp");
        }
        let snap = iw.w.snapshot();
        let staked_before = iw.w.bal(&iw.lp, &iw.incentive);
        let r = iw.w.exec(
            &who,
            &helper,
            &white_whale_std::pool_network::frontend_helper::ExecuteMsg::Deposit {
                pair_address: pairaddr.to_string(),
                assets: [asset(&pa[0], a), asset(&pa[1], a)],
                slippage_tolerance: None,
                unbonding_duration: 86_400,
            },
            &[coin(a, "uaaa"), coin(a, "ubbb")],
        );
        if c.flags[1] {
            ensure!(r.is_ok(), "helper deposit rejected although deposits are enabled: {:?}", r.err());
            ensure!(iw.w.bal(&iw.lp, &iw.incentive) > staked_before, "helper deposit staked nothing");
            rec.class("helper_deposit_ok");
        } else {
            ensure!(r.is_err(), "helper deposit succeeded although deposits are disabled on the pair");
            let s2 = iw.w.snapshot();
            ensure!(s2 == snap, "rejected helper deposit changed the world: {}", snap.diff(&s2));
            rec.class("helper_deposit_blocked");
        }
        Ok(())
    }
}

pub fn property() -> Property {
    Property {
        id: "C17",
        checks: vec![Box::new(PoolToggles), Box::new(VaultToggles), Box::new(HelperDepositToggle)],
        assumptions: vec![
            "switches are set through the factories (the real write path); twin worlds are built by the same deterministic builder, so any difference comes from the switches",
            "the entry path that only exists for token-factory LP tokens (WithdrawLiquidity{} with LP coins as funds) cannot be driven under cw-multi-test 0.16; it is exercised by the token-factory build part (harness_tf, check tf_pool_pause_switches) whose coverage is merged into this evidence file",
        ],
    }
}
