//! Worlds: the real contracts running in-process under cw-multi-test, plus snapshot / balance
//! helpers shared by every stateful check.

use std::collections::BTreeMap;
use std::panic::{catch_unwind, AssertUnwindSafe};

use cosmwasm_std::{
    coin, to_json_binary, Addr, Binary, BlockInfo, Coin, Decimal, Empty, Timestamp, Uint128, Uint64,
};
use cw20::{Cw20Coin, Cw20ExecuteMsg, MinterResponse};
use cw_multi_test::{App, AppBuilder, AppResponse, BankKeeper, Contract, ContractWrapper, Executor};
use serde::de::DeserializeOwned;
use serde::Serialize;

use white_whale_std::epoch_manager::epoch_manager::EpochConfig;
use white_whale_std::fee::{Fee, VaultFee};
use white_whale_std::pool_network::asset::{Asset, AssetInfo, PairInfo, PairType, TrioInfo};
use white_whale_std::pool_network::pair::PoolFee;
use white_whale_std::pool_network::trio::PoolFee as TrioPoolFee;

pub const START_TIME_S: u64 = 1_700_000_000;
pub const DAY_NS: u64 = 86_400_000_000_000;

pub fn dec(atomics: u128) -> Decimal {
    Decimal::from_atomics(atomics, 18).unwrap()
}

pub fn pool_fee(f: [u128; 3]) -> PoolFee {
    PoolFee {
        protocol_fee: Fee { share: dec(f[0]) },
        swap_fee: Fee { share: dec(f[1]) },
        burn_fee: Fee { share: dec(f[2]) },
    }
}

pub fn trio_fee(f: [u128; 3]) -> TrioPoolFee {
    TrioPoolFee {
        protocol_fee: Fee { share: dec(f[0]) },
        swap_fee: Fee { share: dec(f[1]) },
        burn_fee: Fee { share: dec(f[2]) },
    }
}

/// (protocol, flash_loan, burn)
pub fn vault_fee(f: [u128; 3]) -> VaultFee {
    VaultFee {
        protocol_fee: Fee { share: dec(f[0]) },
        flash_loan_fee: Fee { share: dec(f[1]) },
        burn_fee: Fee { share: dec(f[2]) },
    }
}

pub fn native(denom: &str) -> AssetInfo {
    AssetInfo::NativeToken {
        denom: denom.to_string(),
    }
}

pub fn token(addr: &Addr) -> AssetInfo {
    AssetInfo::Token {
        contract_addr: addr.to_string(),
    }
}

pub fn asset(info: &AssetInfo, amount: u128) -> Asset {
    Asset {
        info: info.clone(),
        amount: Uint128::new(amount),
    }
}

#[derive(Clone, Debug)]
pub struct CodeIds {
    pub token: u64,
    pub pair: u64,
    pub trio: u64,
    pub factory: u64,
    pub router: u64,
    pub frontend_helper: u64,
    pub incentive: u64,
    pub incentive_factory: u64,
    pub vault: u64,
    pub vault_factory: u64,
    pub vault_router: u64,
    pub fee_collector: u64,
    pub fee_distributor: u64,
    pub fee_distributor_mock: u64,
    pub whale_lair: u64,
    pub epoch_manager: u64,
}

fn boxed<C: Contract<Empty> + 'static>(c: C) -> Box<dyn Contract<Empty>> {
    Box::new(c)
}

pub fn store_all(app: &mut App) -> CodeIds {
    CodeIds {
        token: app.store_code(boxed(ContractWrapper::new(
            terraswap_token::contract::execute,
            terraswap_token::contract::instantiate,
            terraswap_token::contract::query,
        ))),
        pair: app.store_code(boxed(
            ContractWrapper::new(
                terraswap_pair::contract::execute,
                terraswap_pair::contract::instantiate,
                terraswap_pair::contract::query,
            )
            .with_reply(terraswap_pair::contract::reply)
            .with_migrate(terraswap_pair::contract::migrate),
        )),
        trio: app.store_code(boxed(
            ContractWrapper::new(
                stableswap_3pool::contract::execute,
                stableswap_3pool::contract::instantiate,
                stableswap_3pool::contract::query,
            )
            .with_reply(stableswap_3pool::contract::reply)
            .with_migrate(stableswap_3pool::contract::migrate),
        )),
        factory: app.store_code(boxed(
            ContractWrapper::new(
                terraswap_factory::contract::execute,
                terraswap_factory::contract::instantiate,
                terraswap_factory::contract::query,
            )
            .with_reply(terraswap_factory::contract::reply)
            .with_migrate(terraswap_factory::contract::migrate),
        )),
        router: app.store_code(boxed(
            ContractWrapper::new(
                terraswap_router::contract::execute,
                terraswap_router::contract::instantiate,
                terraswap_router::contract::query,
            )
            .with_migrate(terraswap_router::contract::migrate),
        )),
        frontend_helper: app.store_code(boxed(
            ContractWrapper::new(
                frontend_helper::contract::execute,
                frontend_helper::contract::instantiate,
                frontend_helper::contract::query,
            )
            .with_reply(frontend_helper::contract::reply)
            .with_migrate(frontend_helper::contract::migrate),
        )),
        incentive: app.store_code(boxed(
            ContractWrapper::new(
                incentive::contract::execute,
                incentive::contract::instantiate,
                incentive::contract::query,
            )
            .with_migrate(incentive::contract::migrate),
        )),
        incentive_factory: app.store_code(boxed(
            ContractWrapper::new(
                incentive_factory::contract::execute,
                incentive_factory::contract::instantiate,
                incentive_factory::contract::query,
            )
            .with_reply(incentive_factory::contract::reply)
            .with_migrate(incentive_factory::contract::migrate),
        )),
        vault: app.store_code(boxed(
            ContractWrapper::new(
                vault::contract::execute,
                vault::contract::instantiate,
                vault::contract::query,
            )
            .with_reply(vault::reply::reply)
            .with_migrate(vault::contract::migrate),
        )),
        vault_factory: app.store_code(boxed(
            ContractWrapper::new(
                vault_factory::contract::execute,
                vault_factory::contract::instantiate,
                vault_factory::contract::query,
            )
            .with_reply(vault_factory::reply::reply)
            .with_migrate(vault_factory::contract::migrate),
        )),
        vault_router: app.store_code(boxed(
            ContractWrapper::new(
                vault_router::contract::execute,
                vault_router::contract::instantiate,
                vault_router::contract::query,
            )
            .with_migrate(vault_router::contract::migrate),
        )),
        fee_collector: app.store_code(boxed(
            ContractWrapper::new(
                fee_collector::contract::execute,
                fee_collector::contract::instantiate,
                fee_collector::contract::query,
            )
            .with_reply(fee_collector::contract::reply)
            .with_migrate(fee_collector::contract::migrate),
        )),
        fee_distributor: app.store_code(boxed(
            ContractWrapper::new(
                fee_distributor::contract::execute,
                fee_distributor::contract::instantiate,
                fee_distributor::contract::query,
            )
            .with_reply(fee_distributor::contract::reply)
            .with_migrate(fee_distributor::contract::migrate),
        )),
        fee_distributor_mock: app.store_code(boxed(ContractWrapper::new(
            fee_distributor_mock::contract::execute,
            fee_distributor_mock::contract::instantiate,
            fee_distributor_mock::contract::query,
        ))),
        whale_lair: app.store_code(boxed(
            ContractWrapper::new(
                whale_lair::contract::execute,
                whale_lair::contract::instantiate,
                whale_lair::contract::query,
            )
            .with_migrate(whale_lair::contract::migrate),
        )),
        epoch_manager: app.store_code(boxed(
            ContractWrapper::new(
                epoch_manager::contract::execute,
                epoch_manager::contract::instantiate,
                epoch_manager::contract::query,
            )
            .with_migrate(epoch_manager::contract::migrate),
        )),
    }
}

#[derive(Clone, Debug, PartialEq, Eq)]
pub struct Snapshot {
    pub storage: BTreeMap<String, Vec<(Vec<u8>, Vec<u8>)>>,
    pub bank: BTreeMap<(String, String), u128>,
}

impl Snapshot {
    pub fn diff(&self, other: &Snapshot) -> String {
        let mut out = vec![];
        for (k, v) in &self.storage {
            if other.storage.get(k) != Some(v) {
                out.push(format!("storage of {k} differs"));
            }
        }
        for (k, v) in &self.bank {
            let o = other.bank.get(k).copied().unwrap_or(0);
            if o != *v {
                out.push(format!("bank {}:{} {} -> {}", k.0, k.1, v, o));
            }
        }
        for (k, v) in &other.bank {
            if !self.bank.contains_key(k) && *v != 0 {
                out.push(format!("bank {}:{} 0 -> {}", k.0, k.1, v));
            }
        }
        out.join("; ")
    }
}

pub struct World {
    pub app: App,
    pub code: CodeIds,
    pub owner: Addr,
    pub users: Vec<Addr>,
    /// every contract instantiated in this world (label, address)
    pub contracts: Vec<(String, Addr)>,
    /// every plain account the world knows
    pub accounts: Vec<Addr>,
    pub denoms: Vec<String>,
    // optional components
    pub fee_collector: Option<Addr>,
    pub factory: Option<Addr>,
    pub router: Option<Addr>,
    pub vault_factory: Option<Addr>,
    pub vault_router: Option<Addr>,
    pub whale_lair: Option<Addr>,
    pub fee_distributor: Option<Addr>,
    pub incentive_factory: Option<Addr>,
    pub frontend_helper: Option<Addr>,
}

pub const FUND: u128 = 1u128 << 126;

pub type ExecResult = Result<AppResponse, String>;

impl World {
    /// A world with `owner`, the given users, each funded with `FUND` of every denom.
    pub fn new(user_names: &[&str], denoms: &[&str]) -> World {
        Self::new_with_fund(user_names, denoms, FUND)
    }

    pub fn new_with_fund(user_names: &[&str], denoms: &[&str], fund: u128) -> World {
        let owner = Addr::unchecked("owner");
        let users: Vec<Addr> = user_names.iter().map(|n| Addr::unchecked(*n)).collect();
        let mut accounts = vec![owner.clone()];
        accounts.extend(users.iter().cloned());
        let coins: Vec<Coin> = denoms.iter().map(|d| coin(fund, *d)).collect();
        let init = accounts.clone();
        let mut app = AppBuilder::new()
            .with_bank(BankKeeper::new())
            .build(|router, _api, storage| {
                for a in &init {
                    if !coins.is_empty() {
                        router.bank.init_balance(storage, a, coins.clone()).unwrap();
                    }
                }
            });
        app.set_block(BlockInfo {
            height: 1_000,
            time: Timestamp::from_seconds(START_TIME_S),
            chain_id: "verif-1".to_string(),
        });
        let code = store_all(&mut app);
        World {
            app,
            code,
            owner,
            users,
            contracts: vec![],
            accounts,
            denoms: denoms.iter().map(|d| d.to_string()).collect(),
            fee_collector: None,
            factory: None,
            router: None,
            vault_factory: None,
            vault_router: None,
            whale_lair: None,
            fee_distributor: None,
            incentive_factory: None,
            frontend_helper: None,
        }
    }

    pub fn add_account(&mut self, name: &str) -> Addr {
        let a = Addr::unchecked(name);
        if !self.accounts.contains(&a) {
            self.accounts.push(a.clone());
        }
        a
    }

    pub fn register(&mut self, label: &str, addr: &Addr) {
        if !self.contracts.iter().any(|(_, a)| a == addr) {
            self.contracts.push((label.to_string(), addr.clone()));
        }
    }

    pub fn instantiate<T: Serialize>(
        &mut self,
        code_id: u64,
        sender: &Addr,
        msg: &T,
        label: &str,
        admin: Option<String>,
    ) -> Result<Addr, String> {
        let r = catch_unwind(AssertUnwindSafe(|| {
            self.app
                .instantiate_contract(code_id, sender.clone(), msg, &[], label, admin)
        }));
        match r {
            Ok(Ok(a)) => {
                self.register(label, &a);
                Ok(a)
            }
            Ok(Err(e)) => Err(format!("{:#}", e)),
            Err(p) => Err(format!("panic: {}", crate::engine::panic_msg(&p))),
        }
    }

    /// Executes a message; a contract panic is a rejection (Wasm trap).
    pub fn exec<T: Serialize + std::fmt::Debug>(
        &mut self,
        sender: &Addr,
        contract: &Addr,
        msg: &T,
        funds: &[Coin],
    ) -> ExecResult {
        let r = catch_unwind(AssertUnwindSafe(|| {
            self.app
                .execute_contract(sender.clone(), contract.clone(), msg, funds)
        }));
        match r {
            Ok(Ok(resp)) => Ok(resp),
            Ok(Err(e)) => Err(format!("{:#}", e)),
            Err(p) => Err(format!("panic: {}", crate::engine::panic_msg(&p))),
        }
    }

    pub fn query<T: DeserializeOwned, M: Serialize>(&self, contract: &Addr, msg: &M) -> Result<T, String> {
        let r = catch_unwind(AssertUnwindSafe(|| {
            self.app.wrap().query_wasm_smart::<T>(contract.to_string(), msg)
        }));
        match r {
            Ok(Ok(v)) => Ok(v),
            Ok(Err(e)) => Err(e.to_string()),
            Err(p) => Err(format!("panic: {}", crate::engine::panic_msg(&p))),
        }
    }

    pub fn raw(&self, contract: &Addr, key: &[u8]) -> Option<Vec<u8>> {
        self.app
            .wrap()
            .query_wasm_raw(contract.to_string(), key.to_vec())
            .ok()
            .flatten()
    }

    pub fn now(&self) -> Timestamp {
        self.app.block_info().time
    }

    pub fn advance(&mut self, dt_ns: u64, dheight: u64) {
        self.app.update_block(|b| {
            b.time = b.time.plus_nanos(dt_ns);
            b.height += dheight;
        });
    }

    // ---------------- balances ----------------

    pub fn bank(&self, addr: &Addr, denom: &str) -> u128 {
        self.app
            .wrap()
            .query_balance(addr.to_string(), denom)
            .map(|c| c.amount.u128())
            .unwrap_or(0)
    }

    pub fn cw20_balance(&self, token: &Addr, addr: &Addr) -> u128 {
        let r: Result<cw20::BalanceResponse, _> = self.app.wrap().query_wasm_smart(
            token.to_string(),
            &cw20::Cw20QueryMsg::Balance {
                address: addr.to_string(),
            },
        );
        r.map(|b| b.balance.u128()).unwrap_or(0)
    }

    pub fn cw20_supply(&self, token: &Addr) -> u128 {
        let r: Result<cw20::TokenInfoResponse, _> = self
            .app
            .wrap()
            .query_wasm_smart(token.to_string(), &cw20::Cw20QueryMsg::TokenInfo {});
        r.map(|b| b.total_supply.u128()).unwrap_or(0)
    }

    pub fn bal(&self, info: &AssetInfo, addr: &Addr) -> u128 {
        match info {
            AssetInfo::NativeToken { denom } => self.bank(addr, denom),
            AssetInfo::Token { contract_addr } => {
                self.cw20_balance(&Addr::unchecked(contract_addr), addr)
            }
        }
    }

    /// Closed-world circulating supply: cw20 total_supply, or the sum over every known account
    /// and contract for a native denom.
    pub fn supply(&self, info: &AssetInfo) -> u128 {
        match info {
            AssetInfo::Token { contract_addr } => self.cw20_supply(&Addr::unchecked(contract_addr)),
            AssetInfo::NativeToken { denom } => {
                let mut s = 0u128;
                for a in self.accounts.iter().chain(self.contracts.iter().map(|(_, a)| a)) {
                    s += self.bank(a, denom);
                }
                s
            }
        }
    }

    pub fn snapshot(&self) -> Snapshot {
        let mut storage = BTreeMap::new();
        for (label, addr) in &self.contracts {
            let dump = self.app.dump_wasm_raw(addr);
            storage.insert(format!("{label}@{addr}"), dump);
        }
        let mut bank = BTreeMap::new();
        for a in self.accounts.iter().chain(self.contracts.iter().map(|(_, a)| a)) {
            if let Ok(all) = self.app.wrap().query_all_balances(a.to_string()) {
                for c in all {
                    bank.insert((a.to_string(), c.denom), c.amount.u128());
                }
            }
        }
        Snapshot { storage, bank }
    }

    // ---------------- cw20 ----------------

    /// Creates a cw20 with `FUND` minted to every user and the owner; the owner is the minter.
    pub fn create_cw20(&mut self, symbol: &str, decimals: u8) -> Addr {
        self.create_cw20_with_fund(symbol, decimals, FUND / 64)
    }

    pub fn create_cw20_with_fund(&mut self, symbol: &str, decimals: u8, fund: u128) -> Addr {
        let balances: Vec<Cw20Coin> = self
            .accounts
            .iter()
            .map(|a| Cw20Coin {
                address: a.to_string(),
                amount: Uint128::new(fund),
            })
            .collect();
        let msg = white_whale_std::pool_network::token::InstantiateMsg {
            name: format!("{symbol} token"),
            symbol: symbol.to_string(),
            decimals,
            initial_balances: balances,
            mint: Some(MinterResponse {
                minter: self.owner.to_string(),
                cap: None,
            }),
        };
        let owner = self.owner.clone();
        self.instantiate(self.code.token, &owner, &msg, &format!("cw20-{symbol}"), None)
            .expect("cw20 instantiate")
    }

    pub fn increase_allowance(&mut self, owner: &Addr, token: &Addr, spender: &Addr, amount: u128) {
        let _ = self.exec(
            owner,
            token,
            &Cw20ExecuteMsg::IncreaseAllowance {
                spender: spender.to_string(),
                amount: Uint128::new(amount),
                expires: None,
            },
            &[],
        );
    }

    pub fn cw20_send<T: Serialize>(
        &mut self,
        sender: &Addr,
        token: &Addr,
        contract: &Addr,
        amount: u128,
        hook: &T,
    ) -> ExecResult {
        self.exec(
            sender,
            token,
            &Cw20ExecuteMsg::Send {
                contract: contract.to_string(),
                amount: Uint128::new(amount),
                msg: to_json_binary(hook).unwrap(),
            },
            &[],
        )
    }

    /// Plain transfer of an asset (donation).
    pub fn transfer(&mut self, from: &Addr, to: &Addr, info: &AssetInfo, amount: u128) -> ExecResult {
        match info {
            AssetInfo::NativeToken { denom } => {
                let r = catch_unwind(AssertUnwindSafe(|| {
                    self.app.send_tokens(from.clone(), to.clone(), &[coin(amount, denom)])
                }));
                match r {
                    Ok(Ok(resp)) => Ok(resp),
                    Ok(Err(e)) => Err(format!("{:#}", e)),
                    Err(_) => Err("panic".into()),
                }
            }
            AssetInfo::Token { contract_addr } => self.exec(
                from,
                &Addr::unchecked(contract_addr),
                &Cw20ExecuteMsg::Transfer {
                    recipient: to.to_string(),
                    amount: Uint128::new(amount),
                },
                &[],
            ),
        }
    }

    // ---------------- pool network ----------------

    pub fn setup_pool_network(&mut self) {
        let owner = self.owner.clone();
        let collector = self
            .instantiate(
                self.code.fee_collector,
                &owner,
                &white_whale_std::fee_collector::InstantiateMsg {},
                "fee_collector",
                None,
            )
            .expect("fee collector");
        let factory = self
            .instantiate(
                self.code.factory,
                &owner,
                &white_whale_std::pool_network::factory::InstantiateMsg {
                    pair_code_id: self.code.pair,
                    trio_code_id: self.code.trio,
                    token_code_id: self.code.token,
                    fee_collector_addr: collector.to_string(),
                },
                "pool_factory",
                None,
            )
            .expect("factory");
        // the router's route management is authorised by the wasm admin
        let router = self
            .instantiate(
                self.code.router,
                &owner,
                &white_whale_std::pool_network::router::InstantiateMsg {
                    terraswap_factory: factory.to_string(),
                },
                "pool_router",
                Some(owner.to_string()),
            )
            .expect("router");
        self.fee_collector = Some(collector);
        self.factory = Some(factory);
        self.router = Some(router);
    }

    pub fn register_native_decimals(&mut self, denom: &str, decimals: u8) {
        let owner = self.owner.clone();
        let factory = self.factory.clone().unwrap();
        self.exec(
            &owner,
            &factory,
            &white_whale_std::pool_network::factory::ExecuteMsg::AddNativeTokenDecimals {
                denom: denom.to_string(),
                decimals,
            },
            &[],
        )
        .expect("add native decimals");
    }

    pub fn create_pair(
        &mut self,
        infos: [AssetInfo; 2],
        fees: PoolFee,
        pair_type: PairType,
    ) -> Result<PairInfo, String> {
        let owner = self.owner.clone();
        let factory = self.factory.clone().unwrap();
        self.exec(
            &owner,
            &factory,
            &white_whale_std::pool_network::factory::ExecuteMsg::CreatePair {
                asset_infos: infos.clone(),
                pool_fees: fees,
                pair_type,
                token_factory_lp: false,
            },
            &[],
        )?;
        let info: PairInfo = self.query(
            &factory,
            &white_whale_std::pool_network::factory::QueryMsg::Pair { asset_infos: infos },
        )?;
        let pair = Addr::unchecked(info.contract_addr.clone());
        let n = self.contracts.len();
        self.register(&format!("pair{n}"), &pair);
        if let AssetInfo::Token { contract_addr } = &info.liquidity_token {
            self.register(&format!("lp{n}"), &Addr::unchecked(contract_addr));
        }
        Ok(info)
    }

    pub fn create_trio(
        &mut self,
        infos: [AssetInfo; 3],
        fees: TrioPoolFee,
        amp: u64,
    ) -> Result<TrioInfo, String> {
        let owner = self.owner.clone();
        let factory = self.factory.clone().unwrap();
        self.exec(
            &owner,
            &factory,
            &white_whale_std::pool_network::factory::ExecuteMsg::CreateTrio {
                asset_infos: infos.clone(),
                pool_fees: fees,
                amp_factor: amp,
                token_factory_lp: false,
            },
            &[],
        )?;
        let info: TrioInfo = self.query(
            &factory,
            &white_whale_std::pool_network::factory::QueryMsg::Trio { asset_infos: infos },
        )?;
        let trio = Addr::unchecked(info.contract_addr.clone());
        let n = self.contracts.len();
        self.register(&format!("trio{n}"), &trio);
        if let AssetInfo::Token { contract_addr } = &info.liquidity_token {
            self.register(&format!("lp{n}"), &Addr::unchecked(contract_addr));
        }
        Ok(info)
    }

    // ---------------- vault network ----------------

    pub fn setup_vault_network(&mut self) {
        let owner = self.owner.clone();
        if self.fee_collector.is_none() {
            let collector = self
                .instantiate(
                    self.code.fee_collector,
                    &owner,
                    &white_whale_std::fee_collector::InstantiateMsg {},
                    "fee_collector",
                    None,
                )
                .expect("fee collector");
            self.fee_collector = Some(collector);
        }
        let collector = self.fee_collector.clone().unwrap();
        let vf = self
            .instantiate(
                self.code.vault_factory,
                &owner,
                &white_whale_std::vault_network::vault_factory::InstantiateMsg {
                    owner: owner.to_string(),
                    vault_id: self.code.vault,
                    token_id: self.code.token,
                    fee_collector_addr: collector.to_string(),
                },
                "vault_factory",
                None,
            )
            .expect("vault factory");
        let vr = self
            .instantiate(
                self.code.vault_router,
                &owner,
                &white_whale_std::vault_network::vault_router::InstantiateMsg {
                    owner: owner.to_string(),
                    vault_factory_addr: vf.to_string(),
                },
                "vault_router",
                None,
            )
            .expect("vault router");
        self.vault_factory = Some(vf);
        self.vault_router = Some(vr);
    }

    /// Creates a vault through the vault factory; returns (vault, lp token).
    pub fn create_vault(&mut self, info: &AssetInfo, fees: VaultFee) -> Result<(Addr, Addr), String> {
        let owner = self.owner.clone();
        let vf = self.vault_factory.clone().unwrap();
        self.exec(
            &owner,
            &vf,
            &white_whale_std::vault_network::vault_factory::ExecuteMsg::CreateVault {
                asset_info: info.clone(),
                fees,
                token_factory_lp: false,
            },
            &[],
        )?;
        let v: Option<String> = self.query(
            &vf,
            &white_whale_std::vault_network::vault_factory::QueryMsg::Vault {
                asset_info: info.clone(),
            },
        )?;
        let vault = Addr::unchecked(v.ok_or("vault not registered")?);
        let cfg: white_whale_std::vault_network::vault::Config =
            self.query(&vault, &white_whale_std::vault_network::vault::QueryMsg::Config {})?;
        let lp = match cfg.lp_asset {
            AssetInfo::Token { contract_addr } => Addr::unchecked(contract_addr),
            AssetInfo::NativeToken { denom } => return Err(format!("native lp {denom}")),
        };
        let n = self.contracts.len();
        self.register(&format!("vault{n}"), &vault);
        self.register(&format!("vault_lp{n}"), &lp);
        Ok((vault, lp))
    }

    // ---------------- fee hub ----------------

    /// whale lair + fee distributor, wired to the collector / factories already present.
    pub fn setup_fee_hub(
        &mut self,
        bonding_denoms: &[&str],
        unbonding_period_ns: u64,
        growth_rate: Decimal,
        grace_period: u64,
        epoch_duration_ns: u64,
        genesis_ns: u64,
        distribution_asset: AssetInfo,
    ) -> Result<(), String> {
        let owner = self.owner.clone();
        let collector = self.fee_collector.clone().expect("collector first");
        let lair = self.instantiate(
            self.code.whale_lair,
            &owner,
            &white_whale_std::whale_lair::InstantiateMsg {
                unbonding_period: Uint64::new(unbonding_period_ns),
                growth_rate,
                bonding_assets: bonding_denoms.iter().map(|d| native(d)).collect(),
            },
            "whale_lair",
            None,
        )?;
        let dist = self.instantiate(
            self.code.fee_distributor,
            &owner,
            &white_whale_std::fee_distributor::InstantiateMsg {
                bonding_contract_addr: lair.to_string(),
                fee_collector_addr: collector.to_string(),
                grace_period: Uint64::new(grace_period),
                epoch_config: EpochConfig {
                    duration: Uint64::new(epoch_duration_ns),
                    genesis_epoch: Uint64::new(genesis_ns),
                },
                distribution_asset,
            },
            "fee_distributor",
            None,
        )?;
        self.exec(
            &owner,
            &lair,
            &white_whale_std::whale_lair::ExecuteMsg::UpdateConfig {
                owner: None,
                unbonding_period: None,
                growth_rate: None,
                fee_distributor_addr: Some(dist.to_string()),
            },
            &[],
        )?;
        self.exec(
            &owner,
            &collector,
            &white_whale_std::fee_collector::ExecuteMsg::UpdateConfig {
                owner: None,
                pool_router: self.router.as_ref().map(|a| a.to_string()),
                fee_distributor: Some(dist.to_string()),
                pool_factory: self.factory.as_ref().map(|a| a.to_string()),
                vault_factory: self.vault_factory.as_ref().map(|a| a.to_string()),
                take_rate: None,
                take_rate_dao_address: None,
                is_take_rate_active: None,
            },
            &[],
        )?;
        self.whale_lair = Some(lair);
        self.fee_distributor = Some(dist);
        Ok(())
    }
}

pub fn bin<T: Serialize>(t: &T) -> Binary {
    to_json_binary(t).unwrap()
}

/// Extracts the first value of attribute `key` of wasm events whose `_contract_addr`/`_contract_address` is `contract`.
pub fn wasm_attr(resp: &AppResponse, contract: &Addr, key: &str) -> Option<String> {
    for ev in &resp.events {
        if ev.ty != "wasm" {
            continue;
        }
        let from = ev
            .attributes
            .iter()
            .any(|a| (a.key == "_contract_addr" || a.key == "_contract_address") && a.value == contract.as_str());
        if !from {
            continue;
        }
        for a in &ev.attributes {
            if a.key == key {
                return Some(a.value.clone());
            }
        }
    }
    None
}
