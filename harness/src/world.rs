//! Worlds: the real contracts running in-process under cw-multi-test.
