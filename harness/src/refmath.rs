//! Exact reference maths, independent of the contracts' code: 1024-bit unsigned integers,
//! floors of products/quotients and bisection on monotone polynomials only.

use bnum::BUint;

pub type U = BUint<16>; // 1024 bits

pub const E18: u128 = 1_000_000_000_000_000_000;

pub fn u(x: u128) -> U {
    U::from(x)
}

pub fn to_u128(x: U) -> Option<u128> {
    if x.bits() > 128 {
        None
    } else {
        let d = x.digits();
        Some((d[0] as u128) | ((d[1] as u128) << 64))
    }
}

pub fn to_f64(x: U) -> f64 {
    let d = x.digits();
    let mut r = 0f64;
    for i in (0..16).rev() {
        r = r * 18446744073709551616.0 + d[i] as f64;
    }
    r
}

pub fn pow10(n: u32) -> U {
    let mut r = U::ONE;
    for _ in 0..n {
        r = r * u(10);
    }
    r
}

/// ⌊a·b/c⌋
pub fn muldiv(a: U, b: U, c: U) -> U {
    a * b / c
}

/// ⌈a/b⌉
pub fn ceil_div(a: U, b: U) -> U {
    if a.is_zero() {
        U::ZERO
    } else {
        (a - U::ONE) / b + U::ONE
    }
}

/// ⌊amount · share⌋ for an 18-decimal share given in atomics.
pub fn fee_floor(amount: U, share_atomics: u128) -> U {
    amount * u(share_atomics) / u(E18)
}

/// Largest v in [lo, hi] with pred(v) true, given pred is true on a prefix (true…true false…false)
/// and pred(lo) is true.
pub fn bisect_last_true(mut lo: U, mut hi: U, pred: impl Fn(U) -> bool) -> U {
    if pred(hi) {
        return hi;
    }
    // invariant: pred(lo) true, pred(hi) false
    while hi - lo > U::ONE {
        let mid = lo + (hi - lo) / u(2);
        if pred(mid) {
            lo = mid;
        } else {
            hi = mid;
        }
    }
    lo
}

/// Smallest v in [lo, hi] with pred(v) true, given pred is false on a prefix and pred(hi) true.
pub fn bisect_first_true(mut lo: U, mut hi: U, pred: impl Fn(U) -> bool) -> U {
    if pred(lo) {
        return lo;
    }
    while hi - lo > U::ONE {
        let mid = lo + (hi - lo) / u(2);
        if pred(mid) {
            hi = mid;
        } else {
            lo = mid;
        }
    }
    hi
}

/// ⌊√n⌋
pub fn isqrt(n: U) -> U {
    if n.is_zero() {
        return U::ZERO;
    }
    let hi = U::ONE << ((n.bits() + 1) / 2 + 1);
    bisect_last_true(U::ZERO, hi, |v| v * v <= n)
}

// ---------------------------------------------------------------------------------------------
// constant product
// ---------------------------------------------------------------------------------------------

#[derive(Clone, Debug, PartialEq, Eq)]
pub struct CpSwap {
    pub gross: U,
    pub fees: [U; 3],
    pub ret: U,
    /// documented spread: max(0, ⌊offer·⌊ask·10^18/offer_pool⌋/10^18⌋ − gross)
    pub spread: U,
}

/// fee shares are given in the order the caller wants; they are simply floored on the gross.
pub fn cp_swap(offer_pool: u128, ask_pool: u128, offer: u128, shares: [u128; 3]) -> CpSwap {
    let gross = u(ask_pool) * u(offer) / (u(offer_pool) + u(offer));
    let fees = [
        fee_floor(gross, shares[0]),
        fee_floor(gross, shares[1]),
        fee_floor(gross, shares[2]),
    ];
    let ret = gross - fees[0] - fees[1] - fees[2];
    let rate = u(ask_pool) * u(E18) / u(offer_pool);
    let ideal = u(offer) * rate / u(E18);
    let spread = if ideal > gross { ideal - gross } else { U::ZERO };
    CpSwap {
        gross,
        fees,
        ret,
        spread,
    }
}

// ---------------------------------------------------------------------------------------------
// stableswap invariant, n = 2 and n = 3
// ---------------------------------------------------------------------------------------------

/// n = 2: largest D with D³ + (Ann−1)·4xy·D ≤ Ann·4xy·(x+y), Ann = 2·amp.
pub fn exact_d2(x: U, y: U, amp: u64) -> U {
    if x.is_zero() || y.is_zero() {
        return U::ZERO;
    }
    let ann = u(2 * amp as u128);
    let p4 = u(4) * x * y;
    let rhs = ann * p4 * (x + y);
    let k = (ann - U::ONE) * p4;
    bisect_last_true(U::ZERO, x + y + U::ONE, |d| d * d * d + k * d <= rhs)
}

/// n = 2: smallest y ≥ 0 such that (x, y) lies on or above the curve with invariant d:
/// Ann·4xy(x+y) ≥ (Ann−1)·4xy·d + d³.
pub fn exact_y2(x: U, d: U, amp: u64) -> U {
    let ann = u(2 * amp as u128);
    let d3 = d * d * d;
    let pred = |y: U| {
        let p4 = u(4) * x * y;
        ann * p4 * (x + y) >= (ann - U::ONE) * p4 * d + d3
    };
    // y ≤ d always suffices? not when x is tiny; grow the upper bound geometrically.
    let mut hi = d + U::ONE;
    let mut guard = 0;
    while !pred(hi) {
        hi = hi * u(4);
        guard += 1;
        if guard > 400 {
            break;
        }
    }
    bisect_first_true(U::ZERO, hi, pred)
}

/// n = 3: largest D with D⁴ + (Ann−1)·27xyz·D ≤ Ann·27xyz·(x+y+z), Ann = 3·amp.
pub fn exact_d3(x: U, y: U, z: U, amp: u64) -> U {
    if x.is_zero() || y.is_zero() || z.is_zero() {
        return U::ZERO;
    }
    let ann = u(3 * amp as u128);
    let p = u(27) * x * y * z;
    let rhs = ann * p * (x + y + z);
    let k = (ann - U::ONE) * p;
    bisect_last_true(U::ZERO, x + y + z + U::ONE, |d| d * d * d * d + k * d <= rhs)
}

/// n = 3: smallest y such that (x, y, z) lies on or above the curve with invariant d.
pub fn exact_y3(x: U, z: U, d: U, amp: u64) -> U {
    let ann = u(3 * amp as u128);
    let d4 = d * d * d * d;
    let pred = |y: U| {
        let p = u(27) * x * y * z;
        ann * p * (x + y + z) >= (ann - U::ONE) * p * d + d4
    };
    let mut hi = d + U::ONE;
    let mut guard = 0;
    while !pred(hi) {
        hi = hi * u(4);
        guard += 1;
        if guard > 400 {
            break;
        }
    }
    bisect_first_true(U::ZERO, hi, pred)
}

/// Self-test of the reference maths against brute force on small values. Panics on mismatch.
// ---------------------------------------------------------------------------------------------
// The documented integer algorithm of the three-asset pool (Curve / saber "stable-swap" Newton
// iterations with a truncating division at every step), written out independently. It is NOT
// the oracle of any property: the oracle is the exact D above. It only tells whether a loss of
// exact D is inherent to the documented integer scheme (the listed finding) or comes from
// somewhere else (a violation).
// ---------------------------------------------------------------------------------------------

/// D by integer Newton iteration; `a`, `b`, `c` in the order the divisions are applied.
pub fn int_newton_d3(a: U, b: U, c: U, amp: u64) -> U {
    let s = a + b + c;
    if s.is_zero() {
        return U::ZERO;
    }
    let n = u(3);
    let ann = u(amp as u128) * n;
    let mut d = s;
    for _ in 0..256 {
        let mut p = d;
        p = p * d / (a * n);
        p = p * d / (b * n);
        p = p * d / (c * n);
        let prev = d;
        d = d * (p * n + s * ann) / (d * (ann - U::ONE) + p * u(4));
        let diff = if d > prev { d - prev } else { prev - d };
        if diff <= U::ONE {
            break;
        }
    }
    d
}

/// New balance of the ask asset by integer Newton iteration.
pub fn int_newton_y3(x_in: U, no_swap: U, d: U, amp: u64) -> U {
    let n = u(3);
    let ann = u(amp as u128) * n;
    let mut c = d;
    c = c * d / (x_in * n);
    c = c * d / (no_swap * n);
    c = c * d / (ann * n);
    let b = d / ann + x_in + no_swap;
    let mut y = d;
    for _ in 0..1000 {
        let prev = y;
        y = (y * y + c) / (y * u(2) + b - d);
        let diff = if y > prev { y - prev } else { prev - y };
        if diff <= U::ONE {
            break;
        }
    }
    y
}

/// Gross output of a swap of `dx` (offer reserve `x`, ask reserve `y`, third reserve `z`).
pub fn int_swap3(amp: u64, dx: u128, x: u128, y: u128, z: u128) -> Option<u128> {
    if x == 0 || y == 0 || z == 0 {
        return None;
    }
    let d = int_newton_d3(u(x), u(y), u(z), amp);
    let y_new = int_newton_y3(u(x) + u(dx), u(z), d, amp);
    let y_new = to_u128(y_new)?;
    y.checked_sub(y_new)?.checked_sub(1)
}

/// LP minted for a deposit into a live pool.
pub fn int_mint3(amp: u64, dep: [u128; 3], pools: [u128; 3], supply: u128) -> Option<u128> {
    if pools.iter().any(|p| *p == 0) {
        return None;
    }
    let d0 = int_newton_d3(u(pools[0]), u(pools[1]), u(pools[2]), amp);
    let d1 = int_newton_d3(u(pools[0]) + u(dep[0]), u(pools[1]) + u(dep[1]), u(pools[2]) + u(dep[2]), amp);
    if d1 <= d0 {
        return None;
    }
    to_u128(u(supply) * (d1 - d0) / d0)
}

pub fn self_test() {
    // isqrt
    for n in 0u128..2000 {
        let r = to_u128(isqrt(u(n))).unwrap();
        assert!(r * r <= n && (r + 1) * (r + 1) > n, "isqrt {n}");
    }
    // exact_d2 / exact_y2 brute force
    for amp in [1u64, 2, 7, 100] {
        for x in [1u128, 2, 3, 10, 57, 200] {
            for y in [1u128, 2, 5, 10, 99, 300] {
                let d = to_u128(exact_d2(u(x), u(y), amp)).unwrap();
                let ann = 2 * amp as u128;
                let f = |d: u128| d * d * d + (ann - 1) * 4 * x * y * d <= ann * 4 * x * y * (x + y);
                assert!(f(d) && !f(d + 1), "d2 {amp} {x} {y} -> {d}");
                // y back
                let yy = to_u128(exact_y2(u(x), u(d), amp)).unwrap();
                let g = |y: u128| {
                    ann * 4 * x * y * (x + y) >= (ann - 1) * 4 * x * y * d + d * d * d
                };
                assert!(g(yy) && (yy == 0 || !g(yy - 1)), "y2 {amp} {x} {d} -> {yy}");
                assert!(yy <= y, "y2 above original");
            }
        }
    }
    for amp in [1u64, 3, 50] {
        for x in [1u128, 4, 30] {
            for y in [2u128, 9, 44] {
                for z in [1u128, 7, 100] {
                    let d = to_u128(exact_d3(u(x), u(y), u(z), amp)).unwrap();
                    let ann = 3 * amp as u128;
                    let p = 27 * x * y * z;
                    let f = |d: u128| d * d * d * d + (ann - 1) * p * d <= ann * p * (x + y + z);
                    assert!(f(d) && !f(d + 1), "d3 {amp} {x} {y} {z} -> {d}");
                    let yy = to_u128(exact_y3(u(x), u(z), u(d), amp)).unwrap();
                    assert!(yy <= y, "y3 above original");
                }
            }
        }
    }
    // cp swap
    let s = cp_swap(1000, 1000, 1000, [E18 / 10, 0, 0]);
    assert_eq!(to_u128(s.gross), Some(500));
    assert_eq!(to_u128(s.ret), Some(450));
}
