//! wwcheck library: engine, worlds, reference maths and the per-property checks. The `wwcheck`
//! binary (src/main.rs) is the CLI; /verif/fuzz links this library for the coverage-guided targets.

pub mod engine;
pub mod incentives;
pub mod mocks;
pub mod pools;
pub mod props;
pub mod refmath;
pub mod vaults;
pub mod world;
