//! Vault world (real vault created through the real vault factory, vault router, adversarial
//! borrower, purse) and the history interpreter + oracles shared by C05, C06, C07.

use cosmwasm_std::{coin, to_json_binary, Addr, CosmosMsg, Empty, Uint128, WasmMsg};
use proptest::prelude::*;
use serde::{Deserialize, Serialize};

use white_whale_std::pool_network::asset::{Asset, AssetInfo};
use white_whale_std::vault_network::vault;
use white_whale_std::vault_network::vault_router;

use crate::engine::{gen, Fail, Rec, TResult};
use crate::ensure;
use crate::mocks::{borrower_contract, purse_contract, BorrowerInit, BorrowerMsg, PurseMsg, Repay, Step};
use crate::refmath::{fee_floor, to_u128, u, U};
use crate::world::{asset, native, token, vault_fee, ExecResult, World};

pub const V_FUND: u128 = 1u128 << 120;
pub const V_USERS: [&str; 4] = ["alice", "bob", "carol", "dave"];

#[derive(Clone, Debug, Serialize, Deserialize, PartialEq)]
pub struct VaultCfg {
    pub cw20: bool,
    /// (protocol, flash loan, burn) 18-decimal atomics
    pub fees: [Uint128; 3],
}

pub struct VaultWorld {
    pub w: World,
    pub vault: Addr,
    pub lp: Addr,
    pub info: AssetInfo,
    pub borrower: Addr,
    pub purse: Addr,
    pub collector: Addr,
    pub router: Addr,
}

#[derive(Clone, Debug)]
pub struct VaultView {
    pub balance: u128,
    pub pending: u128,
    pub supply: u128,
    pub all_time: u128,
    pub burned: u128,
}

impl VaultView {
    pub fn backing(&self) -> u128 {
        self.balance - self.pending
    }
}

impl VaultWorld {
    pub fn build(cfg: &VaultCfg) -> Result<VaultWorld, String> {
        let mut w = World::new_with_fund(&V_USERS, &["uvvv", "uvvvo"], V_FUND);
        w.add_account("collector-two");
        w.add_account("collector-three");
        w.setup_vault_network();
        let info = if cfg.cw20 {
            let t = w.create_cw20_with_fund("vtok", 6, V_FUND);
            token(&t)
        } else {
            native("uvvv")
        };
        let f = [cfg.fees[0].u128(), cfg.fees[1].u128(), cfg.fees[2].u128()];
        let (vault, lp) = w.create_vault(&info, vault_fee(f))?;
        let bcode = w.app.store_code(borrower_contract());
        let pcode = w.app.store_code(purse_contract());
        let owner = w.owner.clone();
        let borrower = w.instantiate(
            bcode,
            &owner,
            &BorrowerInit {
                vault: vault.to_string(),
                asset: info.clone(),
                lp_token: lp.to_string(),
            },
            "borrower",
            None,
        )?;
        let purse = w.instantiate(pcode, &owner, &Empty {}, "purse", None)?;
        // fund borrower and purse from the owner's balance
        w.transfer(&owner, &borrower, &info, V_FUND / 4)?;
        w.transfer(&owner, &purse, &info, V_FUND / 4)?;
        let collector = w.fee_collector.clone().unwrap();
        let router = w.vault_router.clone().unwrap();
        Ok(VaultWorld {
            w,
            vault,
            lp,
            info,
            borrower,
            purse,
            collector,
            router,
        })
    }

    /// 0..3 plain users, 4 = the borrower contract (any address can sign under cw-multi-test)
    pub fn user(&self, i: u8) -> Addr {
        if i == 4 {
            return self.borrower.clone();
        }
        self.w.users[(i as usize) % self.w.users.len()].clone()
    }

    pub fn view(&self) -> Result<VaultView, String> {
        let p: vault::ProtocolFeesResponse =
            self.w.query(&self.vault, &vault::QueryMsg::ProtocolFees { all_time: false })?;
        let a: vault::ProtocolFeesResponse =
            self.w.query(&self.vault, &vault::QueryMsg::ProtocolFees { all_time: true })?;
        let b: vault::ProtocolFeesResponse = self.w.query(&self.vault, &vault::QueryMsg::BurnedFees {})?;
        let balance = self.w.bal(&self.info, &self.vault);
        if p.fees.amount.u128() > balance {
            return Err(format!(
                "pending protocol fees {} exceed the vault balance {balance}",
                p.fees.amount
            ));
        }
        Ok(VaultView {
            balance,
            pending: p.fees.amount.u128(),
            supply: self.w.cw20_supply(&self.lp),
            all_time: a.fees.amount.u128(),
            burned: b.fees.amount.u128(),
        })
    }

    pub fn loan_counter(&self) -> Option<u32> {
        let raw = self.w.raw(&self.vault, b"loan_counter")?;
        serde_json::from_slice(&raw).ok()
    }

    pub fn payback(&self, amount: u128) -> Result<vault::PaybackAmountResponse, String> {
        self.w.query(
            &self.vault,
            &vault::QueryMsg::GetPaybackAmount {
                amount: Uint128::new(amount),
            },
        )
    }

    pub fn config(&self) -> Result<vault::Config, String> {
        self.w.query(&self.vault, &vault::QueryMsg::Config {})
    }

    /// Deposit by a plain account (or any contract address used as a signer).
    pub fn deposit(&mut self, who: &Addr, amount: u128) -> ExecResult {
        let vaultaddr = self.vault.clone();
        match &self.info {
            AssetInfo::NativeToken { denom } => {
                let funds = if amount > 0 { vec![coin(amount, denom)] } else { vec![] };
                self.w.exec(
                    who,
                    &vaultaddr,
                    &vault::ExecuteMsg::Deposit {
                        amount: Uint128::new(amount),
                    },
                    &funds,
                )
            }
            AssetInfo::Token { contract_addr } => {
                let t = Addr::unchecked(contract_addr);
                // the vault demands allowance == amount: reset then set
                let cur: cw20::AllowanceResponse = self
                    .w
                    .query(
                        &t,
                        &cw20::Cw20QueryMsg::Allowance {
                            owner: who.to_string(),
                            spender: vaultaddr.to_string(),
                        },
                    )
                    .unwrap_or(cw20::AllowanceResponse {
                        allowance: Uint128::zero(),
                        expires: cw20::Expiration::Never {},
                    });
                if !cur.allowance.is_zero() {
                    let _ = self.w.exec(
                        who,
                        &t,
                        &cw20::Cw20ExecuteMsg::DecreaseAllowance {
                            spender: vaultaddr.to_string(),
                            amount: cur.allowance,
                            expires: None,
                        },
                        &[],
                    );
                }
                self.w.increase_allowance(who, &t, &vaultaddr, amount);
                self.w.exec(
                    who,
                    &vaultaddr,
                    &vault::ExecuteMsg::Deposit {
                        amount: Uint128::new(amount),
                    },
                    &[],
                )
            }
        }
    }

    pub fn withdraw(&mut self, who: &Addr, shares: u128) -> ExecResult {
        let lp = self.lp.clone();
        let v = self.vault.clone();
        self.w.cw20_send(who, &lp, &v, shares, &vault::Cw20HookMsg::Withdraw {})
    }

    /// Re-points the vault's fee collector through the factory; on success `self.collector` follows.
    pub fn set_collector(&mut self, addr: &Addr) -> ExecResult {
        let r = self.update(vault::UpdateConfigParams {
            flash_loan_enabled: None,
            deposit_enabled: None,
            withdraw_enabled: None,
            new_owner: None,
            new_vault_fees: None,
            new_fee_collector_addr: Some(addr.to_string()),
        });
        if r.is_ok() {
            self.collector = addr.clone();
        }
        r
    }

    /// Deposit declaring `amount` but attaching / approving something else (see VOp::DepositMismatch).
    pub fn deposit_mismatch(&mut self, who: &Addr, amount: u128, mode: u8) -> ExecResult {
        let vaultaddr = self.vault.clone();
        let given = match mode {
            1 => amount.saturating_sub(1),
            2 => amount / 2,
            3 => 0,
            4 => amount.saturating_add(1),
            _ => amount,
        };
        let msg = vault::ExecuteMsg::Deposit { amount: Uint128::new(amount) };
        match &self.info {
            AssetInfo::NativeToken { denom } => {
                let d = if mode == 5 { "uvvvo".to_string() } else { denom.clone() };
                let funds = if given > 0 { vec![coin(given, d)] } else { vec![] };
                self.w.exec(who, &vaultaddr, &msg, &funds)
            }
            AssetInfo::Token { contract_addr } => {
                let t = Addr::unchecked(contract_addr);
                let cur: cw20::AllowanceResponse = self
                    .w
                    .query(&t, &cw20::Cw20QueryMsg::Allowance { owner: who.to_string(), spender: vaultaddr.to_string() })
                    .unwrap_or(cw20::AllowanceResponse { allowance: Uint128::zero(), expires: cw20::Expiration::Never {} });
                if !cur.allowance.is_zero() {
                    let _ = self.w.exec(who, &t, &cw20::Cw20ExecuteMsg::DecreaseAllowance { spender: vaultaddr.to_string(), amount: cur.allowance, expires: None }, &[]);
                }
                if given > 0 {
                    self.w.increase_allowance(who, &t, &vaultaddr, given);
                }
                self.w.exec(who, &vaultaddr, &msg, &[])
            }
        }
    }

    /// The cw20 Receive hook carrying `Withdraw {}` from somewhere else than the LP token.
    pub fn forged_receive(&mut self, who: &Addr, via: u8, amount: u128) -> ExecResult {
        let v = self.vault.clone();
        let hook = cosmwasm_std::to_json_binary(&vault::Cw20HookMsg::Withdraw {}).unwrap();
        match (&self.info, via) {
            (AssetInfo::Token { contract_addr }, 1) => {
                let t = Addr::unchecked(contract_addr);
                self.w.cw20_send(who, &t, &v, amount, &vault::Cw20HookMsg::Withdraw {})
            }
            _ => self.w.exec(
                who,
                &v,
                &vault::ExecuteMsg::Receive(vault::Cw20ReceiveMsg { sender: who.to_string(), amount: Uint128::new(amount), msg: hook }),
                &[],
            ),
        }
    }

    pub fn collect(&mut self, who: &Addr) -> ExecResult {
        let v = self.vault.clone();
        self.w.exec(who, &v, &vault::ExecuteMsg::CollectProtocolFees {}, &[])
    }

    pub fn update(&mut self, params: vault::UpdateConfigParams) -> ExecResult {
        let owner = self.w.owner.clone();
        let vf = self.w.vault_factory.clone().unwrap();
        self.w.exec(
            &owner,
            &vf,
            &white_whale_std::vault_network::vault_factory::ExecuteMsg::UpdateVaultConfig {
                vault_addr: self.vault.to_string(),
                params,
            },
            &[],
        )
    }

    pub fn set_fees(&mut self, f: [u128; 3]) -> ExecResult {
        self.update(vault::UpdateConfigParams {
            flash_loan_enabled: None,
            deposit_enabled: None,
            withdraw_enabled: None,
            new_owner: None,
            new_vault_fees: Some(vault_fee(f)),
            new_fee_collector_addr: None,
        })
    }

    pub fn start_loan(&mut self, caller: &Addr, amount: u128, program: &[Step]) -> ExecResult {
        let b = self.borrower.clone();
        self.w.exec(
            caller,
            &b,
            &BorrowerMsg::Start {
                amount: Uint128::new(amount),
                program: program.to_vec(),
            },
            &[],
        )
    }

    pub fn router_loan(&mut self, initiator: &Addr, amount: u128, msgs: Vec<CosmosMsg>) -> ExecResult {
        let r = self.router.clone();
        self.w.exec(
            initiator,
            &r,
            &vault_router::ExecuteMsg::FlashLoan {
                assets: vec![asset(&self.info, amount)],
                msgs,
            },
            &[],
        )
    }

    pub fn purse_pay_msg(&self, amount: u128, to: &Addr) -> CosmosMsg {
        WasmMsg::Execute {
            contract_addr: self.purse.to_string(),
            msg: to_json_binary(&PurseMsg::Pay {
                asset: self.info.clone(),
                amount: Uint128::new(amount),
                to: to.to_string(),
            })
            .unwrap(),
            funds: vec![],
        }
        .into()
    }
}

// ---------------------------------------------------------------------------------------------
// operations
// ---------------------------------------------------------------------------------------------

#[derive(Clone, Debug, Serialize, Deserialize)]
pub enum VAmt {
    Abs(Uint128),
    /// k/65536 of the vault balance
    OfVault(u16),
    /// k/65536 of the sender's balance
    OfBalance(u16),
}

#[derive(Clone, Debug, Serialize, Deserialize)]
pub enum VOp {
    Deposit { user: u8, amt: VAmt },
    Withdraw { user: u8, k: u16 },
    DepositThenWithdraw { user: u8, amt: VAmt },
    Loan { amt: VAmt, program: Vec<Step> },
    RouterLoan { user: u8, amt: VAmt, proceeds: VAmt, nested: Option<(VAmt, VAmt)> },
    Collect { caller: u8 },
    SetFees { fees: [Uint128; 3] },
    Donate { user: u8, amt: VAmt },
    AdvanceBlock,
    /// adversarial: the direct `Withdraw {}` message (token-factory LP vaults) with one native coin
    /// (the vault asset's denom or an unrelated one) attached, sent to this cw20-LP vault
    WithdrawDirect { user: u8, other_denom: bool, amount: Uint128 },
    /// Deposit whose attached funds (native) or allowance (cw20) differ from the declared amount:
    /// mode 1 one unit short, 2 half, 3 nothing, 4 one unit more, 5 (native) the other denom instead
    DepositMismatch { user: u8, amt: VAmt, mode: u8 },
    /// adversarial: the cw20 Receive hook with a Withdraw message not coming from the LP token —
    /// via 0: `Receive{..}` sent directly by the user; via 1: the vault asset's own cw20 `Send`
    /// (cw20 vaults)
    ForgedReceive { user: u8, via: u8, amount: Uint128 },
    /// re-point the vault's fee collector: 0 the original collector, 1 / 2 two plain accounts
    SetCollector { which: u8 },
    /// vault-router FlashLoan with an odd shape: 0 no assets at all (a no-op), 1 the same asset twice
    /// (nested loans are disabled), 2 a payload in which the router itself deposits part of the loan
    /// into the vault (deposits are refused while a loan is outstanding). None may change the world.
    RouterOdd { user: u8, shape: u8, amt: VAmt },
}

#[derive(Clone, Debug, Serialize, Deserialize)]
pub struct VCase {
    pub cfg: VaultCfg,
    pub ops: Vec<VOp>,
}

pub fn vamt() -> BoxedStrategy<VAmt> {
    prop_oneof![
        4 => gen::amount(0, 1u128 << 110).prop_map(|a| VAmt::Abs(Uint128::new(a))),
        4 => any::<u16>().prop_map(VAmt::OfVault),
        2 => any::<u16>().prop_map(VAmt::OfBalance),
    ]
    .boxed()
}

pub fn loan_amt() -> BoxedStrategy<VAmt> {
    prop_oneof![
        2 => gen::amount(0, 1u128 << 100).prop_map(|a| VAmt::Abs(Uint128::new(a))),
        7 => any::<u16>().prop_map(VAmt::OfVault),
    ]
    .boxed()
}

pub fn repay() -> BoxedStrategy<Repay> {
    prop_oneof![
        8 => Just(Repay::Exact),
        2 => Just(Repay::ExactMinus1),
        2 => gen::amount(1, 1u128 << 64).prop_map(|k| Repay::ExactPlus(Uint128::new(k))),
        1 => Just(Repay::Principal),
        1 => any::<u16>().prop_map(Repay::Fraction),
        1 => gen::amount(0, 1u128 << 100).prop_map(|k| Repay::Abs(Uint128::new(k))),
    ]
    .boxed()
}

/// Steps of a borrower program; `depth` bounds the nesting of loans.
pub fn step(depth: u32) -> BoxedStrategy<Step> {
    let leaf = prop_oneof![
        8 => repay().prop_map(Step::Repay),
        2 => (gen::amount(0, 1u128 << 80), any::<bool>()).prop_map(|(a, swallow)| Step::Deposit { amount: Uint128::new(a), swallow }),
        2 => gen::amount(0, 1u128 << 60).prop_map(|s| Step::Withdraw { shares: Uint128::new(s) }),
        2 => Just(Step::Collect),
        1 => Just(Step::Fail),
        1 => Just(Step::Noop),
        2 => (prop_oneof![Just(0u128), gen::amount(0, 1u128 << 90)], prop_oneof![Just(0u128), gen::amount(0, 1u128 << 90)])
            .prop_map(|(o, l)| Step::ForgeCallback { old_balance: Uint128::new(o), loan_amount: Uint128::new(l) }),
    ];
    if depth == 0 {
        leaf.boxed()
    } else {
        prop_oneof![
            6 => leaf,
            2 => (gen::amount(0, 1u128 << 90), prop::collection::vec(step(depth - 1), 0..4))
                .prop_map(|(a, program)| Step::NestedLoan { amount: Uint128::new(a), program }),
        ]
        .boxed()
    }
}

pub fn program(depth: u32) -> BoxedStrategy<Vec<Step>> {
    prop_oneof![
        // most programs end with an exact repayment so that they have a chance to succeed
        5 => prop::collection::vec(step(depth), 0..3).prop_map(|mut p| { p.push(Step::Repay(Repay::Exact)); p }),
        3 => prop::collection::vec(step(depth), 0..4),
        1 => Just(vec![Step::Repay(Repay::Exact)]),
        1 => Just(vec![Step::Repay(Repay::ExactMinus1)]),
        // directed: forged AfterTrade callback, then a deposit inside the loan, then repayment
        1 => (gen::amount(1, 1u128 << 80), any::<bool>()).prop_map(|(a, swallow)| vec![
            Step::ForgeCallback { old_balance: Uint128::zero(), loan_amount: Uint128::zero() },
            Step::Deposit { amount: Uint128::new(a), swallow },
            Step::Repay(Repay::Exact),
        ]),
        // directed: nested loan with inner >> outer, each repaid exactly / outer under-repaid
        2 => (gen::amount(1, 1u128 << 90), any::<bool>()).prop_map(|(inner, repay_outer)| {
            let mut p = vec![Step::NestedLoan { amount: Uint128::new(inner), program: vec![Step::Repay(Repay::Exact)] }];
            p.push(if repay_outer { Step::Repay(Repay::Exact) } else { Step::Repay(Repay::Principal) });
            p
        }),
    ]
    .boxed()
}

pub fn fee3() -> BoxedStrategy<[Uint128; 3]> {
    prop_oneof![
        3 => gen::small_fee_triple(),
        1 => gen::valid_fee_triple(),
    ]
    .prop_map(|f| [Uint128::new(f[0]), Uint128::new(f[1]), Uint128::new(f[2])])
    .boxed()
}

/// weights: (deposit/withdraw family, loans, misc)
pub fn vop(w_liq: u32, w_loan: u32, w_misc: u32, depth: u32) -> BoxedStrategy<VOp> {
    prop_oneof![
        2 * w_liq => (0u8..5, vamt()).prop_map(|(user, amt)| VOp::Deposit { user, amt }),
        2 * w_liq => (0u8..5, gen::share_sel()).prop_map(|(user, k)| VOp::Withdraw { user, k }),
        w_liq => (0u8..4, vamt()).prop_map(|(user, amt)| VOp::DepositThenWithdraw { user, amt }),
        4 * w_loan => (loan_amt(), program(depth)).prop_map(|(amt, program)| VOp::Loan { amt, program }),
        w_loan => (0u8..4, loan_amt(), vamt(), proptest::option::weighted(0.25, (loan_amt(), vamt())))
            .prop_map(|(user, amt, proceeds, nested)| VOp::RouterLoan { user, amt, proceeds, nested }),
        w_misc => (0u8..6).prop_map(|caller| VOp::Collect { caller }),
        w_misc => fee3().prop_map(|fees| VOp::SetFees { fees }),
        w_misc => (0u8..4, vamt()).prop_map(|(user, amt)| VOp::Donate { user, amt }),
        1 => Just(VOp::AdvanceBlock),
        1 => (0u8..4, any::<bool>(), prop_oneof![Just(1u128), Just(1000), gen::amount(1, 1u128 << 70)]).prop_map(|(user, other_denom, a)| VOp::WithdrawDirect { user, other_denom, amount: Uint128::new(a) }),
        1 => (0u8..5, vamt(), 1u8..6).prop_map(|(user, amt, mode)| VOp::DepositMismatch { user, amt, mode }),
        1 => (0u8..4, 0u8..2, prop_oneof![Just(1u128), Just(1000), gen::amount(1, 1u128 << 70)]).prop_map(|(user, via, a)| VOp::ForgedReceive { user, via, amount: Uint128::new(a) }),
        1 => (0u8..3).prop_map(|which| VOp::SetCollector { which }),
        1 => (0u8..4, 0u8..3, loan_amt()).prop_map(|(user, shape, amt)| VOp::RouterOdd { user, shape, amt }),
    ]
    .boxed()
}

pub fn vcfg() -> BoxedStrategy<VaultCfg> {
    (any::<bool>(), fee3())
        .prop_map(|(cw20, fees)| VaultCfg { cw20, fees })
        .boxed()
}

// ---------------------------------------------------------------------------------------------
// interpreter + oracles
// ---------------------------------------------------------------------------------------------

fn resolve(a: &VAmt, vault_balance: u128, balance: u128) -> u128 {
    match a {
        VAmt::Abs(v) => v.u128(),
        VAmt::OfVault(k) => gen::frac(*k, vault_balance),
        VAmt::OfBalance(k) => gen::frac(*k, balance),
    }
}

/// All loans of a program tree: (amount, is_nested)
fn loans_of(top: u128, program: &[Step]) -> Vec<(u128, bool)> {
    fn walk(p: &[Step], out: &mut Vec<(u128, bool)>) {
        for s in p {
            if let Step::NestedLoan { amount, program } = s {
                out.push((amount.u128(), true));
                walk(program, out);
            }
        }
    }
    let mut out = vec![(top, false)];
    walk(program, &mut out);
    out
}

fn has_reentrant(p: &[Step]) -> bool {
    p.iter().any(|s| {
        matches!(
            s,
            Step::Deposit { .. } | Step::Withdraw { .. } | Step::Collect | Step::NestedLoan { .. } | Step::ForgeCallback { .. }
        )
    })
}

fn price_not_lower(b: &VaultView, a: &VaultView) -> bool {
    u(a.backing()) * u(b.supply) >= u(b.backing()) * u(a.supply)
}

#[derive(Default)]
pub struct HistoryStats {
    pub loans_ok: u32,
    pub loans_ok_with_protocol_fee: u32,
    pub reentrant_programs: u32,
    pub reentrant_ok: u32,
    pub share_ops_after_loan: u32,
    pub collections_nonzero: u32,
    pub router_ok: u32,
}

/// `value_clauses`: also judge the share-price / fees-received clauses of C05 and C06 (C07 only
/// judges the ledgers).
pub fn run_history(c: &VCase, rec: &Rec, value_clauses: bool) -> Result<HistoryStats, Fail> {
    let mut vw = VaultWorld::build(&c.cfg).map_err(|e| Fail::new(format!("world build failed: {e}")))?;
    let original_collector = vw.collector.clone();
    let mut st = HistoryStats::default();
    let mut fees = [c.cfg.fees[0].u128(), c.cfg.fees[1].u128(), c.cfg.fees[2].u128()];
    let mut first_deposit_done = false;
    // model ledger (C07): charged − transferred
    let mut model_pending: u128 = 0;
    let mut model_all_time: u128 = 0;
    let mut model_burned: u128 = 0;
    let mut before = vw.view().map_err(|e| Fail::new(format!("vault queries failed: {e}")))?;
    for (step, op) in c.ops.iter().enumerate() {
        let snap = vw.w.snapshot();
        let supply_asset_before = vw.w.supply(&vw.info);
        let coll_before = vw.w.bal(&vw.info, &vw.collector);
        let mut ok = false;
        match op {
            VOp::Deposit { user, amt } => {
                let usr = vw.user(*user);
                let amount = resolve(amt, before.balance, vw.w.bal(&vw.info, &usr));
                let lp0 = vw.w.cw20_balance(&vw.lp, &usr);
                // allowances are set in separate transactions: snapshot after them
                let r = vw.deposit(&usr, amount);
                if r.is_ok() {
                    ok = true;
                    rec.class("deposit_ok");
                    let minted = vw.w.cw20_balance(&vw.lp, &usr) - lp0;
                    if before.supply > 0 {
                        // minted ≤ amount·S/backing
                        ensure!(
                            u(minted) * u(before.backing()) <= u(amount) * u(before.supply),
                            "step {step}: deposit of {amount} minted {minted} shares, more than pro-rata (S={}, backing={})",
                            before.supply,
                            before.backing()
                        );
                    } else {
                        first_deposit_done = true;
                    }
                    if st.loans_ok_with_protocol_fee > 0 {
                        st.share_ops_after_loan += 1;
                    }
                }
            }
            VOp::Withdraw { user, k } => {
                let usr = vw.user(*user);
                let shares = gen::frac(*k, vw.w.cw20_balance(&vw.lp, &usr));
                let b0 = vw.w.bal(&vw.info, &usr);
                if vw.withdraw(&usr, shares).is_ok() {
                    ok = true;
                    rec.class("withdraw_ok");
                    let got = vw.w.bal(&vw.info, &usr) - b0;
                    ensure!(
                        u(got) * u(before.supply) <= u(shares) * u(before.backing()),
                        "step {step}: withdrawal of {shares}/{} shares paid {got}, more than pro-rata of backing {}",
                        before.supply,
                        before.backing()
                    );
                    if st.loans_ok_with_protocol_fee > 0 {
                        st.share_ops_after_loan += 1;
                    }
                }
            }
            VOp::DepositThenWithdraw { user, amt } => {
                let usr = vw.user(*user);
                let amount = resolve(amt, before.balance, vw.w.bal(&vw.info, &usr));
                let b0 = vw.w.bal(&vw.info, &usr);
                let lp0 = vw.w.cw20_balance(&vw.lp, &usr);
                if vw.deposit(&usr, amount).is_ok() {
                    ok = true;
                    if before.supply == 0 {
                        first_deposit_done = true;
                    }
                    let minted = vw.w.cw20_balance(&vw.lp, &usr) - lp0;
                    let mid = vw.view().map_err(|e| Fail::new(format!("vault queries failed: {e}")))?;
                    if before.supply > 0 {
                        ensure!(
                            price_not_lower(&before, &mid),
                            "step {step}: share price fell on deposit of {amount}: {}/{} -> {}/{}",
                            before.backing(), before.supply, mid.backing(), mid.supply
                        );
                    }
                    if vw.withdraw(&usr, minted).is_ok() {
                        rec.class("deposit_then_withdraw_ok");
                        let b1 = vw.w.bal(&vw.info, &usr);
                        // on an empty vault the first depositor receives earlier donations pro-rata;
                        // only vaults with shareholders promise "no more than deposited"
                        if before.supply > 0 {
                            ensure!(
                                b1 <= b0,
                                "step {step}: deposit of {amount} then withdrawal of the {minted} minted shares returned more: {b0} -> {b1}"
                            );
                        }
                        let got = b1 + amount - b0;
                        ensure!(
                            u(got) * u(mid.supply) <= u(minted) * u(mid.backing()),
                            "step {step}: withdrawal paid {got} > pro-rata"
                        );
                    }
                }
            }
            VOp::Loan { amt, program } => {
                let amount = resolve(amt, before.balance, 0);
                let reentrant = has_reentrant(program);
                if reentrant {
                    st.reentrant_programs += 1;
                }
                let blp0 = vw.w.cw20_balance(&vw.lp, &vw.borrower);
                let caller = vw.user(0);
                // can the borrower afford the fees at all? (it is pre-funded, but huge loans at high
                // fee shares can exceed any purse; "exact suffices" presupposes the means to pay)
                let affordable = match vw.payback(amount) {
                    Ok(q) => u(vw.w.bal(&vw.info, &vw.borrower)) + u(amount) >= u(q.payback_amount.u128()),
                    Err(_) => false,
                };
                let r = vw.start_loan(&caller, amount, program);
                // single-step programs: exact always suffices, one unit less never does
                if program.len() == 1 && amount >= 1 && amount <= before.balance && affordable {
                    match &program[0] {
                        Step::Repay(Repay::Exact) => {
                            rec.class("exact_alone");
                            ensure!(
                                r.is_ok(),
                                "step {step}: a loan of {amount} repaid with exactly the quoted payback amount was rejected: {}",
                                r.as_ref().err().cloned().unwrap_or_default()
                            );
                        }
                        Step::Repay(Repay::ExactMinus1) => {
                            rec.class("exact_minus_1_alone");
                            ensure!(
                                r.is_err(),
                                "step {step}: a loan of {amount} repaid with one unit less than the quoted payback amount was accepted"
                            );
                        }
                        _ => {}
                    }
                }
                if let Ok(resp) = &r {
                    // a Callback(AfterTrade) sent by the borrower (not the vault itself) must be
                    // rejected; the borrower's reply handler reports the vault's verdict
                    let mut forged = 0u32;
                    for ev in &resp.events {
                        for a in &ev.attributes {
                            if a.key == "forged_callback" {
                                forged += 1;
                                ensure!(
                                    a.value == "rejected",
                                    "step {step}: the vault accepted its internal Callback(AfterTrade) from the borrower contract during a loan of {amount} (program {program:?})"
                                );
                            }
                        }
                    }
                    if forged > 0 {
                        rec.class("forged_callback_rejected_in_successful_loan");
                    }
                }
                if r.is_ok() {
                    ok = true;
                    st.loans_ok += 1;
                    if reentrant {
                        st.reentrant_ok += 1;
                        rec.class("loan_ok_reentrant");
                    } else {
                        rec.class("loan_ok_plain");
                    }
                    let loans = loans_of(amount, program);
                    if loans.len() > 1 {
                        rec.class("loan_ok_nested");
                    }
                    let mut p_sum = U::ZERO;
                    let mut f_sum = U::ZERO;
                    let mut b_sum = U::ZERO;
                    let mut nested_pf = U::ZERO;
                    for (a, nested) in &loans {
                        let p = fee_floor(u(*a), fees[0]);
                        let f = fee_floor(u(*a), fees[1]);
                        let b = fee_floor(u(*a), fees[2]);
                        p_sum = p_sum + p;
                        f_sum = f_sum + f;
                        b_sum = b_sum + b;
                        if *nested {
                            nested_pf = nested_pf + p + f;
                        }
                    }
                    if !p_sum.is_zero() {
                        st.loans_ok_with_protocol_fee += 1;
                    }
                    let after = match vw.view() {
                        Ok(v) => v,
                        Err(e) => {
                            // pending fees above the balance: the extreme form of the nested-loan fee
                            // recovery (the ledger holds both loans' protocol fees, the balance only
                            // what the borrower left behind). The vault is unusable afterwards, so the
                            // history ends here.
                            if loans.len() > 1 && e.contains("exceed the vault balance") {
                                if value_clauses {
                                    rec.known_or_fail(
                                        "vault-nested-loan-fee-recovery",
                                        format!("step {step}: loan transaction {loans:?} succeeded and left the vault with {e}"),
                                    )?;
                                } else {
                                    // C07 judges the ledgers only, and the ledger is right (it holds both
                                    // loans' fees); that the balance no longer covers it is the share-price
                                    // / fees-received matter of C05 and C06, where it is a listed finding
                                    rec.class("nested_loan_left_pending_above_balance_history_ends");
                                }
                                return Ok(st);
                            }
                            return Err(Fail::new(format!("step {step}: vault queries failed after a loan: {e}")));
                        }
                    };
                    ensure!(
                        vw.loan_counter() == Some(0),
                        "step {step}: loan counter is {:?} after a completed loan transaction",
                        vw.loan_counter()
                    );
                    // ledger: pending grows by the protocol fees charged minus what was collected
                    let collected = vw.w.bal(&vw.info, &vw.collector) - coll_before;
                    ensure!(
                        u(after.pending) + u(collected) == u(before.pending) + p_sum,
                        "step {step}: pending protocol fees {} -> {} with {collected} collected, but the loans {loans:?} owe floor(share*loan) = {p_sum} in total",
                        before.pending,
                        after.pending
                    );
                    ensure!(
                        u(after.all_time) == u(before.all_time) + p_sum,
                        "step {step}: all-time protocol fees {} -> {}, expected +{p_sum}",
                        before.all_time,
                        after.all_time
                    );
                    // burn fees destroyed and recorded
                    let supply_asset_after = vw.w.supply(&vw.info);
                    ensure!(
                        u(supply_asset_before) == u(supply_asset_after) + b_sum,
                        "step {step}: circulating supply {supply_asset_before} -> {supply_asset_after}, but burn fees of the loans are {b_sum}"
                    );
                    ensure!(
                        u(after.burned) == u(before.burned) + b_sum,
                        "step {step}: BurnedFees {} -> {}, expected +{b_sum}",
                        before.burned,
                        after.burned
                    );
                    // no shares minted while a loan was outstanding
                    let blp1 = vw.w.cw20_balance(&vw.lp, &vw.borrower);
                    ensure!(
                        after.supply <= before.supply && before.supply - after.supply == blp0.saturating_sub(blp1) && blp1 <= blp0,
                        "step {step}: LP supply {} -> {} although the borrower's LP balance went {blp0} -> {blp1}: shares were minted during a loan",
                        before.supply,
                        after.supply
                    );
                    // vault balance up by at least protocol + flash fees (when no shares were redeemed)
                    let mut shortfall = U::ZERO;
                    if after.supply == before.supply {
                        let have = u(after.balance) + u(collected);
                        let need = u(before.balance) + p_sum + f_sum;
                        if have < need {
                            shortfall = need - have;
                        }
                    }
                    let price_ok = before.supply == 0 || after.supply == 0 || price_not_lower(&before, &after);
                    if value_clauses && (!shortfall.is_zero() || !price_ok) {
                        let msg = format!(
                            "step {step}: loan transaction {loans:?} succeeded but the vault is short: balance {} -> {} (+{collected} collected), fees owed protocol {p_sum} + flash {f_sum}; backing/share {}/{} -> {}/{}",
                            before.balance, after.balance, before.backing(), before.supply, after.backing(), after.supply
                        );
                        // known defect: a nested loan's fees can be recovered through the outer repayment
                        let explained = loans.len() > 1
                            && shortfall <= nested_pf
                            && (after.supply != before.supply
                                || u(after.backing()) + nested_pf >= u(before.backing()));
                        if explained {
                            rec.known_or_fail("vault-nested-loan-fee-recovery", msg)?;
                        } else {
                            return Err(Fail::new(msg));
                        }
                    }
                    model_pending = to_u128(u(model_pending) + p_sum - u(collected)).unwrap_or(0);
                    model_all_time = to_u128(u(model_all_time) + p_sum).unwrap_or(u128::MAX);
                    model_burned = to_u128(u(model_burned) + b_sum).unwrap_or(u128::MAX);
                } else {
                    rec.class("loan_rejected");
                }
            }
            VOp::RouterLoan { user, amt, proceeds, nested } => {
                let usr = vw.user(*user);
                let amount = resolve(amt, before.balance, 0);
                let mut pay = resolve(proceeds, before.balance / 16, 0);
                // proceeds given relative to a balance (a fifth of the cases) are placed on the boundary
                // instead: exactly the fees of this loan, one unit less, one unit more
                if let (VAmt::OfBalance(k), Ok(q)) = (proceeds, vw.payback(amount)) {
                    let fees_total = q.payback_amount.u128().saturating_sub(amount);
                    pay = (fees_total + (*k % 3) as u128).saturating_sub(1);
                    rec.class(match *k % 3 {
                        0 => "router_proceeds_one_below_fees",
                        1 => "router_proceeds_exactly_fees",
                        _ => "router_proceeds_one_above_fees",
                    });
                }
                let router = vw.router.clone();
                let mut msgs = vec![vw.purse_pay_msg(pay, &router)];
                let mut loans = vec![amount];
                if let Some((a2, p2)) = nested {
                    let amount2 = resolve(a2, before.balance, 0);
                    let pay2 = resolve(p2, before.balance / 16, 0);
                    loans.push(amount2);
                    msgs.push(
                        WasmMsg::Execute {
                            contract_addr: router.to_string(),
                            msg: to_json_binary(&vault_router::ExecuteMsg::FlashLoan {
                                assets: vec![asset(&vw.info, amount2)],
                                msgs: vec![vw.purse_pay_msg(pay2, &router)],
                            })
                            .unwrap(),
                            funds: vec![],
                        }
                        .into(),
                    );
                }
                let quote = vw.payback(amount).map_err(|e| Fail::new(format!("GetPaybackAmount failed: {e}")))?;
                let ub0 = vw.w.bal(&vw.info, &usr);
                let purse0 = vw.w.bal(&vw.info, &vw.purse);
                let r = vw.router_loan(&usr, amount, msgs);
                if r.is_ok() {
                    ok = true;
                    st.router_ok += 1;
                    rec.class(if nested.is_some() { "router_loan_nested_ok" } else { "router_loan_ok" });
                    let after = match vw.view() {
                        Ok(v) => v,
                        Err(e) => {
                            // same extreme form of the nested-loan fee recovery, through the router
                            if nested.is_some() && e.contains("exceed the vault balance") {
                                if value_clauses {
                                    rec.known_or_fail(
                                        "vault-nested-loan-fee-recovery",
                                        format!("step {step}: nested router loans {loans:?} succeeded and left the vault with {e}"),
                                    )?;
                                } else {
                                    rec.class("nested_loan_left_pending_above_balance_history_ends");
                                }
                                return Ok(st);
                            }
                            return Err(Fail::new(format!("step {step}: vault queries failed after a router loan: {e}")));
                        }
                    };
                    ensure!(
                        vw.w.bal(&vw.info, &vw.router) == 0,
                        "step {step}: the vault router kept {} of the loaned asset",
                        vw.w.bal(&vw.info, &vw.router)
                    );
                    ensure!(vw.loan_counter() == Some(0), "step {step}: loan counter {:?} after router loan", vw.loan_counter());
                    let paid_by_purse = purse0 - vw.w.bal(&vw.info, &vw.purse);
                    if nested.is_none() {
                        let q = quote.payback_amount.u128();
                        let b = quote.burn_fee.u128();
                        ensure!(
                            u(amount) + u(pay) >= u(q),
                            "step {step}: router loan of {amount} succeeded although the proceeds {pay} do not cover the fees (payback {q})"
                        );
                        // vault received exactly the quoted amount (burn fee then destroyed)
                        ensure!(
                            u(after.balance) + u(amount) + u(b) == u(before.balance) + u(q),
                            "step {step}: router loan of {amount}: vault balance {} -> {}, quoted payback {q} (burn {b})",
                            before.balance,
                            after.balance
                        );
                        // initiator gets proceeds − (payback − principal)
                        let ub1 = vw.w.bal(&vw.info, &usr);
                        ensure!(
                            u(ub1) + u(q) == u(ub0) + u(amount) + u(paid_by_purse),
                            "step {step}: router loan of {amount} with proceeds {paid_by_purse}: initiator {ub0} -> {ub1}, quoted payback {q}"
                        );
                        let p = fee_floor(u(amount), fees[0]);
                        ensure!(
                            u(after.pending) == u(before.pending) + p,
                            "step {step}: pending fees {} -> {}, expected +{p}",
                            before.pending,
                            after.pending
                        );
                        if !p.is_zero() {
                            st.loans_ok_with_protocol_fee += 1;
                        }
                        model_pending += to_u128(p).unwrap();
                        model_all_time += to_u128(p).unwrap();
                        model_burned += b;
                    } else {
                        // nested router loans: conservation + share price (known nested defect applies)
                        let mut p_sum = U::ZERO;
                        let mut inner_pf = U::ZERO;
                        let mut b_sum = U::ZERO;
                        for (i, a) in loans.iter().enumerate() {
                            let p = fee_floor(u(*a), fees[0]);
                            p_sum = p_sum + p;
                            b_sum = b_sum + fee_floor(u(*a), fees[2]);
                            if i > 0 {
                                inner_pf = inner_pf + p + fee_floor(u(*a), fees[1]);
                            }
                        }
                        ensure!(
                            u(after.pending) == u(before.pending) + p_sum,
                            "step {step}: pending fees {} -> {}, expected +{p_sum} for loans {loans:?}",
                            before.pending,
                            after.pending
                        );
                        if value_clauses && before.supply > 0 && !price_not_lower(&before, &after) {
                            let msg = format!(
                                "step {step}: nested router loans {loans:?}: backing/share {}/{} -> {}/{}",
                                before.backing(), before.supply, after.backing(), after.supply
                            );
                            if u(after.backing()) + inner_pf >= u(before.backing()) {
                                rec.known_or_fail("vault-nested-loan-fee-recovery", msg)?;
                            } else {
                                return Err(Fail::new(msg));
                            }
                        }
                        model_pending += to_u128(p_sum).unwrap();
                        model_all_time += to_u128(p_sum).unwrap();
                        model_burned += to_u128(b_sum).unwrap();
                    }
                } else {
                    rec.class("router_loan_rejected");
                    // sufficiency: a single router loan whose proceeds cover the fees must go through
                    if nested.is_none() && amount >= 1 && amount <= before.balance && pay >= 1 {
                        let q = quote.payback_amount.u128();
                        if u(amount) + u(pay) >= u(q) && pay <= purse0 {
                            return Err(Fail::new(format!(
                                "step {step}: router loan of {amount} with proceeds {pay} >= fees (payback {q}) was rejected: {}",
                                r.err().unwrap()
                            )));
                        }
                    }
                }
            }
            VOp::Collect { caller } => {
                let who = match *caller {
                    4 => vw.w.owner.clone(),
                    5 => vw.borrower.clone(),
                    c => vw.user(c),
                };
                let wb = vw.w.bal(&vw.info, &who);
                if vw.collect(&who).is_ok() {
                    ok = true;
                    rec.class("collect_ok");
                    let after = vw.view().map_err(|e| Fail::new(format!("vault queries failed: {e}")))?;
                    let got = vw.w.bal(&vw.info, &vw.collector) - coll_before;
                    ensure!(
                        after.pending == 0 && got == before.pending,
                        "step {step}: collection: pending {} -> {}, collector received {got}",
                        before.pending,
                        after.pending
                    );
                    ensure!(
                        after.balance + got == before.balance,
                        "step {step}: collection moved {} out of the vault but the collector received {got}",
                        before.balance - after.balance
                    );
                    if who != vw.collector {
                        ensure!(vw.w.bal(&vw.info, &who) == wb, "step {step}: the caller of CollectProtocolFees received funds");
                    }
                    if got > 0 {
                        st.collections_nonzero += 1;
                    }
                    model_pending = 0;
                }
            }
            VOp::SetFees { fees: f } => {
                let nf = [f[0].u128(), f[1].u128(), f[2].u128()];
                if vw.set_fees(nf).is_ok() {
                    ok = true;
                    fees = nf;
                    rec.class("set_fees_ok");
                }
            }
            VOp::Donate { user, amt } => {
                let usr = vw.user(*user);
                let amount = resolve(amt, before.balance, vw.w.bal(&vw.info, &usr)).min(1u128 << 110);
                let info = vw.info.clone();
                let v = vw.vault.clone();
                if vw.w.transfer(&usr, &v, &info, amount).is_ok() {
                    ok = true;
                    rec.class("donate_ok");
                }
            }
            VOp::AdvanceBlock => {
                vw.w.advance(6_000_000_000, 1);
                continue;
            }
            VOp::SetCollector { which } => {
                let to = match *which % 3 {
                    0 => original_collector.clone(),
                    1 => Addr::unchecked("collector-two"),
                    _ => Addr::unchecked("collector-three"),
                };
                if vw.set_collector(&to).is_ok() {
                    ok = true;
                    rec.class("collector_repointed");
                }
            }
            VOp::RouterOdd { user, shape, amt } => {
                let usr = vw.user(*user);
                let amount = resolve(amt, before.balance, 0).max(1);
                let router = vw.router.clone();
                let v = vw.vault.clone();
                let pay = vw.purse_pay_msg(amount / 2 + 10, &router);
                let (assets, msgs): (Vec<white_whale_std::pool_network::asset::Asset>, Vec<CosmosMsg>) = match *shape % 3 {
                    0 => (vec![], vec![pay]),
                    1 => (vec![asset(&vw.info, amount), asset(&vw.info, amount)], vec![pay]),
                    _ => {
                        let part = (amount / 2).max(1);
                        let dep: CosmosMsg = match &vw.info {
                            AssetInfo::NativeToken { denom } => WasmMsg::Execute {
                                contract_addr: v.to_string(),
                                msg: to_json_binary(&vault::ExecuteMsg::Deposit { amount: Uint128::new(part) }).unwrap(),
                                funds: vec![coin(part, denom)],
                            }
                            .into(),
                            AssetInfo::Token { .. } => WasmMsg::Execute {
                                contract_addr: v.to_string(),
                                msg: to_json_binary(&vault::ExecuteMsg::Deposit { amount: Uint128::new(part) }).unwrap(),
                                funds: vec![],
                            }
                            .into(),
                        };
                        (vec![asset(&vw.info, amount)], vec![dep, pay])
                    }
                };
                let snap0 = vw.w.snapshot();
                let r = vw.w.exec(&usr, &router, &vault_router::ExecuteMsg::FlashLoan { assets, msgs }, &[]);
                rec.class(&format!("router_odd_shape{}_{}", *shape % 3, if r.is_ok() { "ok" } else { "rejected" }));
                if *shape % 3 == 1 && r.is_ok() {
                    // no listed clause forbids it by itself, and the ledger model below does not know
                    // such loans: the history ends here, unjudged
                    rec.class("router_same_asset_twice_accepted_unjudged");
                    return Ok(st);
                }
                ensure!(
                    *shape % 3 != 2 || r.is_err(),
                    "step {step}: a vault-router loan whose payload deposits part of the loan into the vault (shares minted while the loan is outstanding) was accepted"
                );
                let snap1 = vw.w.snapshot();
                ensure!(snap1 == snap0, "step {step}: vault-router FlashLoan of odd shape {} changed the world: {}", *shape % 3, snap0.diff(&snap1));
            }
            VOp::DepositMismatch { user, amt, mode } => {
                let usr = vw.user(*user);
                let amount = resolve(amt, before.balance, vw.w.bal(&vw.info, &usr)).min(1u128 << 110);
                rec.class("deposit_mismatch_attempt");
                if vw.deposit_mismatch(&usr, amount, *mode).is_ok() {
                    ok = true;
                    rec.class(&format!("deposit_mismatch_accepted_mode{mode}"));
                    first_deposit_done = true;
                }
            }
            VOp::ForgedReceive { user, via, amount } => {
                let usr = vw.user(*user);
                let lp_b = vw.w.cw20_balance(&vw.lp, &usr);
                let supply_b = vw.w.cw20_supply(&vw.lp);
                if vw.forged_receive(&usr, *via, amount.u128()).is_ok() {
                    ok = true;
                    rec.class("forged_receive_accepted");
                    let lp_a = vw.w.cw20_balance(&vw.lp, &usr);
                    let supply_a = vw.w.cw20_supply(&vw.lp);
                    ensure!(
                        supply_a >= supply_b || lp_a < lp_b,
                        "step {step}: a Receive{{Withdraw}} hook not sent by the share token (via {via}, amount {amount}) burnt shares nobody gave up: supply {supply_b} -> {supply_a}, sender's shares {lp_b} -> {lp_a}"
                    );
                } else {
                    rec.class("forged_receive_rejected");
                }
            }
            VOp::WithdrawDirect { user, other_denom, amount } => {
                let usr = vw.user(*user);
                let denom = if *other_denom { "uvvvo" } else { "uvvv" };
                let b = vw.w.bal(&vw.info, &usr);
                let lp_b = vw.w.cw20_balance(&vw.lp, &usr);
                let v = vw.vault.clone();
                let r = vw.w.exec(&usr, &v, &vault::ExecuteMsg::Withdraw {}, &[cosmwasm_std::coin(amount.u128(), denom)]);
                if r.is_ok() {
                    ok = true;
                    rec.class("withdraw_direct_accepted");
                    let a = vw.w.bal(&vw.info, &usr);
                    let lp_a = vw.w.cw20_balance(&vw.lp, &usr);
                    ensure!(
                        lp_a < lp_b || a <= b,
                        "step {step}: the direct Withdraw message with {amount}{denom} attached paid the sender out of the vault ({b} -> {a}) although its share balance did not fall ({lp_b} -> {lp_a})"
                    );
                } else {
                    rec.class("withdraw_direct_rejected");
                }
            }
        }
        let after = vw
            .view()
            .map_err(|e| Fail::new(format!("step {step} ({op:?}): vault queries failed afterwards: {e}")))?;
        if ok {
            if before.supply > 0 && after.supply > 0 && !matches!(op, VOp::Loan { .. } | VOp::RouterLoan { .. }) {
                ensure!(
                    price_not_lower(&before, &after),
                    "step {step} ({op:?}): assets backing one share fell: {}/{} -> {}/{}",
                    before.backing(),
                    before.supply,
                    after.backing(),
                    after.supply
                );
            }
        } else {
            rec.class("rejected");
            // deposits by cw20 set allowances in separate (successful) transactions; compare
            // everything except those when the deposit itself is rejected
            let now = vw.w.snapshot();
            let is_cw20_deposit = c.cfg.cw20 && matches!(op, VOp::Deposit { .. } | VOp::DepositThenWithdraw { .. } | VOp::DepositMismatch { .. });
            if !is_cw20_deposit {
                ensure!(
                    now == snap,
                    "step {step} ({op:?}): rejected operation changed the world: {}",
                    snap.diff(&now)
                );
            } else {
                ensure!(
                    now.bank == snap.bank && after.balance == before.balance && after.supply == before.supply && after.pending == before.pending,
                    "step {step} ({op:?}): rejected deposit changed balances"
                );
            }
        }
        // ledger model (C07)
        ensure!(
            after.pending == model_pending,
            "step {step} ({op:?}): pending ledger {} != charged − transferred {model_pending}",
            after.pending
        );
        ensure!(
            after.all_time == model_all_time && after.burned == model_burned,
            "step {step} ({op:?}): all-time counters ({}, {}) != sums of charges ({model_all_time}, {model_burned})",
            after.all_time,
            after.burned
        );
        ensure!(
            after.all_time >= before.all_time && after.burned >= before.burned,
            "step {step} ({op:?}): an all-time counter decreased"
        );
        if first_deposit_done {
            let locked = vw.w.cw20_balance(&vw.lp, &vw.vault);
            ensure!(
                locked >= crate::props::c01::min_liq() && after.supply >= crate::props::c01::min_liq(),
                "step {step} ({op:?}): minimum liquidity not locked in the vault: vault holds {locked} shares, supply {}",
                after.supply
            );
        }
        before = after;
    }
    Ok(st)
}

pub fn _unused(_: Asset, _: TResult) {}

/// Applies operations to a vault world without judging them (used to reach arbitrary states for
/// probes of other properties; C05/C06/C07 judge the same operations).
pub fn apply_ops_unjudged(vw: &mut VaultWorld, ops: &[VOp]) {
    let original_collector = vw.collector.clone();
    for op in ops {
        let bal = vw.w.bal(&vw.info, &vw.vault);
        match op {
            VOp::Deposit { user, amt } | VOp::DepositThenWithdraw { user, amt } => {
                let usr = vw.user(*user);
                let amount = resolve(amt, bal, vw.w.bal(&vw.info, &usr));
                let _ = vw.deposit(&usr, amount);
            }
            VOp::Withdraw { user, k } => {
                let usr = vw.user(*user);
                let shares = gen::frac(*k, vw.w.cw20_balance(&vw.lp, &usr));
                let _ = vw.withdraw(&usr, shares);
            }
            VOp::Loan { amt, program } => {
                let amount = resolve(amt, bal, 0);
                let caller = vw.user(0);
                let _ = vw.start_loan(&caller, amount, program);
            }
            VOp::RouterLoan { user, amt, proceeds, .. } => {
                let usr = vw.user(*user);
                let amount = resolve(amt, bal, 0);
                let pay = resolve(proceeds, bal / 16, 0);
                let router = vw.router.clone();
                let msgs = vec![vw.purse_pay_msg(pay, &router)];
                let _ = vw.router_loan(&usr, amount, msgs);
            }
            VOp::Collect { caller } => {
                let who = match *caller {
                    4 => vw.w.owner.clone(),
                    5 => vw.borrower.clone(),
                    c => vw.user(c),
                };
                let _ = vw.collect(&who);
            }
            VOp::SetFees { fees } => {
                let _ = vw.set_fees([fees[0].u128(), fees[1].u128(), fees[2].u128()]);
            }
            VOp::Donate { user, amt } => {
                let usr = vw.user(*user);
                let amount = resolve(amt, bal, vw.w.bal(&vw.info, &usr)).min(1u128 << 110);
                let info = vw.info.clone();
                let v = vw.vault.clone();
                let _ = vw.w.transfer(&usr, &v, &info, amount);
            }
            VOp::AdvanceBlock => vw.w.advance(6_000_000_000, 1),
            VOp::SetCollector { which } => {
                let to = match *which % 3 {
                    0 => original_collector.clone(),
                    1 => Addr::unchecked("collector-two"),
                    _ => Addr::unchecked("collector-three"),
                };
                let _ = vw.set_collector(&to);
            }
            VOp::RouterOdd { .. } => {}
            VOp::DepositMismatch { user, amt, mode } => {
                let usr = vw.user(*user);
                let amount = resolve(amt, bal, vw.w.bal(&vw.info, &usr)).min(1u128 << 110);
                let _ = vw.deposit_mismatch(&usr, amount, *mode);
            }
            VOp::ForgedReceive { user, via, amount } => {
                let usr = vw.user(*user);
                let _ = vw.forged_receive(&usr, *via, amount.u128());
            }
            VOp::WithdrawDirect { user, other_denom, amount } => {
                let usr = vw.user(*user);
                let v = vw.vault.clone();
                let denom = if *other_denom { "uvvvo" } else { "uvvv" };
                let _ = vw.w.exec(&usr, &v, &vault::ExecuteMsg::Withdraw {}, &[cosmwasm_std::coin(amount.u128(), denom)]);
            }
        }
    }
}
