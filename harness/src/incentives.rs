//! Incentive world: real incentive factory + incentive contract, real fee collector, the
//! repository's fee-distributor mock as the epoch clock; optional real pair + frontend helper.

use cosmwasm_std::{coin, Addr, Coin, Uint128};
use serde::{Deserialize, Serialize};

use white_whale_std::pool_network::asset::{Asset, AssetInfo, PairType};
use white_whale_std::pool_network::incentive::{self as inc, Flow, FlowIdentifier};
use white_whale_std::pool_network::incentive_factory as incf;

use crate::world::{asset, native, pool_fee, token, ExecResult, World};

pub const I_FUND: u128 = 1u128 << 110;
pub const I_USERS: [&str; 4] = ["alice", "bob", "carol", "dave"];
pub const MIN_DUR: u64 = 86_400;
pub const MAX_DUR: u64 = 31_556_926;

#[derive(Clone, Debug, Serialize, Deserialize, PartialEq)]
pub enum LpKind {
    /// plain cw20 token
    Cw20,
    /// plain bank denom
    Native,
    /// cw20 LP token of a real constant-product pair (needed for the frontend helper)
    PairLp,
    /// the same with one cw20 pool asset (the helper's TransferFrom / IncreaseAllowance branch)
    PairLpCw20,
}

#[derive(Clone, Debug, Serialize, Deserialize, PartialEq)]
pub enum FeeKind {
    /// native fee denom "urewf"
    Native,
    /// cw20 fee token
    Cw20,
    /// the fee asset is the same asset as flow asset index 0
    SameAsFlow0,
    /// the fee asset is the LP asset itself
    SameAsLp,
}

#[derive(Clone, Debug, Serialize, Deserialize, PartialEq)]
pub struct IncCfg {
    pub lp: LpKind,
    /// flow asset 0 is a cw20 (true) or the native denom "urew" (false); flow asset 1 is the other kind
    pub flow0_cw20: bool,
    pub fee: FeeKind,
    pub fee_amount: Uint128,
    pub max_concurrent_flows: u64,
}

pub struct IncWorld {
    pub w: World,
    pub factory: Addr,
    pub incentive: Addr,
    pub lp: AssetInfo,
    /// reward assets: [0], [1] as configured, [2] = the LP asset itself
    pub flow_assets: Vec<AssetInfo>,
    pub fee_asset: AssetInfo,
    pub fee_amount: u128,
    pub collector: Addr,
    pub epoch_clock: Addr,
    pub pair: Option<Addr>,
    pub pair_assets: Option<[AssetInfo; 2]>,
    pub helper: Option<Addr>,
}

impl IncWorld {
    pub fn build(cfg: &IncCfg) -> Result<IncWorld, String> {
        let mut w = World::new_with_fund(&I_USERS, &["ulp", "urew", "urewf", "uaaa", "ubbb"], I_FUND);
        w.setup_pool_network();
        let owner = w.owner.clone();
        let collector = w.fee_collector.clone().unwrap();
        let clock = w.instantiate(
            w.code.fee_distributor_mock,
            &owner,
            &fee_distributor_mock::msg::InstantiateMsg {},
            "epoch_clock",
            None,
        )?;
        let mut pair = None;
        let mut pair_assets = None;
        let lp = match cfg.lp {
            LpKind::Cw20 => token(&w.create_cw20_with_fund("lptok", 6, I_FUND)),
            LpKind::Native => native("ulp"),
            LpKind::PairLp | LpKind::PairLpCw20 => {
                w.register_native_decimals("uaaa", 6);
                w.register_native_decimals("ubbb", 6);
                let infos = if cfg.lp == LpKind::PairLpCw20 {
                    [native("uaaa"), token(&w.create_cw20_with_fund("pooltok", 6, I_FUND))]
                } else {
                    [native("uaaa"), native("ubbb")]
                };
                let info = w.create_pair(infos.clone(), pool_fee([0, 3_000_000_000_000_000, 0]), PairType::ConstantProduct)?;
                let p = Addr::unchecked(info.contract_addr);
                // every user gets LP by providing liquidity
                let mut all = w.users.clone();
                all.push(owner.clone());
                for (i, u) in all.iter().enumerate() {
                    let a = 1u128 << (70 + i as u32);
                    let mut funds = vec![coin(a, "uaaa")];
                    match &infos[1] {
                        AssetInfo::NativeToken { denom } => funds.push(coin(a, denom)),
                        AssetInfo::Token { contract_addr } => {
                            let t = Addr::unchecked(contract_addr);
                            w.increase_allowance(u, &t, &p, a);
                        }
                    }
                    w.exec(
                        u,
                        &p,
                        &white_whale_std::pool_network::pair::ExecuteMsg::ProvideLiquidity {
                            assets: [asset(&infos[0], a), asset(&infos[1], a)],
                            slippage_tolerance: None,
                            receiver: None,
                        },
                        &funds,
                    )?;
                }
                pair = Some(p);
                pair_assets = Some(infos);
                info.liquidity_token
            }
        };
        let rew_cw20 = token(&w.create_cw20_with_fund("rewtok", 6, I_FUND));
        let rew_native = native("urew");
        let flow_assets = if cfg.flow0_cw20 {
            vec![rew_cw20.clone(), rew_native.clone(), lp.clone()]
        } else {
            vec![rew_native.clone(), rew_cw20.clone(), lp.clone()]
        };
        let fee_asset = match cfg.fee {
            FeeKind::Native => native("urewf"),
            FeeKind::Cw20 => token(&w.create_cw20_with_fund("feetok", 6, I_FUND)),
            FeeKind::SameAsFlow0 => flow_assets[0].clone(),
            FeeKind::SameAsLp => lp.clone(),
        };
        let factory = w.instantiate(
            w.code.incentive_factory,
            &owner,
            &incf::InstantiateMsg {
                fee_collector_addr: collector.to_string(),
                fee_distributor_addr: clock.to_string(),
                create_flow_fee: asset(&fee_asset, cfg.fee_amount.u128()),
                max_concurrent_flows: cfg.max_concurrent_flows,
                incentive_code_id: w.code.incentive,
                max_flow_epoch_buffer: 14,
                min_unbonding_duration: MIN_DUR,
                max_unbonding_duration: MAX_DUR,
            },
            "incentive_factory",
            None,
        )?;
        w.exec(&owner, &factory, &incf::ExecuteMsg::CreateIncentive { lp_asset: lp.clone() }, &[])?;
        let addr: incf::IncentiveResponse = w.query(&factory, &incf::QueryMsg::Incentive { lp_asset: lp.clone() })?;
        let incentive = addr.ok_or("incentive not registered")?;
        w.register("incentive", &incentive);
        let mut helper = None;
        if cfg.lp == LpKind::PairLp || cfg.lp == LpKind::PairLpCw20 {
            let h = w.instantiate(
                w.code.frontend_helper,
                &owner,
                &white_whale_std::pool_network::frontend_helper::InstantiateMsg {
                    incentive_factory: factory.to_string(),
                },
                "frontend_helper",
                None,
            )?;
            helper = Some(h);
        }
        Ok(IncWorld {
            w,
            factory,
            incentive,
            lp,
            flow_assets,
            fee_asset,
            fee_amount: cfg.fee_amount.u128(),
            collector,
            epoch_clock: clock,
            pair,
            pair_assets,
            helper,
        })
    }

    pub fn user(&self, i: u8) -> Addr {
        self.w.users[(i as usize) % self.w.users.len()].clone()
    }

    pub fn current_epoch(&self) -> u64 {
        let r: Result<white_whale_std::fee_distributor::EpochResponse, _> = self
            .w
            .query(&self.epoch_clock, &white_whale_std::fee_distributor::QueryMsg::CurrentEpoch {});
        r.map(|e| e.epoch.id.u64()).unwrap_or(0)
    }

    pub fn new_epoch(&mut self) {
        let o = self.w.owner.clone();
        let c = self.epoch_clock.clone();
        let _ = self.w.exec(&o, &c, &white_whale_std::fee_distributor::ExecuteMsg::NewEpoch {}, &[]);
        self.w.advance(86_400_000_000_000, 1);
    }

    pub fn exec_inc(&mut self, who: &Addr, msg: &inc::ExecuteMsg, funds: &[Coin]) -> ExecResult {
        let i = self.incentive.clone();
        self.w.exec(who, &i, msg, funds)
    }

    /// Sets the cw20 allowance of `who` towards the incentive contract to exactly `amount`.
    pub fn set_allowance(&mut self, who: &Addr, tok: &AssetInfo, amount: u128) {
        if let AssetInfo::Token { contract_addr } = tok {
            let t = Addr::unchecked(contract_addr);
            let i = self.incentive.clone();
            let cur: Result<cw20::AllowanceResponse, _> = self.w.query(
                &t,
                &cw20::Cw20QueryMsg::Allowance {
                    owner: who.to_string(),
                    spender: i.to_string(),
                },
            );
            let cur = cur.map(|c| c.allowance.u128()).unwrap_or(0);
            if cur > amount {
                let _ = self.w.exec(
                    who,
                    &t,
                    &cw20::Cw20ExecuteMsg::DecreaseAllowance {
                        spender: i.to_string(),
                        amount: Uint128::new(cur - amount),
                        expires: None,
                    },
                    &[],
                );
            } else if amount > cur {
                self.w.increase_allowance(who, &t, &i, amount - cur);
            }
        }
    }

    /// Position messages: funds/allowance `provided` may differ from the declared `amount`.
    pub fn position_msg(
        &mut self,
        who: &Addr,
        expand: bool,
        amount: u128,
        provided: u128,
        duration: u64,
        receiver: Option<&Addr>,
    ) -> ExecResult {
        let lp = self.lp.clone();
        let funds = match &lp {
            AssetInfo::NativeToken { denom } => {
                if provided > 0 {
                    vec![coin(provided, denom)]
                } else {
                    vec![]
                }
            }
            AssetInfo::Token { .. } => {
                self.set_allowance(who, &lp, provided);
                vec![]
            }
        };
        let msg = if expand {
            inc::ExecuteMsg::ExpandPosition {
                amount: Uint128::new(amount),
                unbonding_duration: duration,
                receiver: receiver.map(|r| r.to_string()),
            }
        } else {
            inc::ExecuteMsg::OpenPosition {
                amount: Uint128::new(amount),
                unbonding_duration: duration,
                receiver: receiver.map(|r| r.to_string()),
            }
        };
        self.exec_inc(who, &msg, &funds)
    }

    pub fn positions(&self, who: &Addr) -> Result<inc::PositionsResponse, String> {
        self.w.query(&self.incentive, &inc::QueryMsg::Positions { address: who.to_string() })
    }

    /// All flows, read from raw storage (the Flow/Flows queries trim histories to a 100-epoch window).
    pub fn flows_raw(&self) -> Vec<Flow> {
        let mut out = vec![];
        for (k, v) in self.w.app.dump_wasm_raw(&self.incentive) {
            if k.len() > 7 && k[0] == 0 && k[1] == 5 && &k[2..7] == b"flows" {
                if let Ok(f) = serde_json::from_slice::<Flow>(&v) {
                    out.push(f);
                }
            }
        }
        out.sort_by_key(|f| f.flow_id);
        out
    }

    pub fn raw_u128(&self, key: &[u8]) -> Option<u128> {
        let raw = self.w.raw(&self.incentive, key)?;
        let v: Uint128 = serde_json::from_slice(&raw).ok()?;
        Some(v.u128())
    }

    pub fn global_weight_raw(&self) -> u128 {
        self.raw_u128(b"global_weight").unwrap_or(0)
    }

    /// Σ over all ADDRESS_WEIGHT entries (raw map "address_weight").
    pub fn address_weights_raw(&self) -> Vec<(String, u128)> {
        let mut out = vec![];
        let ns = b"address_weight";
        for (k, v) in self.w.app.dump_wasm_raw(&self.incentive) {
            if k.len() > 2 + ns.len() && k[0] == 0 && k[1] as usize == ns.len() && &k[2..2 + ns.len()] == ns {
                let addr = String::from_utf8_lossy(&k[2 + ns.len()..]).to_string();
                if let Ok(val) = serde_json::from_slice::<Uint128>(&v) {
                    out.push((addr, val.u128()));
                }
            }
        }
        out
    }
}

pub fn funded_of(f: &Flow) -> u128 {
    f.asset_history
        .iter()
        .next_back()
        .map(|(_, (a, _))| a.u128())
        .unwrap_or(f.flow_asset.amount.u128())
}

pub fn end_of(f: &Flow) -> u64 {
    f.asset_history.iter().next_back().map(|(_, (_, e))| *e).unwrap_or(f.end_epoch)
}

pub fn outstanding_of(f: &Flow) -> u128 {
    funded_of(f).saturating_sub(f.claimed_amount.u128())
}

pub fn flow_id(id: u64) -> FlowIdentifier {
    FlowIdentifier::Id(id)
}

#[allow(dead_code)]
pub fn _unused(_: Asset) {}
