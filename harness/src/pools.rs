//! Pair / trio worlds and the operations on them, shared by C01, C03, C04, C07, C14, C15, C17.

use cosmwasm_std::{coin, Addr, Coin, Decimal, Uint128};
use cw_multi_test::AppResponse;
use serde::{Deserialize, Serialize};

use white_whale_std::pool_network::asset::{Asset, AssetInfo, PairType};
use white_whale_std::pool_network::pair;
use white_whale_std::pool_network::trio;

use crate::world::{asset, native, pool_fee, token, trio_fee, ExecResult, World};

pub const USER_FUND: u128 = 1u128 << 120;
pub const USERS: [&str; 4] = ["alice", "bob", "carol", "dave"];

#[derive(Clone, Debug, Serialize, Deserialize, PartialEq)]
pub struct PairCfg {
    /// asset i is a cw20 (true) or a native denom (false)
    pub cw20: [bool; 2],
    pub decimals: [u8; 2],
    /// (protocol, swap, burn) 18-decimal atomics
    pub fees: [Uint128; 3],
    /// None = constant product
    pub amp: Option<u64>,
}

/// How the native funds attached to a message relate to the amounts the message declares:
/// 0 exactly, 1 one unit short on the first coin, 2 half of every coin, 3 no funds at all,
/// 4 one unit too many on the first coin, 5 an extra coin of an unrelated denom on top.
pub fn distort_funds(mode: u8, mut funds: Vec<Coin>) -> Vec<Coin> {
    match mode {
        1 => {
            if let Some(c) = funds.first_mut() {
                c.amount = c.amount.saturating_sub(cosmwasm_std::Uint128::one());
            }
            funds.retain(|c| !c.amount.is_zero());
        }
        2 => {
            for c in funds.iter_mut() {
                c.amount = cosmwasm_std::Uint128::new(c.amount.u128() / 2);
            }
            funds.retain(|c| !c.amount.is_zero());
        }
        3 => funds.clear(),
        4 => {
            if let Some(c) = funds.first_mut() {
                c.amount += cosmwasm_std::Uint128::one();
            }
        }
        5 => {
            funds.push(coin(1, "uccc"));
            funds.sort_by(|a, b| a.denom.cmp(&b.denom));
            funds.dedup_by(|a, b| {
                if a.denom == b.denom {
                    b.amount += a.amount;
                    true
                } else {
                    false
                }
            });
        }
        _ => {}
    }
    funds
}

pub struct PairWorld {
    pub w: World,
    pub pair: Addr,
    pub lp: Addr,
    pub infos: [AssetInfo; 2],
    pub decimals: [u8; 2],
    pub collector: Addr,
    /// when set, ProvideLiquidity messages list the two assets in the opposite order to the pool's
    /// own asset order (amounts always stay attached to their asset)
    pub reversed_msgs: bool,
    /// see [`distort_funds`]; applies to the next ProvideLiquidity / native Swap messages
    pub funds_mode: u8,
}

#[derive(Clone, Debug)]
pub struct PoolView {
    pub reserves: Vec<u128>,
    pub total_share: u128,
    pub pending: Vec<u128>,
    pub balances: Vec<u128>,
}

pub fn fees_u(f: &[Uint128; 3]) -> [u128; 3] {
    [f[0].u128(), f[1].u128(), f[2].u128()]
}

impl PairWorld {
    pub fn build(cfg: &PairCfg) -> Result<PairWorld, String> {
        let mut w = World::new_with_fund(&USERS, &["uaaa", "uaaab", "uccc"], USER_FUND);
        w.setup_pool_network();
        w.add_account("collector-two");
        w.add_account("collector-three");
        let mut infos = vec![];
        for i in 0..2 {
            if cfg.cw20[i] {
                let t = w.create_cw20_with_fund(&format!("tok{}", ["a", "b"][i]), cfg.decimals[i], USER_FUND);
                infos.push(token(&t));
            } else {
                let d = ["uaaa", "uaaab"][i];
                w.register_native_decimals(d, cfg.decimals[i]);
                infos.push(native(d));
            }
        }
        let infos: [AssetInfo; 2] = [infos[0].clone(), infos[1].clone()];
        let pair_type = match cfg.amp {
            None => PairType::ConstantProduct,
            Some(a) => PairType::StableSwap { amp: a },
        };
        let info = w.create_pair(infos.clone(), pool_fee(fees_u(&cfg.fees)), pair_type)?;
        let pair = Addr::unchecked(info.contract_addr);
        let lp = match info.liquidity_token {
            AssetInfo::Token { contract_addr } => Addr::unchecked(contract_addr),
            _ => return Err("native lp".into()),
        };
        // the pair reports its assets in the order given at creation
        let collector = w.fee_collector.clone().unwrap();
        Ok(PairWorld {
            w,
            pair,
            lp,
            infos: [info.asset_infos[0].clone(), info.asset_infos[1].clone()],
            decimals: info.asset_decimals,
            collector,
            reversed_msgs: false,
            funds_mode: 0,
        })
    }

    pub fn user(&self, i: u8) -> Addr {
        self.w.users[(i as usize) % self.w.users.len()].clone()
    }

    pub fn view(&self) -> Result<PoolView, String> {
        let pool: pair::PoolResponse = self.w.query(&self.pair, &pair::QueryMsg::Pool {})?;
        let fees: pair::ProtocolFeesResponse = self.w.query(
            &self.pair,
            &pair::QueryMsg::ProtocolFees {
                asset_id: None,
                all_time: None,
            },
        )?;
        let mut reserves = vec![];
        let mut pending = vec![];
        let mut balances = vec![];
        for info in &self.infos {
            let r = pool
                .assets
                .iter()
                .find(|a| a.info == *info)
                .ok_or("pool response lacks asset")?;
            reserves.push(r.amount.u128());
            let p = fees
                .fees
                .iter()
                .find(|a| a.info == *info)
                .ok_or("fees response lacks asset")?;
            pending.push(p.amount.u128());
            balances.push(self.w.bal(info, &self.pair));
        }
        Ok(PoolView {
            reserves,
            total_share: pool.total_share.u128(),
            pending,
            balances,
        })
    }

    pub fn all_time(&self, burned: bool) -> Result<Vec<u128>, String> {
        let fees: pair::ProtocolFeesResponse = if burned {
            self.w.query(&self.pair, &pair::QueryMsg::BurnedFees { asset_id: None })?
        } else {
            self.w.query(
                &self.pair,
                &pair::QueryMsg::ProtocolFees {
                    asset_id: None,
                    all_time: Some(true),
                },
            )?
        };
        let mut out = vec![];
        for info in &self.infos {
            let p = fees.fees.iter().find(|a| a.info == *info).ok_or("lacks asset")?;
            out.push(p.amount.u128());
        }
        Ok(out)
    }

    /// Every way of asking for the fee ledgers must tell the same story: for each asset, the entry
    /// returned with `asset_id: Some(that asset)` equals the entry of the unfiltered answer, for the
    /// pending ledger (`all_time` None / Some(false)), the all-time ledger (Some(true)) and the burned
    /// ledger. (An answer may carry more entries than asked for; only the asked asset's entry is read.)
    pub fn ledger_query_matrix(&self) -> Result<(), String> {
        let id_of = |info: &AssetInfo| match info {
            AssetInfo::NativeToken { denom } => denom.clone(),
            AssetInfo::Token { contract_addr } => contract_addr.clone(),
        };
        let entry = |r: &pair::ProtocolFeesResponse, info: &AssetInfo| r.fees.iter().find(|a| a.info == *info).map(|a| a.amount.u128());
        for all_time in [None, Some(false), Some(true)] {
            let base: pair::ProtocolFeesResponse = self.w.query(&self.pair, &pair::QueryMsg::ProtocolFees { asset_id: None, all_time })?;
            for info in &self.infos {
                let f: pair::ProtocolFeesResponse =
                    self.w.query(&self.pair, &pair::QueryMsg::ProtocolFees { asset_id: Some(id_of(info)), all_time })?;
                if entry(&f, info) != entry(&base, info) {
                    return Err(format!(
                        "ProtocolFees {{ asset_id: Some({}), all_time: {all_time:?} }} reports {:?} for that asset but the unfiltered query reports {:?}",
                        id_of(info),
                        entry(&f, info),
                        entry(&base, info)
                    ));
                }
            }
        }
        let base: pair::ProtocolFeesResponse = self.w.query(&self.pair, &pair::QueryMsg::BurnedFees { asset_id: None })?;
        for info in &self.infos {
            let f: pair::ProtocolFeesResponse = self.w.query(&self.pair, &pair::QueryMsg::BurnedFees { asset_id: Some(id_of(info)) })?;
            if entry(&f, info) != entry(&base, info) {
                return Err(format!(
                    "BurnedFees {{ asset_id: Some({}) }} reports {:?} for that asset but the unfiltered query reports {:?}",
                    id_of(info),
                    entry(&f, info),
                    entry(&base, info)
                ));
            }
        }
        Ok(())
    }

    pub fn lp_balance(&self, who: &Addr) -> u128 {
        self.w.cw20_balance(&self.lp, who)
    }

    /// Grants the pair the cw20 allowances a deposit of `amounts` needs (separate transactions).
    pub fn grant(&mut self, user: &Addr, amounts: [u128; 2]) {
        for i in 0..2 {
            if let AssetInfo::Token { contract_addr } = &self.infos[i] {
                let t = Addr::unchecked(contract_addr);
                let pair = self.pair.clone();
                self.w.increase_allowance(user, &t, &pair, amounts[i]);
            }
        }
    }

    /// The ProvideLiquidity transaction alone (allowances must have been granted).
    pub fn provide_exec(
        &mut self,
        user: &Addr,
        amounts: [u128; 2],
        slippage: Option<Decimal>,
        receiver: Option<&Addr>,
    ) -> ExecResult {
        let mut funds: Vec<Coin> = vec![];
        for i in 0..2 {
            if let AssetInfo::NativeToken { denom } = &self.infos[i] {
                if amounts[i] > 0 {
                    funds.push(coin(amounts[i], denom));
                }
            }
        }
        funds.sort_by(|a, b| a.denom.cmp(&b.denom));
        let funds = distort_funds(self.funds_mode, funds);
        let (i0, i1) = if self.reversed_msgs { (1, 0) } else { (0, 1) };
        let msg = pair::ExecuteMsg::ProvideLiquidity {
            assets: [
                asset(&self.infos[i0], amounts[i0]),
                asset(&self.infos[i1], amounts[i1]),
            ],
            slippage_tolerance: slippage,
            receiver: receiver.map(|r| r.to_string()),
        };
        let pair = self.pair.clone();
        self.w.exec(user, &pair, &msg, &funds)
    }

    pub fn provide(
        &mut self,
        user: &Addr,
        amounts: [u128; 2],
        slippage: Option<Decimal>,
        receiver: Option<&Addr>,
    ) -> ExecResult {
        self.grant(user, amounts);
        self.provide_exec(user, amounts, slippage, receiver)
    }

    /// The direct `WithdrawLiquidity {}` message (meant for token-factory LP denoms) with an
    /// arbitrary native coin attached; on a cw20-LP pool it must always be rejected.
    pub fn withdraw_direct(&mut self, user: &Addr, denom: &str, amount: u128) -> ExecResult {
        let pair = self.pair.clone();
        let funds = if amount == 0 { vec![] } else { vec![coin(amount, denom)] };
        self.w.exec(user, &pair, &pair::ExecuteMsg::WithdrawLiquidity {}, &funds)
    }

    /// A cw20 Receive hook that does not come from where it should: `swap_hook` selects the Swap
    /// hook (legitimate only from a pool asset's cw20) or the WithdrawLiquidity hook (legitimate
    /// only from the LP token). via 0: `Receive{..}` sent directly by the user; via 1: `Send` of a
    /// pool asset's cw20 (first cw20 asset; falls back to via 0 without one); via 2: `Send` of the
    /// LP token.
    pub fn forged_hook(&mut self, user: &Addr, via: u8, swap_hook: bool, amount: u128) -> ExecResult {
        let pair = self.pair.clone();
        let hook = if swap_hook {
            cosmwasm_std::to_json_binary(&pair::Cw20HookMsg::Swap { belief_price: None, max_spread: Some(Decimal::percent(50)), to: None }).unwrap()
        } else {
            cosmwasm_std::to_json_binary(&pair::Cw20HookMsg::WithdrawLiquidity {}).unwrap()
        };
        let asset_cw20 = self.infos.iter().find_map(|i| match i {
            AssetInfo::Token { contract_addr } => Some(Addr::unchecked(contract_addr)),
            _ => None,
        });
        let token = match (via, asset_cw20) {
            (1, Some(t)) => Some(t),
            (2, _) => Some(self.lp.clone()),
            _ => None,
        };
        match token {
            Some(t) => self.w.exec(user, &t, &cw20::Cw20ExecuteMsg::Send { contract: pair.to_string(), amount: Uint128::new(amount), msg: hook }, &[]),
            None => self.w.exec(user, &pair, &pair::ExecuteMsg::Receive(cw20::Cw20ReceiveMsg { sender: user.to_string(), amount: Uint128::new(amount), msg: hook }), &[]),
        }
    }

    pub fn withdraw(&mut self, user: &Addr, shares: u128) -> ExecResult {
        let lp = self.lp.clone();
        let pair = self.pair.clone();
        self.w
            .cw20_send(user, &lp, &pair, shares, &pair::Cw20HookMsg::WithdrawLiquidity {})
    }

    pub fn swap(
        &mut self,
        user: &Addr,
        offer_idx: usize,
        amount: u128,
        belief_price: Option<Decimal>,
        max_spread: Option<Decimal>,
        to: Option<&Addr>,
    ) -> ExecResult {
        let pair = self.pair.clone();
        match &self.infos[offer_idx] {
            AssetInfo::NativeToken { denom } => {
                let msg = pair::ExecuteMsg::Swap {
                    offer_asset: asset(&self.infos[offer_idx], amount),
                    belief_price,
                    max_spread,
                    to: to.map(|a| a.to_string()),
                };
                let funds = if amount > 0 { vec![coin(amount, denom)] } else { vec![] };
                let funds = distort_funds(self.funds_mode, funds);
                self.w.exec(user, &pair, &msg, &funds)
            }
            AssetInfo::Token { contract_addr } => {
                let t = Addr::unchecked(contract_addr);
                self.w.cw20_send(
                    user,
                    &t,
                    &pair,
                    amount,
                    &pair::Cw20HookMsg::Swap {
                        belief_price,
                        max_spread,
                        to: to.map(|a| a.to_string()),
                    },
                )
            }
        }
    }

    pub fn simulate(&self, offer_idx: usize, amount: u128) -> Result<pair::SimulationResponse, String> {
        self.w.query(
            &self.pair,
            &pair::QueryMsg::Simulation {
                offer_asset: asset(&self.infos[offer_idx], amount),
            },
        )
    }

    pub fn collect(&mut self, caller: &Addr) -> ExecResult {
        let pair = self.pair.clone();
        self.w.exec(caller, &pair, &pair::ExecuteMsg::CollectProtocolFees {}, &[])
    }

    pub fn set_fees(&mut self, fees: [u128; 3]) -> ExecResult {
        let owner = self.w.owner.clone();
        let factory = self.w.factory.clone().unwrap();
        self.w.exec(
            &owner,
            &factory,
            &white_whale_std::pool_network::factory::ExecuteMsg::UpdatePairConfig {
                pair_addr: self.pair.to_string(),
                owner: None,
                fee_collector_addr: None,
                pool_fees: Some(pool_fee(fees)),
                feature_toggle: None,
            },
            &[],
        )
    }

    pub fn set_toggles(&mut self, withdrawals: bool, deposits: bool, swaps: bool) -> ExecResult {
        let owner = self.w.owner.clone();
        let factory = self.w.factory.clone().unwrap();
        self.w.exec(
            &owner,
            &factory,
            &white_whale_std::pool_network::factory::ExecuteMsg::UpdatePairConfig {
                pair_addr: self.pair.to_string(),
                owner: None,
                fee_collector_addr: None,
                pool_fees: None,
                feature_toggle: Some(pair::FeatureToggle {
                    withdrawals_enabled: withdrawals,
                    deposits_enabled: deposits,
                    swaps_enabled: swaps,
                }),
            },
            &[],
        )
    }

    /// One UpdatePairConfig message through the factory carrying any combination of fields.
    pub fn update_cfg(&mut self, fees: Option<[u128; 3]>, toggle: Option<[bool; 3]>, collector: bool) -> ExecResult {
        let owner = self.w.owner.clone();
        let factory = self.w.factory.clone().unwrap();
        let col = self.collector.to_string();
        self.w.exec(
            &owner,
            &factory,
            &white_whale_std::pool_network::factory::ExecuteMsg::UpdatePairConfig {
                pair_addr: self.pair.to_string(),
                owner: None,
                fee_collector_addr: if collector { Some(col) } else { None },
                pool_fees: fees.map(pool_fee),
                feature_toggle: toggle.map(|f| pair::FeatureToggle {
                    withdrawals_enabled: f[0],
                    deposits_enabled: f[1],
                    swaps_enabled: f[2],
                }),
            },
            &[],
        )
    }

    /// Re-points the pair's fee collector (through the factory); on success `self.collector` follows.
    pub fn set_collector(&mut self, addr: &Addr) -> ExecResult {
        let owner = self.w.owner.clone();
        let factory = self.w.factory.clone().unwrap();
        let r = self.w.exec(
            &owner,
            &factory,
            &white_whale_std::pool_network::factory::ExecuteMsg::UpdatePairConfig {
                pair_addr: self.pair.to_string(),
                owner: None,
                fee_collector_addr: Some(addr.to_string()),
                pool_fees: None,
                feature_toggle: None,
            },
            &[],
        );
        if r.is_ok() {
            self.collector = addr.clone();
        }
        r
    }

    pub fn config(&self) -> Result<pair::ConfigResponse, String> {
        self.w.query(&self.pair, &pair::QueryMsg::Config {})
    }
}

/// Parses the swap attributes emitted by a pair / trio (claims, to be validated against deltas).
#[derive(Clone, Debug, Default)]
pub struct SwapAttrs {
    pub return_amount: u128,
    pub spread_amount: u128,
    pub swap_fee: u128,
    pub protocol_fee: u128,
    pub burn_fee: u128,
}

pub fn swap_attrs(resp: &AppResponse, contract: &Addr) -> Option<SwapAttrs> {
    for ev in &resp.events {
        if ev.ty != "wasm" {
            continue;
        }
        let from = ev
            .attributes
            .iter()
            .any(|a| a.key == "_contract_addr" && a.value == contract.as_str());
        let is_swap = ev.attributes.iter().any(|a| a.key == "action" && a.value == "swap");
        if !(from && is_swap) {
            continue;
        }
        let get = |k: &str| -> Option<u128> {
            ev.attributes
                .iter()
                .find(|a| a.key == k)
                .and_then(|a| a.value.parse::<u128>().ok())
        };
        return Some(SwapAttrs {
            return_amount: get("return_amount")?,
            spread_amount: get("spread_amount")?,
            swap_fee: get("swap_fee_amount")?,
            protocol_fee: get("protocol_fee_amount")?,
            burn_fee: get("burn_fee_amount")?,
        });
    }
    None
}

// ---------------------------------------------------------------------------------------------
// trio
// ---------------------------------------------------------------------------------------------

#[derive(Clone, Debug, Serialize, Deserialize, PartialEq)]
pub struct TrioCfg {
    pub cw20: [bool; 3],
    pub decimals: [u8; 3],
    pub fees: [Uint128; 3],
    pub amp: u64,
}

pub struct TrioWorld {
    pub w: World,
    pub trio: Addr,
    pub lp: Addr,
    pub infos: [AssetInfo; 3],
    pub decimals: [u8; 3],
    pub collector: Addr,
    /// order in which ProvideLiquidity messages list the three assets (a permutation of 0,1,2)
    pub msg_order: [usize; 3],
    /// see [`distort_funds`]
    pub funds_mode: u8,
}

impl TrioWorld {
    pub fn build(cfg: &TrioCfg) -> Result<TrioWorld, String> {
        let mut w = World::new_with_fund(&USERS, &["uaaa", "uaaab", "uccc"], USER_FUND);
        w.setup_pool_network();
        w.add_account("collector-two");
        w.add_account("collector-three");
        let mut infos = vec![];
        for i in 0..3 {
            if cfg.cw20[i] {
                let t = w.create_cw20_with_fund(&format!("tok{}", ["a", "b", "c"][i]), cfg.decimals[i], USER_FUND);
                infos.push(token(&t));
            } else {
                // the second denom has the first as a proper prefix: asset look-ups by identifier must not confuse them
                let d = ["uaaa", "uaaab", "uccc"][i];
                w.register_native_decimals(d, cfg.decimals[i]);
                infos.push(native(d));
            }
        }
        let infos: [AssetInfo; 3] = [infos[0].clone(), infos[1].clone(), infos[2].clone()];
        let info = w.create_trio(infos.clone(), trio_fee(fees_u(&cfg.fees)), cfg.amp)?;
        let trio = Addr::unchecked(info.contract_addr);
        let lp = match info.liquidity_token {
            AssetInfo::Token { contract_addr } => Addr::unchecked(contract_addr),
            _ => return Err("native lp".into()),
        };
        let collector = w.fee_collector.clone().unwrap();
        Ok(TrioWorld {
            w,
            trio,
            lp,
            infos: [
                info.asset_infos[0].clone(),
                info.asset_infos[1].clone(),
                info.asset_infos[2].clone(),
            ],
            decimals: info.asset_decimals,
            collector,
            msg_order: [0, 1, 2],
            funds_mode: 0,
        })
    }

    pub fn user(&self, i: u8) -> Addr {
        self.w.users[(i as usize) % self.w.users.len()].clone()
    }

    pub fn view(&self) -> Result<PoolView, String> {
        let pool: trio::PoolResponse = self.w.query(&self.trio, &trio::QueryMsg::Pool {})?;
        let fees: trio::ProtocolFeesResponse = self.w.query(
            &self.trio,
            &trio::QueryMsg::ProtocolFees {
                asset_id: None,
                all_time: None,
            },
        )?;
        let mut reserves = vec![];
        let mut pending = vec![];
        let mut balances = vec![];
        for info in &self.infos {
            let r = pool.assets.iter().find(|a| a.info == *info).ok_or("pool response lacks asset")?;
            reserves.push(r.amount.u128());
            let p = fees.fees.iter().find(|a| a.info == *info).ok_or("fees response lacks asset")?;
            pending.push(p.amount.u128());
            balances.push(self.w.bal(info, &self.trio));
        }
        Ok(PoolView {
            reserves,
            total_share: pool.total_share.u128(),
            pending,
            balances,
        })
    }

    pub fn all_time(&self, burned: bool) -> Result<Vec<u128>, String> {
        let fees: trio::ProtocolFeesResponse = if burned {
            self.w.query(&self.trio, &trio::QueryMsg::BurnedFees { asset_id: None })?
        } else {
            self.w.query(
                &self.trio,
                &trio::QueryMsg::ProtocolFees {
                    asset_id: None,
                    all_time: Some(true),
                },
            )?
        };
        let mut out = vec![];
        for info in &self.infos {
            let p = fees.fees.iter().find(|a| a.info == *info).ok_or("lacks asset")?;
            out.push(p.amount.u128());
        }
        Ok(out)
    }

    /// Every way of asking for the fee ledgers must tell the same story: for each asset, the entry
    /// returned with `asset_id: Some(that asset)` equals the entry of the unfiltered answer, for the
    /// pending ledger (`all_time` None / Some(false)), the all-time ledger (Some(true)) and the burned
    /// ledger. (An answer may carry more entries than asked for; only the asked asset's entry is read.)
    pub fn ledger_query_matrix(&self) -> Result<(), String> {
        let id_of = |info: &AssetInfo| match info {
            AssetInfo::NativeToken { denom } => denom.clone(),
            AssetInfo::Token { contract_addr } => contract_addr.clone(),
        };
        let entry = |r: &trio::ProtocolFeesResponse, info: &AssetInfo| r.fees.iter().find(|a| a.info == *info).map(|a| a.amount.u128());
        for all_time in [None, Some(false), Some(true)] {
            let base: trio::ProtocolFeesResponse = self.w.query(&self.trio, &trio::QueryMsg::ProtocolFees { asset_id: None, all_time })?;
            for info in &self.infos {
                let f: trio::ProtocolFeesResponse =
                    self.w.query(&self.trio, &trio::QueryMsg::ProtocolFees { asset_id: Some(id_of(info)), all_time })?;
                if entry(&f, info) != entry(&base, info) {
                    return Err(format!(
                        "ProtocolFees {{ asset_id: Some({}), all_time: {all_time:?} }} reports {:?} for that asset but the unfiltered query reports {:?}",
                        id_of(info),
                        entry(&f, info),
                        entry(&base, info)
                    ));
                }
            }
        }
        let base: trio::ProtocolFeesResponse = self.w.query(&self.trio, &trio::QueryMsg::BurnedFees { asset_id: None })?;
        for info in &self.infos {
            let f: trio::ProtocolFeesResponse = self.w.query(&self.trio, &trio::QueryMsg::BurnedFees { asset_id: Some(id_of(info)) })?;
            if entry(&f, info) != entry(&base, info) {
                return Err(format!(
                    "BurnedFees {{ asset_id: Some({}) }} reports {:?} for that asset but the unfiltered query reports {:?}",
                    id_of(info),
                    entry(&f, info),
                    entry(&base, info)
                ));
            }
        }
        Ok(())
    }

    pub fn lp_balance(&self, who: &Addr) -> u128 {
        self.w.cw20_balance(&self.lp, who)
    }

    pub fn grant(&mut self, user: &Addr, amounts: [u128; 3]) {
        for i in 0..3 {
            if let AssetInfo::Token { contract_addr } = &self.infos[i] {
                let t = Addr::unchecked(contract_addr);
                let trio = self.trio.clone();
                self.w.increase_allowance(user, &t, &trio, amounts[i]);
            }
        }
    }

    pub fn provide_exec(
        &mut self,
        user: &Addr,
        amounts: [u128; 3],
        slippage: Option<Decimal>,
        receiver: Option<&Addr>,
    ) -> ExecResult {
        let mut funds: Vec<Coin> = vec![];
        let trio = self.trio.clone();
        for i in 0..3 {
            if let AssetInfo::NativeToken { denom } = &self.infos[i] {
                if amounts[i] > 0 {
                    funds.push(coin(amounts[i], denom));
                }
            }
        }
        funds.sort_by(|a, b| a.denom.cmp(&b.denom));
        let funds = distort_funds(self.funds_mode, funds);
        let o = self.msg_order;
        let msg = trio::ExecuteMsg::ProvideLiquidity {
            assets: [
                asset(&self.infos[o[0]], amounts[o[0]]),
                asset(&self.infos[o[1]], amounts[o[1]]),
                asset(&self.infos[o[2]], amounts[o[2]]),
            ],
            slippage_tolerance: slippage,
            receiver: receiver.map(|r| r.to_string()),
        };
        self.w.exec(user, &trio, &msg, &funds)
    }

    pub fn provide(
        &mut self,
        user: &Addr,
        amounts: [u128; 3],
        slippage: Option<Decimal>,
        receiver: Option<&Addr>,
    ) -> ExecResult {
        self.grant(user, amounts);
        self.provide_exec(user, amounts, slippage, receiver)
    }

    /// see PairWorld::forged_hook; the Swap hook asks for the next asset
    pub fn forged_hook(&mut self, user: &Addr, via: u8, swap_hook: bool, amount: u128) -> ExecResult {
        let trio = self.trio.clone();
        let hook = if swap_hook {
            cosmwasm_std::to_json_binary(&trio::Cw20HookMsg::Swap { ask_asset: self.infos[1].clone(), belief_price: None, max_spread: Some(Decimal::percent(50)), to: None }).unwrap()
        } else {
            cosmwasm_std::to_json_binary(&trio::Cw20HookMsg::WithdrawLiquidity {}).unwrap()
        };
        let asset_cw20 = self.infos.iter().find_map(|i| match i {
            AssetInfo::Token { contract_addr } => Some(Addr::unchecked(contract_addr)),
            _ => None,
        });
        let token = match (via, asset_cw20) {
            (1, Some(t)) => Some(t),
            (2, _) => Some(self.lp.clone()),
            _ => None,
        };
        match token {
            Some(t) => self.w.exec(user, &t, &cw20::Cw20ExecuteMsg::Send { contract: trio.to_string(), amount: Uint128::new(amount), msg: hook }, &[]),
            None => self.w.exec(user, &trio, &trio::ExecuteMsg::Receive(cw20::Cw20ReceiveMsg { sender: user.to_string(), amount: Uint128::new(amount), msg: hook }), &[]),
        }
    }

    /// The direct `WithdrawLiquidity {}` message with an arbitrary native coin attached (see PairWorld).
    pub fn withdraw_direct(&mut self, user: &Addr, denom: &str, amount: u128) -> ExecResult {
        let trio = self.trio.clone();
        let funds = if amount == 0 { vec![] } else { vec![coin(amount, denom)] };
        self.w.exec(user, &trio, &trio::ExecuteMsg::WithdrawLiquidity {}, &funds)
    }

    pub fn withdraw(&mut self, user: &Addr, shares: u128) -> ExecResult {
        let lp = self.lp.clone();
        let trio = self.trio.clone();
        self.w
            .cw20_send(user, &lp, &trio, shares, &trio::Cw20HookMsg::WithdrawLiquidity {})
    }

    pub fn swap(
        &mut self,
        user: &Addr,
        offer_idx: usize,
        ask_idx: usize,
        amount: u128,
        belief_price: Option<Decimal>,
        max_spread: Option<Decimal>,
        to: Option<&Addr>,
    ) -> ExecResult {
        let trio = self.trio.clone();
        match &self.infos[offer_idx] {
            AssetInfo::NativeToken { denom } => {
                let msg = trio::ExecuteMsg::Swap {
                    offer_asset: asset(&self.infos[offer_idx], amount),
                    ask_asset: self.infos[ask_idx].clone(),
                    belief_price,
                    max_spread,
                    to: to.map(|a| a.to_string()),
                };
                let funds = if amount > 0 { vec![coin(amount, denom)] } else { vec![] };
                let funds = distort_funds(self.funds_mode, funds);
                self.w.exec(user, &trio, &msg, &funds)
            }
            AssetInfo::Token { contract_addr } => {
                let t = Addr::unchecked(contract_addr);
                self.w.cw20_send(
                    user,
                    &t,
                    &trio,
                    amount,
                    &trio::Cw20HookMsg::Swap {
                        ask_asset: self.infos[ask_idx].clone(),
                        belief_price,
                        max_spread,
                        to: to.map(|a| a.to_string()),
                    },
                )
            }
        }
    }

    pub fn simulate(
        &self,
        offer_idx: usize,
        ask_idx: usize,
        amount: u128,
    ) -> Result<trio::SimulationResponse, String> {
        self.w.query(
            &self.trio,
            &trio::QueryMsg::Simulation {
                offer_asset: asset(&self.infos[offer_idx], amount),
                ask_asset: asset(&self.infos[ask_idx], 0),
            },
        )
    }

    pub fn collect(&mut self, caller: &Addr) -> ExecResult {
        let trio = self.trio.clone();
        self.w.exec(caller, &trio, &trio::ExecuteMsg::CollectProtocolFees {}, &[])
    }

    pub fn update(
        &mut self,
        fees: Option<[u128; 3]>,
        toggle: Option<trio::FeatureToggle>,
        ramp: Option<trio::RampAmp>,
    ) -> ExecResult {
        let owner = self.w.owner.clone();
        let factory = self.w.factory.clone().unwrap();
        self.w.exec(
            &owner,
            &factory,
            &white_whale_std::pool_network::factory::ExecuteMsg::UpdateTrioConfig {
                trio_addr: self.trio.to_string(),
                owner: None,
                fee_collector_addr: None,
                pool_fees: fees.map(trio_fee),
                feature_toggle: toggle,
                amp_factor: ramp,
            },
            &[],
        )
    }

    /// Re-points the pool's fee collector (through the factory); on success `self.collector` follows.
    pub fn set_collector(&mut self, addr: &Addr) -> ExecResult {
        let owner = self.w.owner.clone();
        let factory = self.w.factory.clone().unwrap();
        let r = self.w.exec(
            &owner,
            &factory,
            &white_whale_std::pool_network::factory::ExecuteMsg::UpdateTrioConfig {
                trio_addr: self.trio.to_string(),
                owner: None,
                fee_collector_addr: Some(addr.to_string()),
                pool_fees: None,
                feature_toggle: None,
                amp_factor: None,
            },
            &[],
        );
        if r.is_ok() {
            self.collector = addr.clone();
        }
        r
    }

    pub fn config(&self) -> Result<trio::ConfigResponse, String> {
        self.w.query(&self.trio, &trio::QueryMsg::Config {})
    }
}

pub fn _unused(_: Asset) {}
