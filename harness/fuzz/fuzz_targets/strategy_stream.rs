//! libFuzzer target: the fuzzer's bytes are the random stream of one check's own proptest strategy
//! (see wwcheck::engine::fuzz_exec); the oracle is that check's `test`. Which check is chosen by
//! the environment: WWFUZZ_PROPERTY=C13 WWFUZZ_CHECK=weights_and_claims_history [VERIF_TIER].
//! A failure that is not a listed finding is shrunk, written as a replay file, announced with the
//! usual VIOLATION line, and turned into a panic so that libFuzzer keeps the input.
#![no_main]

use std::sync::OnceLock;

use libfuzzer_sys::fuzz_target;
use wwcheck::engine::{load_known, Property, RunEnv, Stats, Tier};

struct Session {
    prop: Property,
    idx: usize,
    env: RunEnv,
    stats: Stats,
    stats_path: String,
}

static SESSION: OnceLock<Session> = OnceLock::new();

fn session() -> &'static Session {
    SESSION.get_or_init(|| {
        std::panic::set_hook(Box::new(|_| {}));
        let id = std::env::var("WWFUZZ_PROPERTY").expect("WWFUZZ_PROPERTY");
        let check = std::env::var("WWFUZZ_CHECK").expect("WWFUZZ_CHECK");
        let prop = wwcheck::props::property(&id).expect("unknown property");
        let idx = prop.checks.iter().position(|c| c.name() == check).expect("unknown check");
        let tier = match std::env::var("VERIF_TIER").ok().as_deref() {
            Some("thorough") => Tier::Thorough,
            _ => Tier::Quick,
        };
        let env = RunEnv { property: id.clone(), tier, seed: 0, threads: 1, known: load_known(&id), scale: 1.0 };
        let stats_path = std::env::var("WWFUZZ_STATS").unwrap_or_else(|_| format!("/verif/harness/fuzz/stats/{}_{}_{}.json", id, check, std::process::id()));
        Session { prop, idx, env, stats: Stats::default(), stats_path }
    })
}

fuzz_target!(|data: &[u8]| {
    let s = session();
    if let Some((reason, replay)) = s.prop.checks[s.idx].fuzz(&s.env, &s.stats, data) {
        println!("VIOLATION property={} replay={}", s.env.property, replay);
        println!("  check={} reason={}", s.prop.checks[s.idx].name(), reason);
        let _ = std::panic::take_hook();
        panic!("property violated: {reason}");
    }
    let n = s.stats.evaluations.load(std::sync::atomic::Ordering::Relaxed);
    if n % 2000 == 0 {
        let classes = s.stats.classes.lock().unwrap().clone();
        let known: std::collections::BTreeMap<String, u64> = s.stats.known_hits.lock().unwrap().iter().map(|(k, v)| (k.clone(), v.0)).collect();
        let body = serde_json::json!({
            "property": s.env.property,
            "check": s.prop.checks[s.idx].name(),
            "executions": n,
            "distinct_nontrivial": s.stats.nontrivial.lock().unwrap().len(),
            "classes": classes,
            "known_finding_hits": known,
        });
        let _ = std::fs::write(&s.stats_path, serde_json::to_string_pretty(&body).unwrap());
    }
});
