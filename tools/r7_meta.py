#!/usr/bin/env python3
"""tools/r7_meta.py — writes seeded/<ID>-r7/meta.json (and -r8) from the confirmation / run logs kept beside the patch."""
import json, os, re, sys
ROUNDS = {
 "r7": "seventh round (all 20 properties; the agent was asked for a change that needs something specific to manifest — a multi-step sequence, an ordering inside a block, an unusual legal input, a fault at a particular point, or two cooperating sites — and was steered to a part of the code no earlier round had touched): a fresh sub-agent that saw only the property text and its own scratch worktree",
 "r11": "eleventh round (six properties, brief as in round ten, agents asked to be quick): a fresh sub-agent that saw only the property text and its own scratch worktree",
 "r10": "tenth round (six properties; the brief also listed, for inspiration, the kinds of trigger earlier rounds had exposed): a fresh sub-agent that saw only the property text and its own scratch worktree",
 "r9": "ninth round (the other ten properties, same brief as rounds seven and eight, steered to yet another part of the code): a fresh sub-agent that saw only the property text and its own scratch worktree",
 "r8": "eighth round (ten properties, same brief as round seven, steered to yet another part of the code): a fresh sub-agent that saw only the property text and its own scratch worktree",
}
INFO = {
 "C01-r7": ("terraswap-pair", "terraswap-pair", "contract.rs execute: the direct WithdrawLiquidity {} arm compares the attached coin's denom only when the LP token is native, so a cw20-LP pair accepts one coin of any denom and redeems that many LP out of the pair's own (locked) balance (same idea as seeded/C01-r3, found again)", "cw20-LP pair after its first deposit; ExecuteMsg::WithdrawLiquidity {} sent directly with exactly one coin of 1..=1000 units of any denom"),
 "C02-r7": ("terraswap-pair", "terraswap-pair", "helpers.rs compute_swap (constant product): gross return capped with .min(offer * exchange_rate), the rate being a Decimal256 truncated at 18 places; spread computed without saturating_sub", "raw reserves skewed by >= ~1e14..1e16 (offer side larger); gross 0 beyond 1e18"),
 "C03-r7": ("terraswap-pair", "terraswap-pair", "helpers.rs calculate_stableswap_y: the Newton loop returns the previous iterate as soon as the iterate stops decreasing (integer-sqrt idiom), which is only valid when the start value d lies above the root", "ask reserve after the swap above D: a de-pegged pool (ratio >= ~sqrt(8*amp)) with the scarce asset offered"),
 "C04-r7": ("stableswap-3pool", "stableswap-3pool", "stableswap_math/curve.rs compute_d: Newton loop cut from 256 to 32 iterations, the unconverged iterate is returned without error", "largest reserve >= ~1e9 x the others, or one reserve ~1e16 x smaller; one-sided whale deposit or swap on such a pool"),
 "C05-r7": ("vault", "vault", "execute/flash_loan.rs: old_balance handed to AfterTrade has the uncollected protocol fees subtracted, so a borrower may under-pay by up to the pending fees (same change as seeded/C05-r6, found again)", "protocol fees of an earlier loan still uncollected, then a borrower repaying less than loan + fees"),
 "C06-r7": ("vault", "vault", "execute/callback/after_trade.rs: the burn message takes its amount from the Asset returned by store_fee(ALL_TIME_BURNED_FEES, ..) — the cumulative total — instead of this loan's burn fee", "a vault with a non-zero burn fee and at least one earlier (or nested inner) loan that already recorded a burn fee"),
 "C07-r7": ("terraswap-pair", "terraswap-pair", "commands.rs swap: the three fee-ledger writes became a loop with take_while(!is_zero) over [protocol pending, protocol all-time, burn all-time]; a zero protocol fee stops the loop before the all-time burned counter is written", "a swap whose protocol fee amount is 0 while its burn fee amount is > 0 (protocol share 0, or a tiny swap with burn share > protocol share)"),
 "C08-r7": ("whale-lair", "whale-lair", "helpers.rs validate_funds: checks that both the attached coin and the stated asset are whitelisted but no longer that they are the same denom", "Bond stating one bonding denom with a coin of the other bonding denom of equal amount"),
 "C09-r7": ("fee_collector", "fee_distributor", "commands.rs claim: available.checked_sub(reward) became saturating_sub; the InvalidReward check above it is dead code (its Err is discarded), so nothing bounds a lair-reported share by the epoch's remaining available", "shares of an epoch summing to more than 1 (top-up after someone else moved the global index), others claiming first, and a lazy bonder claiming two epochs at once with grace >= 2"),
 "C10-r7": ("fee_collector", "vault", "execute/collect_protocol_fee.rs: collect_protocol_fees returns Ok (nothing sent, ledger kept) while LOAN_COUNTER != 0", "NewEpoch (or CollectFees) sent from inside a flash-loan payload on a vault that has pending protocol fees"),
 "C11-r7": ("frontend-helper", "frontend_helper", "contract.rs Deposit: the ProvideLiquidity sub-message carries coins rebuilt from the stated native assets instead of info.funds; nothing refunds the difference", "Deposit with an attached amount above the stated one, or with an unrelated extra coin"),
 "C12-r7": ("incentive", "incentive", "claim.rs claim: the per-epoch sanity check compares with emission.max(unclaimed) where min is needed, so the 'claimed + reward <= funded' bound never fires", "a claimer whose LAST_CLAIMED_EPOCH >= the flow's start epoch claiming before a staker who has not claimed that far (flow opened in the epoch of a claim, or with a past start), and surplus of the reward asset in the contract (second flow)"),
 "C13-r7": ("incentive", "incentive", "claim.rs claim: the caller's earliest weight-history entry is loaded once before the flow loop instead of per flow; from the second flow on epochs are skipped and paid 0 (the Rewards query is untouched)", "an address's first-ever claim, >= 2 weight-history entries in different epochs, >= 2 flows of which a later-iterated one starts between them"),
 "C14-r7": ("stableswap-3pool", "stableswap-3pool", "queries.rs query_simulation: pending protocol fees are netted off the offer and ask pools only; the third pool enters compute_swap with its fee included", "uncollected protocol fees on the asset that is NOT part of the quoted swap"),
 "C15-r7": ("terraswap-pair", "terraswap-pair", "commands.rs receive_cw20 Swap arm: belief_price = max_spread.and(belief_price) — the belief price is dropped whenever max_spread is omitted", "cw20-offer swap through the Receive hook with belief_price: Some, max_spread: None"),
 "C16-r7": ("fee_collector", "fee_collector", "commands.rs update_config: sender != owner && sender != take_rate_dao_address — the configured take-rate recipient may rewrite the whole configuration", "the owner has named a take-rate recipient and that address sends UpdateConfig"),
 "C17-r7": ("stableswap-3pool", "stableswap-3pool", "commands.rs update_config: the amp-ramp fields are applied as a struct update over ..CONFIG.load(), discarding the feature_toggle / owner / fees written earlier in the same call (same change as seeded/C17-r3, found again)", "one UpdateConfig carrying both a feature_toggle and a valid amp ramp"),
 "C18-r7": ("fee_distributor", "fee_distributor", "commands.rs update_config: grace-period and epoch-config validation hoisted into one match whose arms are exclusive, so validate_epoch_config is skipped whenever a changed grace period comes in the same message", "one UpdateConfig raising the grace period and setting an epoch duration below one day"),
 "C19-r7": ("vault_factory", "vault_factory", "state.rs read_vaults: the 'append a 1 byte, exclusive bound' cursor replaced by an inclusive bound plus an unconditional skip(1)", "a cursor that is not a registered key at query time: the cursor's vault removed between two pages, or a cursor for an asset that never had a vault"),
 "C20-r7": ("epoch-manager", "epoch-manager", "commands.rs create_epoch: hook sub-messages are built only when the new epoch is still live at block time; a catch-up creation notifies nobody", ">= 1 hook and CreateEpoch succeeding two or more durations late"),
}
def main():
    for sid, (pkg, crate, what, needs) in INFO.items():
        d = f"/verif/seeded/{sid}"
        if not os.path.isdir(d): continue
        pid, rnd = sid.split("-")
        conf = open(f"{d}/.confirm.log").read() if os.path.exists(f"{d}/.confirm.log") else ""
        run = open(f"{d}/.run.log").read() if os.path.exists(f"{d}/.run.log") else ""
        extra = OVERRIDE.get(sid, {})
        caught = {}
        for m in re.finditer(r"VIOLATION property=(C\d\d) .*\n\s+check=(\S+) reason=(.*)", run):
            caught.setdefault(m.group(1), f"{m.group(2)}: {m.group(3)[:300]}")
        caught.update(extra.get("caught_by", {}))
        silent = [m.group(1) for m in re.finditer(r"^OK property=(C\d\d) tier", run, re.M) if m.group(1) not in caught]
        s1 = re.search(r"step1 .*: (\d+) (\d+)", conf); s2 = re.search(r"step2 .*: (\d+) (\d+)", conf); s3 = re.search(r"step3 .*: (\d+) (\d+)", conf)
        meta = {
          "property": pid, "round": int(rnd[1:]), "crate": crate, "what": what, "needs_to_manifest": needs,
          "confirmed_in_scratch_worktree": {
            "cmd": f"tools/confirm_seed.sh /verif/seeded/{sid} {pkg}",
            "demo_on_unchanged_tree": f"{s1.group(1)} passed, {s1.group(2)} failed" if s1 else "n/a",
            "demo_with_change": f"{s2.group(1)} passed, {s2.group(2)} failed (only the demonstration tests fail)" if s2 else "n/a",
            "change_alone_workspace": f"{s3.group(1)} passed, {s3.group(2)} failed" if s3 else "n/a",
          },
          "checks_run": {"cmd": f"tools/run_seed.sh /verif/seeded/{sid}/patch.diff {pid}", "caught_by": caught, "run_but_silent": silent if not extra.get("strengthened") else []},
          "origin": ROUNDS[rnd],
        }
        if extra.get("strengthened"): meta["missed_at_first"] = extra["strengthened"]
        json.dump(meta, open(f"{d}/meta.json", "w"), indent=1)
        print(sid, "caught" if caught else "MISSED", list(caught))
OVERRIDE = {}
if os.path.exists("/verif/tools/r7_override.json"): OVERRIDE = json.load(open("/verif/tools/r7_override.json"))
if os.path.exists("/verif/tools/r8_info.json"):
    for k, v in json.load(open("/verif/tools/r8_info.json")).items(): INFO[k] = tuple(v)
main()
