#!/bin/bash
# tools/refresh_quick_evidence.sh — re-runs the quick check of every property whose evidence file is not a
# quick-tier / seed-0 run (thorough sweeps, seed sweeps and seeded-change runs overwrite the files).
cd /verif
for f in evidence/C*.json; do
  id=$(basename "$f" .json)
  ok=$(python3 -c "import json;d=json.load(open('$f'));print(1 if d['tier']=='quick' and d['seed']==0 and d.get('violations',0)==0 else 0)")
  [ "$ok" = 1 ] || { ./check "$id" 2>/dev/null | tail -n 1; }
done
