#!/bin/bash
# tools/run_seed.sh <patch.diff> <ID> [<ID> ...]  — applies a seeded change to /repo, runs the quick
# checks of the given properties, and undoes it straight afterwards.
P="$1"; shift
# evidence of runs against a changed tree goes to a scratch directory, never into /verif/evidence
export WWCHECK_EVIDENCE_DIR=$(mktemp -d /tmp/seed_evidence.XXXXXX)
git -C /repo apply "$P" || { echo "patch does not apply"; exit 3; }
for id in "$@"; do
  echo "--- $id"; (cd /verif && ./check "$id" 2>&1 | grep -E "^(VIOLATION|OK|INCONCLUSIVE|  check=)" | cut -c1-420)
done
git -C /repo checkout -- .
git -C /repo status --short | head -3
# leave the harness binary built from the restored tree
(cd /verif && ./check --build-only >/dev/null 2>&1)
rm -rf "$WWCHECK_EVIDENCE_DIR"
