#!/bin/bash
# tools/r7_process.sh <ID> <cargo-package> <suffix> <src-out-dir> — takes a sub-agent's deliverables, stores them as
# seeded/<ID>-<suffix>/, confirms them in a scratch worktree, runs the property's quick check with the change applied.
ID="$1"; PKG="$2"; SUF="$3"; SRC="$4"; shift 4
SD=/verif/seeded/$ID-$SUF
mkdir -p "$SD"; cp "$SRC/patch.diff" "$SRC/demo.diff" "$SRC/README.md" "$SD/" || exit 3
/verif/tools/confirm_seed.sh "$SD" "$PKG" 2>&1 | tee "$SD/.confirm.log"
/verif/tools/run_seed.sh "$SD/patch.diff" "$ID" "$@" 2>&1 | tee "$SD/.run.log"
