#!/bin/bash
# tools/mutant.sh <ID> <repo-relative-file> <python-replace-old> <python-replace-new>
# Applies one textual mutation to /repo (must match exactly once), runs ./check ID (quick),
# prints the verdict line, and restores the file. Sensitivity testing only; nothing is committed.
ID="$1"; F="/repo/$2"; OLD="$3"; NEW="$4"
python3 - "$F" "$OLD" "$NEW" <<'PY' || { echo "MUTANT-NOT-APPLIED"; exit 3; }
import sys
f,old,new=sys.argv[1:4]
s=open(f).read()
if s.count(old)!=1:
    print("pattern count",s.count(old)); sys.exit(1)
open(f,'w').write(s.replace(old,new))
PY
cd /verif && ./check "$ID" ${EXTRA:-} 2>&1 | grep -E "^(VIOLATION|OK|INCONCLUSIVE|  check=)" | cut -c1-400
git -C /repo checkout -- "$2"
# leave the harness binary built from the restored tree
(cd /verif && ./check --build-only >/dev/null 2>&1)
