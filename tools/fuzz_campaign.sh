#!/bin/bash
# tools/fuzz_campaign.sh <seconds-per-check> [jobs] — builds the libFuzzer target once from /repo's
# current tree, copies it aside, and runs it on every stateful check in turn; one result line each.
SECS="${1:-600}"; JOBS="${2:-8}"
cd /verif/harness || exit 2
RUSTFLAGS="--cfg wwcore_verif -Awarnings" CARGO_NET_OFFLINE=true cargo +nightly fuzz build --sanitizer none >/dev/null 2>&1 || { echo "INCONCLUSIVE fuzz build failed"; exit 2; }
cp /verif/target/x86_64-unknown-linux-gnu/release/strategy_stream /tmp/strategy_stream_campaign
export WWFUZZ_BIN=/tmp/strategy_stream_campaign
echo "campaign: repo $(git -C /repo rev-parse --short HEAD), verif $(git -C /verif rev-parse --short HEAD), ${SECS}s x ${JOBS} jobs per check, $(date -u +%FT%TZ)"
while read -r id check; do
  [ -z "$id" ] && continue
  r=$(/verif/tools/fuzz.sh "$id" "$check" "$SECS" "$JOBS" 2>&1)
  cov=$(echo "$r" | grep -E "^#[0-9]+: cov:" | tail -n 1 | sed -E 's/^#([0-9]+): cov: ([0-9]+) ft: ([0-9]+) corp: ([0-9]+).*/execs=\1 cov=\2 ft=\3 corpus=\4/')
  verdict=$(echo "$r" | grep -E "^(FUZZ-OK|VIOLATION|INCONCLUSIVE|  check=)" | tr '\n' ' ' | cut -c1-500)
  echo "$id $check: $cov | $verdict"
done <<'LIST'
C13 weights_and_claims_history
C12 flow_funding_history
C11 lp_custody_history
C10 fee_pipeline_new_epoch
C09 distributor_epoch_ledgers
C08 bonding_history
C05 vault_share_price_history
C06 flash_loan_adversary_random
C07 pair_fee_ledger
C07 trio_fee_ledger
C07 vault_fee_ledger
C01 cp_pool_history
C03 stableswap_pool_history
C04 trio_history
C14 pair_simulation_equals_execution
C14 trio_simulation_equals_execution
C14 router_simulation_equals_execution
C15 live_swap_spread_limits
C15 live_deposit_slippage_tolerance
C15 router_minimum_receive
C18 config_bounds_history
C19 registry_history
C20 epoch_clock_schedules
C17 vault_pause_switches
C16 forged_callback_during_loan
LIST
echo "campaign finished $(date -u +%FT%TZ)"
