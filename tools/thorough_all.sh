#!/bin/bash
# tools/thorough_all.sh [ids...] — runs the thorough tier of the given (default: all) properties one
# after the other and prints one verdict line each; evidence files are rewritten with thorough-tier data.
cd /verif
IDS=("$@"); [ ${#IDS[@]} -eq 0 ] && IDS=(C01 C02 C03 C04 C05 C06 C07 C08 C09 C10 C11 C12 C13 C14 C15 C16 C17 C18 C19 C20)
for id in "${IDS[@]}"; do
  /usr/bin/time -f "wall=%es maxrss=%MkB" ./check "$id" --tier thorough 2>&1 | grep -E "^(OK|VIOLATION|INCONCLUSIVE|  check=|wall=)" | cut -c1-500
done
