#!/usr/bin/env python3
"""Regenerates /verif/MANIFEST.json from the table below (single source of truth)."""
import json, subprocess

HOOK_COMMITS = ["5b0156d", "fc18a19"]

# id -> (level text, level note, technique, design_ref)
CLAIMED = {
    "C01": (
        "Model-based stateful property testing: generated configurations (asset kinds, decimals, fee triples) and operation histories by four users are executed against the real pair created through the real factory under cw-multi-test; after every step an exact (1024-bit) invariant check runs: Pool query succeeds, balance >= reserve + owed fees, geometric mean per LP share not lower, withdrawals <= pro-rata, deposit-then-withdraw <= deposited (pools with LPs), minimum-liquidity stake locked, rejected steps leave the whole world snapshot unchanged. Exploration: tens of thousands of histories per quick run, shrunk to minimal operation sequences on failure. A directed operation sizes a swap by bisection over the Simulation query so that the pending protocol fee lands exactly on the collection threshold (999/1000/1001) and is followed by a separately judged collection; deposits list the assets in either order.",
        "Trusts cw-multi-test 0.16.5 (bank, wasm keeper, atomic revert) as the chain and the repository's cw20. Token-factory LP builds are not exercised. A contract panic counts as a rejected transaction.",
        "stateful / model-based property testing (proptest histories + per-step invariant oracle)",
        "DESIGN.md §4 C01",
    ),
    "C03": (
        "Three generated-input searches against an independent exact reference (integer bisection on the stableswap invariant polynomial over 18-decimal-normalised reserves, 1024-bit): (a) compute_swap's StableSwap arm through the hook over amp x six decimal settings x reserves (imbalance up to 2^40) x offers: ask reserve after >= curve point y* minus 6 slope-scaled base units, gross <= reserve, fee floors, gross monotone in the offer; (b) the LP-mint function over balanced / one-sided / arbitrary deposits: invariant per LP must not fall, up to 6 base units of dust on each reserve; (c) histories on a live stableswap pair (real factory, native and cw20): the same bounds on real reserve deltas, withdrawals <= pro-rata, deposit-then-withdraw keeps D* per LP. Exploration; the known raw-decimals mint defect is matched by a model of the defect and excluded so the search continues behind it.",
        "Dust constant K=6 (swap clause: granted by the property text; deposit clause: 6 base units on each reserve = the integer granularity of the pool's own D) calibrated on the unchanged tree, measured maxima written to the evidence. Only successful computations judged. Histories leave the domain (< 1 whole token of an asset) are cut there.",
        "property-based testing (proptest) against an exact bisection reference; stateful histories on the live pair",
        "DESIGN.md §4 C03",
    ),
    "C04": (
        "Four generated-input searches: (a) StableSwap::swap_to / helpers::compute_swap through the hook over amp x reserves up to 2^110 (imbalance 2^30, all six directions) x offers: exact D* (bisection, 1024-bit, pool's own base units) must not fall, there-and-back with zero fees must not profit, return+fees == curve output with floor fee split; (b) the mint function: exact D* per LP must not fall; (c) compute_amp_factor vs the linear-interpolation model on/inside/after ramps; (d) histories on a live trio (factory-created, native and cw20 assets): solvency, exact D* per LP per operation at the amp of the executing block, only offer/ask reserves move, there-and-back, ramp acceptance in both directions against the three documented bounds, stored ramp parameters equal the model, the pool's simulation equals the hooked curve at the model's effective amp. Exploration. The bounded rounding losses of the truncated Newton iterations are listed known findings with a magnitude bound in their signature (<= 2 base units per reserve and operation); anything larger is a violation.",
        "The hooked curve is used as the measuring instrument for the live pool's effective amp; the reference D* shares no code with the contract. Reference floor of 1 unit of D allowed.",
        "property-based testing against an exact bisection reference and a linear ramp model; stateful histories on the live trio",
        "DESIGN.md §4 C04",
    ),
    "C05": (
        "Model-based stateful property testing on the real vault (created through the real vault factory, native or cw20 asset) with four users and a programmable borrower contract: generated histories of deposits, withdrawals, deposit-then-withdraw, flash loans with generated callback programs (incl. re-entrant and nested), router loans, collections, fee changes and donations; after every step the assets backing one share (balance - pending fees)/supply are compared exactly, deposits mint <= pro-rata, withdrawals pay <= pro-rata, the first deposit's 1000 shares stay locked in the vault, rejected steps leave the world snapshot unchanged. Exploration with shrinking to minimal histories. The nested-loan fee recovery is a listed known finding whose signature bounds the shortfall. The alphabet includes the adversarial direct Withdraw {} message with a native coin attached (nobody is paid without giving up shares) and a borrower step that forges the vault's internal callback.",
        "Trusts cw-multi-test 0.16.5 as the chain. Token-factory LP not exercised. A contract panic counts as a rejected transaction.",
        "stateful / model-based property testing (proptest histories + per-step invariant oracle)",
        "DESIGN.md §4 C05",
    ),
    "C06": (
        "Adversary enumeration plus random search: the borrower is a harness contract that executes a generated program in the flash-loan callback (repay exact / exact-1 / over / principal / fraction, deposit as plain or error-swallowing sub-message, withdraw, collect, nested loan, fail). (a) the alphabet enumerated to depth 2 with three amount classes (several thousand programs) x four loan-size classes x native/cw20 x fee triples; (b) random programs to depth 3 inside longer histories, direct and through the vault router (incl. a second router loan in the payload). Oracle per transaction: rejected => full world snapshot unchanged; accepted => loan counter 0, ledger grew by exactly the floor fees of every completed loan, burn fees left circulation, no shares minted during a loan, balance up by >= protocol+flash fees, exact quote suffices and one unit less never, router keeps nothing and pays exactly the quote. A third check drives the vault router over three vaults at once: 1-3 different assets per transaction (named in one message, which this router refuses, or chained through a hand-made NextLoan in the payload, which it settles together), proceeds per asset on / around that loan's fees; accepted transactions are judged per asset (vault got exactly the quote, router holds nothing, initiator got proceeds - fees), rejected ones must leave the world unchanged.",
        "Completed loans are read off the program (all messages of a successful transaction ran); fees are recomputed by the harness. The nested-loan fee recovery is a listed known finding (signature bounds the shortfall by the nested loans' fees).",
        "fault/adversary enumeration + property-based testing of callback programs against a transaction-level oracle",
        "DESIGN.md §4 C06",
    ),
    "C07": (
        "Model-ledger stateful testing on a constant-product pair, a two-asset stableswap pair, a trio and a vault: histories of swaps / loans / collections (by anyone, repeated, with pending amounts zero, <= 1000 and above) / liquidity changes / fee changes; every swap's reported amounts are treated as claims and validated against independently observed balance, circulating-supply and ledger deltas; pending == charged - transferred after every step; a collection moves exactly the pending amounts to the configured collector and nobody else and leaves reserves unchanged; all-time counters equal the sums of charges. The pool worlds use native denoms of which one is a proper prefix of another (uaaa / uaaab), so ledger look-ups by identifier are exercised on prefix-related assets; after every step the ledgers are also asked in every combination of the queries' optional fields (asset_id None / each asset x all_time None / false / true, BurnedFees with and without a filter) and the asked asset's entry must equal the unfiltered answer's.",
        "Closed-world supply for native denoms (sum over all accounts and contracts created by the harness). cw-multi-test as the chain.",
        "stateful property testing with an explicit reference ledger",
        "DESIGN.md §4 C07",
    ),
    "C08": (
        "Model-based stateful property testing of the real whale_lair wired to the real fee distributor and collector (so its claim-first / epoch-is-current preconditions are the real ones): generated histories of bond (with exact, mismatching, wrong-denom, extra — a second coin that is the fee denom, the other bonding denom or the unlisted denom — and missing funds; whitelisted, non-whitelisted and cw20 assets; the two bonding denoms and the unlisted one are prefixes of one another: amp / ampwhale / ampwhalex), unbond, two unbonds in one block, withdraw, time advances on and around the unbonding period (0, 1 ns, period-1, period, period+1, ...), epoch creation and claims by four users; reference model = bonded[user][denom] + multiset of unbonding records. After every step the contract balance per denom equals bonded + pending, TotalBonded equals the sum of users, Bonded/Unbonding/Withdrawable queries equal the model, a withdrawal pays exactly the matured records to the caller only, a non-whitelisted or cw20 asset is never accepted, a bond accepted with irregular funds is judged by the balance equation with the amount the contract itself credits, rejected steps leave the world unchanged. One history in fifteen is a directed shape: one address piles up 31-37 unbonding records of one denom in different blocks (more than one page of the contract's listings), lets them mature and withdraws repeatedly.",
        "Block time is owned by the harness. Withdraw's page limit of 30 records is modelled. cw-multi-test as the chain.",
        "stateful / model-based property testing with time-schedule generation",
        "DESIGN.md §4 C08",
    ),
    "C09": (
        "Model-based stateful property testing of the real fee distributor with the real lair and collector: generated histories of epoch creations (on time, 1 ns / hours / a day late), arbitrary fee inflows, claims by single users and by everybody in rotated order, bonds, unbonds, withdrawals, grace-period increases (grace 1..5) and switches of the distribution asset by the owner (to a second bank denom and back; epochs then hold two assets). After every step every Epoch{id} is read back and checked against the ledger rules: claimed + available == total inside the grace window, the epoch leaving the window is rolled into the new one exactly once (new.total == forwarded + remainder) and then frozen, distributor balance >= sum of available, each claim's payout == sum of claimed increases == sum of available decreases, an address is paid at most once per epoch and never for an epoch that started before its current bonding stint, ids/start times gap-free.",
        "The ledger rules are judged on the first distribution asset (uwhale) throughout; the second asset rides along. Epoch configuration fixed within a history. Inflows are plain transfers to the collector (pipeline = C10). Block time owned by the harness.",
        "stateful / model-based property testing with an epoch-ledger oracle",
        "DESIGN.md §4 C09",
    ),
    "C20": (
        "Schedule generation against a reference clock: the epoch manager (0..3 logging hook receivers, hooks added/removed mid-history) and the fee distributor are driven by generated block-time schedules (before genesis, exactly at, 1 ns before/after each boundary of either clock, several durations late with jitter) interleaved with creation attempts by arbitrary callers, repeated within a block; durations 1..3 days. Every attempt's acceptance must equal the reference clock's decision; after every step CurrentEpoch of both contracts equals the model, each registered hook logged exactly one call carrying the new epoch per accepted creation, and a rejected attempt leaves the world snapshot unchanged. The distributor's owner rewrites the epoch configuration (duration, genesis) and the manager's admin the manager's duration mid-history; the reference clock follows the configuration read back from the contract. One case in five first offers the manager an instantiate message whose start epoch does not start at the configured genesis (skew +-1 ns .. +-20 days): refused on this tree; if taken, the first epoch must start at the genesis the contract reports.",
        "Block time owned by the harness. Hook receivers are harness contracts. The distributor runs with its real collector (empty factories).",
        "schedule generation (property-based) against a reference clock model",
        "DESIGN.md §4 C20",
    ),
    "C10": (
        "Stateful property testing with injected faults on the full hub (3 pairs incl. a cw20 leg, 3 vaults, pool router with generated 1- and 2-hop routes, collector, distributor, lair): generated histories create fee states (zero, <= 1000, above) in pairs through real swaps (incl. swaps sized by bisection over the Simulation query so that a pending fee lands exactly on 999 / 1000 / 1001) and in vaults through router flash loans sized so that the vault's protocol fee is 1 / 999 / 1000 / 1001 / a few hundred base units (or a fraction of the vault), change the take rate over {inactive, 0, 1e-18, 0.1, ~1, random} with/without a DAO address, add/remove routes, disable swaps on a pair (simulation passes, execution fails), de-register or drain pairs, donate to the collector, call ForwardFees from non-distributors, and create epochs. Each NewEpoch is judged against a conservation oracle: failure => whole world snapshot unchanged; success => pending fees of registered pairs collected (sub-threshold entries may stay) and every vault's pending fee 0, every non-distribution asset in the collector either untouched or fully swapped, router empty, DAO delta == floor(rate * forwarded balance) iff active and recorded in TakeRateHistory, distributor inflow == new epoch total - rolled-over remainder, collector's distribution-asset balance 0. A successful NewEpoch must not leave behind an asset that is above the aggregation threshold, listed by a registered pool or vault, routed and simulable (the swap step must then have been attempted, and a failed step undoes everything). NewEpoch is sent as a top-level message or from inside a router flash loan on one of the vaults (the vault may then owe exactly the enclosing loan's own protocol fee). One hub in eight carries eleven more registered pairs and eleven more registered vaults whose asset names sort first, so that the hub has more children than one default page of the factories' listings; one in twenty-five carries twenty-eight, i.e. 31 children per factory, one more than the page of 30 that ForwardFees asks for — the children beyond that page keep their fees on this tree (listed known finding forward-fees-single-page, matched only for a registered child outside the first 30 listing entries whose pending entry is unchanged) and the rest of the oracle goes on.",
        "Protocol fees charged by the aggregation's own swaps are read from swap events (claims validated by C07). Trios are not collected by ForwardFees and are not asserted. cw-multi-test as the chain.",
        "stateful property testing with fault injection and a conservation oracle",
        "DESIGN.md §4 C10",
    ),
    "C11": (
        "Model-based stateful property testing of the real incentive contract over a cw20 LP, a native-denom LP and the cw20 LP of a real pair (with the real frontend helper): generated histories of opening / expanding positions (declared amount vs exact, smaller, larger or missing funds / allowance; allowed durations and one just outside each bound; optional receivers), closing, withdrawing, helper deposits (user -> helper -> pair -> incentive), flows funded in the LP asset itself, claims, snapshots and epoch advances by four users. Reference model open[user][duration] / closed[user] / LP-flow funds from observed transfers. After every step the contract's LP balance equals the model total exactly, the Positions query equals the model for every user, positions only change by what was actually received, withdrawals pay exactly the caller's closed positions to the caller only, and the helper's LP and asset balances are unchanged by a helper deposit. Helper deposits also attach funds beyond the stated amounts (one unit, double, an unrelated coin); the helper's holdings are compared over the LP, both pool assets and every bank denom. One history in fifteen is a directed shape: one address opens and closes the same duration 21-29 times without withdrawing, waits four epochs and withdraws twice.",
        "Native LP = plain bank denom (token-factory builds not exercised). Epoch clock = the repository's fee-distributor mock.",
        "stateful / model-based property testing",
        "DESIGN.md §4 C11",
    ),
    "C12": (
        "Model-ledger stateful testing of the real incentive contract (created through the real incentive factory; cw20 or native LP; reward assets native and cw20; creation fee in another native denom, another cw20 or the reward asset itself): generated histories of flow openings with exact / fee-only / short / over-paid / missing funds and default or explicit epochs (incl. > 180), expansions by creator or others, closes by creator / factory owner / stranger, positions, snapshots, epoch advances and claims. The reference ledger outstanding[flow] is built only from transfers the harness observes and must equal funded - claimed read from the contract's raw storage after every step; the fee must reach the collector; balances cover the sum of outstanding; closing pays exactly outstanding to the creator and is refused to strangers. Flows may start in the past; new epochs come with or without a snapshot; one case in ten starts with the directed 'gap in the emission record' shape. Flows may carry a unique label and be expanded / closed by label instead of id.",
        "Flows are read from raw storage because the Flow/Flows queries trim histories to 100 epochs. Epoch clock = the repository's fee-distributor mock. Reward assets distinct from the LP asset here (LP-asset flows are in C11).",
        "stateful property testing with an explicit reference ledger built from observed transfers",
        "DESIGN.md §4 C12",
    ),
    "C13": (
        "Two searches: (a) calculate_weight through the hook over the whole allowed rectangle (amount 1..2^100, duration 86400..31556926) with neighbours in both directions: weight >= amount, monotone in amount and duration, defined inside and rejected outside the range; (b) model-based histories on the real incentive contract with four users, amounts up to 2^100, four durations, up to three concurrent native/cw20 flows with expansions, permissionless snapshots placed anywhere in the epoch (before, between, after position changes, or missing) and >= 20 epochs: after every step raw GLOBAL_WEIGHT == sum of raw ADDRESS_WEIGHT, the current epoch's address weights reported by the share query sum to <= the snapshot, a second claim in an epoch pays nothing, a claim's payout per flow is bounded by the flow's emissions over the claimed epochs (recomputed from raw flow state), and a successful claim pays exactly what the Rewards query returned immediately before.",
        "Raw storage is read for the weight items and flows; emissions recomputed with the documented formula. Epoch clock = the repository's fee-distributor mock.",
        "property-based testing of the pure weight function + stateful/model-based histories with snapshot-placement schedules",
        "DESIGN.md §4 C13",
    ),
    "C14": (
        "Differential stateful testing (query vs execution in the same state): pools and vaults are brought into arbitrary reachable states by generated histories (liquidity changes, donations, pending protocol fees, fee changes, amp ramps in progress), then probed: Simulation followed by the identical swap in the same block on constant-product pairs, two-asset stableswap pairs and the trio (all six directions, native and cw20 offers, optional receivers); SimulateSwapOperations followed by ExecuteSwapOperations over 1..3-hop routes of a three-pair chain; vault Share{n} followed by the withdrawal of n shares. Whenever execution succeeds the quote must have succeeded and be equal in every component; executed amounts are taken from swap attributes that are themselves checked against balance, circulating-supply and fee-ledger deltas. Routes may also revisit a pair (A->B->A[->B]); the mismatch this exposes is the listed finding router-simulation-revisited-pair.",
        "Only 'execution succeeded => quote equal' is judged. Router equality only when the router held none of the route's assets beforehand.",
        "differential property-based testing over generated histories (quote vs execution)",
        "DESIGN.md §4 C14",
    ),
    "C15": (
        "Four searches: (a) assert_max_spread (package) and (b) both deposit slippage assertions (pair constant-product + stableswap, trio; through the hook) with generated inputs placed on, one and two units around, and far from every threshold, for max_spread / tolerance in {None, 0, 1% -/+ 1e-18, 50% -/+ 1e-18, 1, >1, random}, judged by an exact-rational three-way oracle (forced accept / forced reject / either inside the 18-decimal granularity band); (c) live constant-product and stableswap pairs: every limited swap that succeeds must satisfy the realised bound computed from its actual amounts, and a limited swap that is rejected is re-executed without the limit in the same state - if that lands strictly inside the bound it is a violation; (d) router routes (1..3 hops, receivers with pre-existing balances) with minimum_receive = simulated amount + {-3..3, far}: success => receiver delta >= minimum, delivery >= minimum => not rejected (checked by re-executing without the minimum). (e) live deposits into constant-product pairs with the first asset's amount placed on / around the exact threshold of the ratio test and the assets listed in the pool's or the opposite order, judged by the same three-way reference from the reported reserves. (f) the same live spread rule on the three-asset pool in all six directions. (g) live deposits with a tolerance into stableswap pairs and the three-asset pool, judged from the LP actually minted; (h) the spread figure reported by the constant-product computation against the independently computed price impact. In the live stableswap / 3-pool deposit check half of the deposits are preceded by a swap, so that protocol fees are pending when the tolerance is judged.",
        "Band = Decimal floors at 18 places; belief-price rule judged only where offer/p and 1/p fit the contract's types. Package-level mutations are visible because the harness patches white-whale-std to /repo/packages.",
        "property-based testing with a three-way exact-rational oracle on dense boundary inputs + differential live checks",
        "DESIGN.md §4 C15",
    ),
    "C16": (
        "Exhaustive matrix enumeration with random payloads: a hand-written table classifies every ExecuteMsg variant of 14 contracts (verified at start-up against the variant names derived from the message schemas, so a new variant cannot be silently missing); every privileged or internal variant x seventeen caller roles (configured owner, hub owner account, prospective new owner, user, sibling contract, the contract itself, pool factory, vault factory, fee distributor, a registered vault, the fee collector's configured take-rate recipient, the creator of an incentive flow, the bonding contract, the pool router, the vault router, the incentive factory, an incentive contract) x {before, after an ownership transfer to a new owner's account, after a transfer to the contract's own address} is executed against a freshly built full hub as the regression corpus (760 combinations), and random payload details are drawn on top. Unauthorised caller => rejected and full world snapshot (all storage + all balances) unchanged; authorised caller with the canonical payload => accepted; after a transfer the previous owner loses and the new owner gains the rights. A second search runs flash loans whose borrower contract forges the vault's internal Callback(AfterTrade) from inside its own (possibly nested) loan with generated arguments; the borrower's reply handler reports the vault's verdict, which must be 'rejected'. Payloads are caller-aware (NextLoan source_vault in {vault, caller, other} x asset in {registered, unregistered}). Unauthorised attempts also carry reshaped payloads (optional fields left out down to the empty update, owner naming the caller).",
        "cw20 token and the test-only distributor mock are outside the table. Router route management is judged with a wasm admin configured. AssertMinimumReceive is judged for effect-freeness. Migrations: only rejection of unauthorised callers.",
        "fault/role enumeration (exhaustive matrix) + property-based payloads, snapshot-diff oracle",
        "DESIGN.md §4 C16",
    ),
    "C17": (
        "Exhaustive configuration enumeration with a differential twin: for the constant-product pair, the stableswap pair, the trio and the vault, all 2^3 switch combinations (set through the factories) x every entry path (ProvideLiquidity, native Swap, cw20 Send{Swap}, cw20 Send{WithdrawLiquidity}, pool-router hop; vault Deposit, cw20 Send{Withdraw}, FlashLoan direct and through the vault router; frontend-helper deposit) x {empty, funded} are executed as the regression corpus (240 + 128 + 8 cases) and random amounts / asset kinds are drawn on top. Each case builds the world twice (identical builder, twin has every switch on): a switched-off operation must be rejected with the snapshot unchanged, every other operation must have the same outcome and the same balance / LP-supply deltas as the twin, re-enabling restores twin equality, fresh pools and vaults report all switches on. Vault switch states are reached through sequences of partial UpdateConfig messages. A second binary (harness_tf) compiles pair and 3-pool with the cargo feature osmosis_token_factory and checks the entry path that only exists there — the direct WithdrawLiquidity message with the LP denom as funds — plus deposit and swap, over cosmwasm_std mocks, for all 8 switch combinations with the same differential rule.",
        "Twin worlds are deterministic copies; token-factory LP paths not exercised.",
        "exhaustive configuration x path enumeration with a differential (twin-world) oracle",
        "DESIGN.md §4 C17",
    ),
    "C18": (
        "Stateful property testing of every write path of every bounded parameter: generated sequences of instantiations and updates (factory create, factory-mediated update, direct instantiation of the child code; distributor / lair / collector instantiate and UpdateConfig; trio ramps with block advances) with values placed on, one 18-decimal atomic inside and outside each bound (single share and fee sums at 1 -/+ 1e-18, grace 0/1/30/31, duration one day -/+ 1 ns, amp 0/1/10^6/10^6+1, growth and take rate 1 -/+ 1e-18, 0..3 bonding assets incl. a cw20); after every step the Config (and PairInfo) of every contract created so far is read back and checked against the documented bounds, including 'grace never decreases'; a rejected write must leave the world snapshot unchanged. A vault over a token-factory asset can only exist in the token-factory build: a second part (harness_tf, vault compiled with the cargo feature osmosis_token_factory, over cosmwasm_std mocks) instantiates such vaults and plain ones with token-factory or cw20 LP and sends up to three UpdateConfig messages, fee triples on / around every bound, reading Config back after every write: each share and the sum below 100 %, no burn fee on a token-factory asset, a rejected update leaves the fees unchanged.",
        "Token-factory vault assets are recognised by the factory/ prefix; in the default build such a vault cannot be created at all (its cw20 LP symbol is invalid), so that clause is exercised only as 'cannot exist'.",
        "stateful property testing with boundary-value generators and a read-back invariant",
        "DESIGN.md §4 C18",
    ),
    "C19": (
        "Model-based stateful property testing of the three factories and the swap router over a universe of eleven assets (seven native denoms with registered decimals, three of them forming a prefix chain, and four cw20 tokens with different decimals): generated histories of create / remove / re-create of pairs, trios, vaults and incentive contracts with the assets in generated orders, adding / removing / executing 1..3-hop routes (free and built along registered pairs), and paginated listings with limits in 1..31 followed to the end. Reference model = sets of unordered asset sets. Duplicates in any order must be rejected and new sets accepted; each registry entry (queried in every asset order) must equal what the child itself reports; removed entries disappear and can be created again; concatenated pages equal the model set exactly once each; a route is stored only if every hop is a registered pair, and executing a route through a de-registered pair fails. Directed shapes: a registered trio attempted again in any asset order, removed and re-created in another; paged walks of pairs / trios / vaults during which the entry serving as the cursor is removed between two pages (every entry registered when the walk began must still be listed exactly once).",
        "Asset names chosen so that no two asset sets concatenate to the same key (key collisions are outside the statement); the universe includes native denoms that are proper prefixes of one another. Incentive factory has no remove message. Routes are keyed by asset labels; the universe has distinct labels.",
        "stateful / model-based property testing with a set-valued reference model",
        "DESIGN.md §4 C19",
    ),
    "C02": (
        "Generated-input search (proptest, 16 deterministic shards) over the whole documented domain [1,2^128)^3 x valid fee triples x decimals, judged against an independent exact 1024-bit reference: gross floor, fee floors, strict bound, totality inside the 128-bit domain, there-and-back with the case's fees and with zero fees, gross monotone in the offer. Exploration, not proof: millions of cases per quick run, hundreds of millions thorough, with boundary constants and extreme-ratio shapes weighted in.",
        "Trusts refmath.rs (bnum integers, self-tested at start-up) and that commands::swap / queries::query_simulation call the hooked compute_swap (cross-checked by C14). A panic is an abort.",
        "property-based testing (proptest) against an exact big-integer reference + metamorphic round-trip",
        "DESIGN.md §4 C02",
    ),
}

ALL = [json.loads(l)["id"] for l in open("/verif/properties.jsonl")]

def main():
    checks = []
    for pid in ALL:
        if pid not in CLAIMED:
            continue
        text, note, tech, ref = CLAIMED[pid]
        checks.append({
            "property_id": pid,
            "quick_cmd": f"./check {pid} --tier quick",
            "thorough_cmd": f"./check {pid} --tier thorough",
            "evidence_file": f"/verif/evidence/{pid}.json",
            "replay_cmd_template": f"./check {pid} --replay {{path}}",
            "engine": "wwcheck",
            "level_claimed": {"category": "exploration", "text": text, "design_ref": ref},
            "level_note": note,
            "technique": tech,
        })
    na = [{"property_id": pid, "reason": "check not built yet in this revision of /verif (work in progress; the technique applies, see DESIGN.md §4)"}
          for pid in ALL if pid not in CLAIMED]
    m = {
        "version": 1,
        "setup_cmd": "./check --build-only",
        "hooks": {
            "guard": "cfg(wwcore_verif)",
            "enable": "RUSTFLAGS=\"--cfg wwcore_verif\" (set in /verif/harness/.cargo/config.toml; the harness links the contract crates by path from /repo)",
            "baseline_off_cmd": "cd /repo && cargo test --workspace --no-fail-fast --offline",
            "source_commits": HOOK_COMMITS,
            "add_only": True,
        },
        "engines": [{
            "name": "wwcheck",
            "path": "/verif/harness",
            "serves_properties": [c["property_id"] for c in checks],
            "kind_free_text": "Rust binary: proptest strategies + model-based interpreters over the real contracts under cw-multi-test, exact big-integer reference maths, sharded deterministic runners, shrinking, JSON replay files, evidence writer",
        }, {
            "name": "wwcheck_tf",
            "path": "/verif/harness_tf",
            "serves_properties": ["C17", "C18"],
            "kind_free_text": "Rust binary sharing engine.rs with wwcheck; links pair, 3-pool and vault with the cargo feature osmosis_token_factory and drives their entry points over cosmwasm_std::testing mocks; run by ./check after wwcheck for the properties it serves, merging its coverage into the same evidence file",
        }],
        "checks": checks,
        "not_applicable": na,
        "notes": "All checks: exit 0 held / 1 VIOLATION / 2 inconclusive. VERIF_SEED selects the PRNG stream; VERIF_TIER is honoured when --tier is absent. known_findings.json is read-only at run time.",
    }
    json.dump(m, open("/verif/MANIFEST.json", "w"), indent=1)
    print("claimed:", [c["property_id"] for c in checks])

main()
