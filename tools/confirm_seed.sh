#!/bin/bash
# tools/confirm_seed.sh <seed-dir-with-patch.diff+demo.diff> <cargo-package> [demo-test-filter]
# Confirms an independently seeded change in a scratch worktree (never in /repo):
#   1. demo alone on the unchanged tree  -> the package's tests all pass
#   2. demo + change                      -> only demo tests fail
#   3. change alone                       -> the whole workspace baseline passes
set -u
SD="$1"; PKG="$2"; FILTER="${3:-}"
WT=/tmp/confirm_wt; export CARGO_TARGET_DIR=/tmp/confirm_target CARGO_NET_OFFLINE=true
if [ ! -d "$WT" ]; then git -C /repo worktree add --detach "$WT" HEAD >/dev/null 2>&1 || exit 3; fi
cd "$WT" && git checkout -q --detach "$(git -C /repo rev-parse HEAD)" && git checkout -q -- . && git clean -fdq
git apply "$SD/demo.diff" || { echo "CONFIRM demo.diff does not apply"; exit 3; }
R1=$(cargo test --offline -p "$PKG" 2>&1 | grep -E "^test result" | awk '{p+=$4; f+=$6} END {print p" "f}')
echo "CONFIRM step1 demo-on-unchanged-tree passed/failed: $R1"
git apply "$SD/patch.diff" || { echo "CONFIRM patch.diff does not apply"; exit 3; }
OUT=$(cargo test --offline -p "$PKG" 2>&1)
R2=$(echo "$OUT" | grep -E "^test result" | awk '{p+=$4; f+=$6} END {print p" "f}')
echo "CONFIRM step2 demo+change passed/failed: $R2"
echo "$OUT" | grep -E "^test .* FAILED" | head -8
git apply -R "$SD/demo.diff"; git clean -fdq
R3=$(cargo test --workspace --no-fail-fast --offline 2>&1 | grep -E "^test result" | awk '{p+=$4; f+=$6} END {print p" "f}')
echo "CONFIRM step3 change-alone workspace passed/failed: $R3"
git checkout -q -- . ; git clean -fdq
