#!/bin/bash
# tools/fuzz.sh <ID> <check> <seconds> [jobs]   — coverage-guided campaign (libFuzzer via cargo-fuzz,
# nightly toolchain) for one check: the fuzzer's bytes drive the check's own proptest strategy
# (RngAlgorithm::PassThrough) and the check's oracle judges every execution.
# exit 0: nothing found; 1: VIOLATION line printed (replay file written by the target);
# 2: could not build / run (inconclusive).  Corpus and statistics stay under harness/fuzz (git-ignored).
set -u
ID="$1"; CHECK="$2"; SECS="${3:-60}"; JOBS="${4:-8}"
export CARGO_NET_OFFLINE=true
cd /verif/harness || exit 2
BIN=/verif/target/x86_64-unknown-linux-gnu/release/strategy_stream
if [ -n "${WWFUZZ_BIN:-}" ]; then
  BIN="$WWFUZZ_BIN"   # a binary built earlier (campaigns that must not pick up later edits of /repo)
else
  LOG=$(mktemp)
  if ! RUSTFLAGS="--cfg wwcore_verif -Awarnings" cargo +nightly fuzz build --sanitizer none >"$LOG" 2>&1; then
    echo "INCONCLUSIVE fuzz build failed:"; tail -n 30 "$LOG"; rm -f "$LOG"; exit 2
  fi
  rm -f "$LOG"
fi
CORPUS=fuzz/corpus/${ID}_${CHECK}; mkdir -p "$CORPUS" fuzz/stats fuzz/artifacts/${ID}_${CHECK}
# a few deterministic random seed inputs so that the first generation already has long streams
python3 - "$CORPUS" "${VERIF_SEED:-0}" <<'PY'
import sys,random,os
d,seed=sys.argv[1],int(sys.argv[2])
r=random.Random(seed)
for i,n in enumerate([256,1024,4096,8192]):
    p=os.path.join(d,f"seed_{seed}_{i}")
    if not os.path.exists(p):
        open(p,"wb").write(bytes(r.getrandbits(8) for _ in range(n)))
PY
OUT=$(mktemp)
FOUND=/verif/replays/found/fuzz_${ID}_${CHECK}_$$; mkdir -p "$FOUND"
WWCHECK_FOUND_DIR=$FOUND WWFUZZ_PROPERTY=$ID WWFUZZ_CHECK=$CHECK WWFUZZ_STATS=/verif/harness/fuzz/stats/${ID}_${CHECK}.json \
  "$BIN" "$CORPUS" -fork="$JOBS" -max_total_time="$SECS" -max_len=16384 -len_control=0 \
  -seed="${VERIF_SEED:-0}" -artifact_prefix=fuzz/artifacts/${ID}_${CHECK}/ -ignore_crashes=0 -print_final_stats=1 >"$OUT" 2>&1
rc=$?
grep -E "^#[0-9]+: cov:|stat::|^INFO: -fork|crash|DONE" "$OUT" | tail -n 8
NEW=$(find "$FOUND" -name "${ID}_${CHECK}_*.json" 2>/dev/null | head -n 1)
rm -f "$OUT"; rmdir "$FOUND" 2>/dev/null
if [ -n "$NEW" ]; then
  echo "VIOLATION property=$ID replay=$NEW"
  python3 -c "import json,sys;d=json.load(open('$NEW'));print('  check=%s reason=%s'%(d['check'],d['reason'][:400]))"
  exit 1
fi
if [ $rc -ne 0 ]; then echo "INCONCLUSIVE libFuzzer exited with $rc without a replay file"; exit 2; fi
echo "FUZZ-OK property=$ID check=$CHECK seconds=$SECS jobs=$JOBS"
exit 0
