//! C17, token-factory build: a pool whose LP token is a token-factory denom is withdrawn from with
//! the direct `WithdrawLiquidity {}` message (LP coins as funds) instead of the cw20 Send hook.
//! That entry path only exists in this build, so it is driven here, over cosmwasm_std mocks.

use cosmwasm_std::testing::{mock_dependencies_with_balances, mock_env, mock_info, MOCK_CONTRACT_ADDR};
use cosmwasm_std::{coin, Coin, Decimal, Uint128};
use proptest::prelude::*;
use serde::{Deserialize, Serialize};

use white_whale_std::fee::Fee;
use white_whale_std::pool_network::asset::{Asset, AssetInfo, PairType};
use white_whale_std::pool_network::pair::{self, FeatureToggle, PoolFee};
use white_whale_std::pool_network::trio;

use crate::engine::{hash_of, Check, Fail, Property, Rec, TResult, Tier};
use crate::ensure;

#[derive(Clone, Copy, Debug, PartialEq, Eq, Serialize, Deserialize)]
pub enum Path {
    /// ExecuteMsg::WithdrawLiquidity {} with the LP denom as funds
    WithdrawDirect,
    Provide,
    Swap,
}

#[derive(Clone, Debug, Serialize, Deserialize)]
pub struct Case {
    /// 0 constant-product pair, 1 stableswap pair, 2 three-asset pool
    pub kind: u8,
    /// (withdrawals, deposits, swaps) enabled
    pub flags: [bool; 3],
    pub path: Path,
    pub reserves: [Uint128; 3],
    pub lp_supply: Uint128,
    pub amount: Uint128,
}

const DENOMS: [&str; 3] = ["uaaa", "ubbb", "uccc"];
const HOLDER: &str = "lpholder";
const OWNER: &str = "factory";

fn native(d: &str) -> AssetInfo {
    AssetInfo::NativeToken { denom: d.to_string() }
}

fn fees() -> PoolFee {
    let f = |n: u128| Fee { share: Decimal::from_ratio(n, 1000u128) };
    PoolFee { protocol_fee: f(1), swap_fee: f(3), burn_fee: f(0) }
}

fn flag_of(p: Path) -> usize {
    match p {
        Path::WithdrawDirect => 0,
        Path::Provide => 1,
        Path::Swap => 2,
    }
}

/// Builds the pool with the given switches and drives one entry path; Ok(()) = accepted.
fn drive(c: &Case, flags: [bool; 3]) -> Result<Result<(), String>, String> {
    let n = if c.kind == 2 { 3 } else { 2 };
    let lp_denom = format!("factory/{}/uLP", MOCK_CONTRACT_ADDR);
    let amount = c.amount.u128().max(1);
    // bank state as the chain would present it to the contract when the message executes: funds
    // already credited to the contract
    let mut pool: Vec<Coin> = (0..n).map(|i| coin(c.reserves[i].u128(), DENOMS[i])).collect();
    let holder_lp = c.lp_supply.u128().max(amount);
    let (funds, msg_amounts): (Vec<Coin>, Vec<u128>) = match c.path {
        Path::WithdrawDirect => (vec![coin(amount.min(holder_lp), lp_denom.clone())], vec![]),
        Path::Provide => {
            let a: Vec<u128> = (0..n).map(|i| (amount % (c.reserves[i].u128() / 2 + 1)).max(1)).collect();
            for i in 0..n {
                pool[i].amount += Uint128::new(a[i]);
            }
            ((0..n).map(|i| coin(a[i], DENOMS[i])).collect(), a)
        }
        Path::Swap => {
            let a = (amount % (c.reserves[0].u128() / 4 + 1)).max(1);
            pool[0].amount += Uint128::new(a);
            (vec![coin(a, DENOMS[0])], vec![a])
        }
    };
    let lp_coins = vec![coin(holder_lp, lp_denom.clone())];
    let mut deps = mock_dependencies_with_balances(&[(MOCK_CONTRACT_ADDR, &pool[..]), (HOLDER, &lp_coins[..])]);
    let toggle = FeatureToggle { withdrawals_enabled: flags[0], deposits_enabled: flags[1], swaps_enabled: flags[2] };
    if c.kind < 2 {
        use terraswap_pair::contract::{execute, instantiate};
        instantiate(
            deps.as_mut(),
            mock_env(),
            mock_info(OWNER, &[]),
            pair::InstantiateMsg {
                asset_infos: [native(DENOMS[0]), native(DENOMS[1])],
                token_code_id: 1,
                asset_decimals: [6, 6],
                pool_fees: fees(),
                fee_collector_addr: "collector".to_string(),
                pair_type: if c.kind == 0 { PairType::ConstantProduct } else { PairType::StableSwap { amp: 100 } },
                token_factory_lp: true,
            },
        )
        .map_err(|e| format!("instantiate: {e}"))?;
        execute(
            deps.as_mut(),
            mock_env(),
            mock_info(OWNER, &[]),
            pair::ExecuteMsg::UpdateConfig { owner: None, fee_collector_addr: None, pool_fees: None, feature_toggle: Some(toggle) },
        )
        .map_err(|e| format!("setting the switches: {e}"))?;
        let msg = match c.path {
            Path::WithdrawDirect => pair::ExecuteMsg::WithdrawLiquidity {},
            Path::Provide => pair::ExecuteMsg::ProvideLiquidity {
                assets: [
                    Asset { info: native(DENOMS[0]), amount: Uint128::new(msg_amounts[0]) },
                    Asset { info: native(DENOMS[1]), amount: Uint128::new(msg_amounts[1]) },
                ],
                slippage_tolerance: None,
                receiver: None,
            },
            Path::Swap => pair::ExecuteMsg::Swap {
                offer_asset: Asset { info: native(DENOMS[0]), amount: Uint128::new(msg_amounts[0]) },
                belief_price: None,
                max_spread: Some(Decimal::percent(50)),
                to: None,
            },
        };
        let r = std::panic::catch_unwind(std::panic::AssertUnwindSafe(|| execute(deps.as_mut(), mock_env(), mock_info(HOLDER, &funds), msg)));
        Ok(match r {
            Ok(Ok(_)) => Ok(()),
            Ok(Err(e)) => Err(e.to_string()),
            Err(_) => Err("panic".to_string()),
        })
    } else {
        use stableswap_3pool::contract::{execute, instantiate};
        instantiate(
            deps.as_mut(),
            mock_env(),
            mock_info(OWNER, &[]),
            trio::InstantiateMsg {
                asset_infos: [native(DENOMS[0]), native(DENOMS[1]), native(DENOMS[2])],
                token_code_id: 1,
                asset_decimals: [6, 6, 6],
                pool_fees: trio::PoolFee { protocol_fee: fees().protocol_fee, swap_fee: fees().swap_fee, burn_fee: fees().burn_fee },
                fee_collector_addr: "collector".to_string(),
                amp_factor: 100,
                token_factory_lp: true,
            },
        )
        .map_err(|e| format!("instantiate: {e}"))?;
        execute(
            deps.as_mut(),
            mock_env(),
            mock_info(OWNER, &[]),
            trio::ExecuteMsg::UpdateConfig {
                owner: None,
                fee_collector_addr: None,
                pool_fees: None,
                feature_toggle: Some(trio::FeatureToggle { withdrawals_enabled: flags[0], deposits_enabled: flags[1], swaps_enabled: flags[2] }),
                amp_factor: None,
            },
        )
        .map_err(|e| format!("setting the switches: {e}"))?;
        let msg = match c.path {
            Path::WithdrawDirect => trio::ExecuteMsg::WithdrawLiquidity {},
            Path::Provide => trio::ExecuteMsg::ProvideLiquidity {
                assets: [
                    Asset { info: native(DENOMS[0]), amount: Uint128::new(msg_amounts[0]) },
                    Asset { info: native(DENOMS[1]), amount: Uint128::new(msg_amounts[1]) },
                    Asset { info: native(DENOMS[2]), amount: Uint128::new(msg_amounts[2]) },
                ],
                slippage_tolerance: None,
                receiver: None,
            },
            Path::Swap => trio::ExecuteMsg::Swap {
                offer_asset: Asset { info: native(DENOMS[0]), amount: Uint128::new(msg_amounts[0]) },
                ask_asset: native(DENOMS[1]),
                belief_price: None,
                max_spread: Some(Decimal::percent(50)),
                to: None,
            },
        };
        let r = std::panic::catch_unwind(std::panic::AssertUnwindSafe(|| execute(deps.as_mut(), mock_env(), mock_info(HOLDER, &funds), msg)));
        Ok(match r {
            Ok(Ok(_)) => Ok(()),
            Ok(Err(e)) => Err(e.to_string()),
            Err(_) => Err("panic".to_string()),
        })
    }
}

pub struct TokenFactoryPoolSwitches;

impl Check for TokenFactoryPoolSwitches {
    type Case = Case;
    fn name(&self) -> &'static str {
        "tf_pool_pause_switches"
    }
    fn rule(&self) -> &'static str {
        "token-factory build (cargo feature osmosis_token_factory) of the constant-product pair, the stableswap pair and the three-asset pool, instantiated with token_factory_lp = true over cosmwasm_std mocks (bank balances as the chain presents them when the message executes) x all 8 combinations of (withdrawals, deposits, swaps) set through UpdateConfig by the owner x entry paths {direct WithdrawLiquidity {} message with the LP denom as funds — the path that only exists in this build —, ProvideLiquidity, Swap} x generated reserves, LP supply and amounts; full product with fixed amounts as regression corpus. Differential oracle against the same pool with everything enabled: a path whose switch is off must be rejected; a path whose switch is on must be accepted exactly when the all-enabled twin accepts it. Non-trivial: at least one switch is off."
    }
    fn strategy(&self, _tier: Tier) -> BoxedStrategy<Case> {
        let amt = || (1_000_000u128..1_000_000_000_000_000u128).prop_map(Uint128::new);
        (0u8..3, any::<[bool; 3]>(), prop_oneof![Just(Path::WithdrawDirect), Just(Path::Provide), Just(Path::Swap)], [amt(), amt(), amt()], amt(), (1u128..1_000_000_000_000u128).prop_map(Uint128::new))
            .prop_map(|(kind, flags, path, reserves, lp_supply, amount)| Case { kind, flags, path, reserves, lp_supply, amount })
            .boxed()
    }
    fn cases(&self, tier: Tier) -> u32 {
        tier.pick(20_000, 2_000_000)
    }
    fn corpus(&self) -> Vec<Case> {
        let mut out = vec![];
        for kind in 0..3u8 {
            for f in 0..8u8 {
                for path in [Path::WithdrawDirect, Path::Provide, Path::Swap] {
                    out.push(Case {
                        kind,
                        flags: [f & 1 != 0, f & 2 != 0, f & 4 != 0],
                        path,
                        reserves: [Uint128::new(1_000_000_000), Uint128::new(2_000_000_000), Uint128::new(1_500_000_000)],
                        lp_supply: Uint128::new(1_000_000_000),
                        amount: Uint128::new(1_000_000),
                    });
                }
            }
        }
        out
    }
    fn test(&self, c: &Case, rec: &Rec) -> TResult {
        let a = drive(c, c.flags).map_err(Fail::new)?;
        let b = drive(c, [true, true, true]).map_err(Fail::new)?;
        let kind = ["constant-product pair", "stableswap pair", "three-asset pool"][(c.kind % 3) as usize];
        if c.flags != [true, true, true] {
            rec.nontrivial(hash_of(c));
            rec.sample(c);
        }
        if !c.flags[flag_of(c.path)] {
            rec.class("disabled_path_exercised");
            ensure!(
                a.is_err(),
                "token-factory {kind}: {:?} succeeded although its switch is off (flags w/d/s = {:?})",
                c.path,
                c.flags
            );
        } else {
            rec.class("enabled_path_exercised");
            ensure!(
                a.is_ok() == b.is_ok(),
                "token-factory {kind}: {:?} with flags {:?} {} but with everything enabled it {}: {:?} / {:?}",
                c.path,
                c.flags,
                if a.is_ok() { "succeeded" } else { "failed" },
                if b.is_ok() { "succeeded" } else { "failed" },
                a.as_ref().err(),
                b.as_ref().err()
            );
            if a.is_ok() {
                rec.class("enabled_path_accepted");
            }
        }
        Ok(())
    }
}

pub fn property() -> Property {
    Property {
        id: "C17",
        checks: vec![Box::new(TokenFactoryPoolSwitches)],
        assumptions: vec![
            "token-factory part: the pools are compiled with the cargo feature osmosis_token_factory and driven through their entry points over cosmwasm_std::testing mocks (no chain: the messages a call returns are not executed); only the accept / reject decision of each entry path is judged there",
        ],
    }
}
