//! wwcheck_tf — the part of the checks that needs the token-factory build of the pools
//! (cargo feature `osmosis_token_factory`). Same engine, same CLI, same output lines as wwcheck; its
//! evidence is merged into the file wwcheck has just written. See /verif/DESIGN.md §2.

#[path = "../../harness/src/engine.rs"]
mod engine;
mod c17;
mod c18;

use engine::{load_known, replay_property, run_property, RunEnv, Tier};

fn usage() -> ! {
    eprintln!("usage: wwcheck_tf <C17> [--tier quick|thorough] [--replay FILE] [--only CHECK] [--threads N] [--scale F]");
    std::process::exit(2)
}

fn main() {
    let args: Vec<String> = std::env::args().collect();
    if args.len() < 2 {
        usage();
    }
    let id = args[1].clone();
    let mut tier = match std::env::var("VERIF_TIER").ok().as_deref() {
        Some("thorough") => Tier::Thorough,
        _ => Tier::Quick,
    };
    let mut replay: Option<String> = None;
    let mut only: Option<String> = None;
    let mut threads: usize = std::thread::available_parallelism().map(|n| n.get()).unwrap_or(8).min(16);
    let mut scale = 1.0f64;
    let mut i = 2;
    while i < args.len() {
        match args[i].as_str() {
            "--tier" => {
                i += 1;
                tier = match args.get(i).map(|s| s.as_str()) {
                    Some("quick") => Tier::Quick,
                    Some("thorough") => Tier::Thorough,
                    _ => usage(),
                };
            }
            "--replay" => {
                i += 1;
                replay = Some(args.get(i).cloned().unwrap_or_else(|| usage()));
            }
            "--only" => {
                i += 1;
                only = Some(args.get(i).cloned().unwrap_or_else(|| usage()));
            }
            "--threads" => {
                i += 1;
                threads = args.get(i).and_then(|s| s.parse().ok()).unwrap_or_else(|| usage());
            }
            "--scale" => {
                i += 1;
                scale = args.get(i).and_then(|s| s.parse().ok()).unwrap_or_else(|| usage());
            }
            _ => usage(),
        }
        i += 1;
    }
    let seed: u64 = std::env::var("VERIF_SEED").ok().and_then(|s| s.trim().parse::<i128>().ok()).map(|v| v as u64).unwrap_or(0);
    if std::env::var("WWCHECK_PANIC_TRACE").is_err() {
        std::panic::set_hook(Box::new(|_| {}));
    }
    let limit_s: u64 = std::env::var("WWCHECK_TIMEOUT_S").ok().and_then(|s| s.parse().ok()).unwrap_or(1500);
    std::thread::spawn(move || {
        std::thread::sleep(std::time::Duration::from_secs(limit_s));
        println!("INCONCLUSIVE watchdog: run exceeded {limit_s}s");
        std::process::exit(2);
    });
    let prop = match id.as_str() {
        "C17" => c17::property(),
        "C18" => c18::property(),
        _ => {
            eprintln!("property {id} has no token-factory part");
            std::process::exit(2);
        }
    };
    let env = RunEnv { property: id.clone(), tier, seed, threads, known: load_known(&id), scale };
    let code = match replay {
        Some(path) => replay_property(&prop, &env, &path),
        None => run_property(&prop, &env, only.as_deref()),
    };
    std::process::exit(code);
}
