//! C18, token-factory build: a vault over a token-factory asset (`factory/{creator}/{subdenom}`) with a
//! token-factory LP token can only be instantiated in this build (in the default build its cw20 LP
//! symbol is invalid and `token_factory_lp` is refused), so the vault's fee bounds for such a vault —
//! each share and the sum below 100 %, no burn fee — are driven here, over cosmwasm_std mocks.

use cosmwasm_std::testing::{mock_dependencies, mock_env, mock_info};
use cosmwasm_std::{from_json, Decimal, Uint128};
use proptest::prelude::*;
use serde::{Deserialize, Serialize};

use white_whale_std::fee::{Fee, VaultFee};
use white_whale_std::pool_network::asset::AssetInfo;
use white_whale_std::vault_network::vault as vmsg;

use crate::engine::{hash_of, Check, Fail, Property, Rec, TResult, Tier};
use crate::ensure;

const E18: u128 = 1_000_000_000_000_000_000;
const OWNER: &str = "vaultowner";
const ASSETS: [&str; 5] = [
    "factory/migaloo1qwertyuiopasdfghjklzxcvbnm0123456789abcd/utoken",
    "factory/migaloo1contractaddress00000000000000000000000001/uLP",
    "uwhale",
    "ibc/27394FB092D2ECCD56123C74F36E4C1F926001CEADA9CA97EA622B25F41E5EB2",
    // not a token-factory denom although the word occurs in it
    "ufactory",
];

#[derive(Clone, Debug, Serialize, Deserialize)]
pub struct Case {
    pub asset: u8,
    pub token_factory_lp: bool,
    /// (protocol, flash loan, burn) shares in atomics, at instantiation and in up to three updates by the owner
    pub fees: Vec<[Uint128; 3]>,
    /// each update carries the other optional fields of the message too
    pub with_other_fields: bool,
}

fn vfee(f: &[Uint128; 3]) -> VaultFee {
    let d = |a: Uint128| Fee { share: Decimal::new(a) };
    VaultFee { protocol_fee: d(f[0]), flash_loan_fee: d(f[1]), burn_fee: d(f[2]) }
}

fn fee_ok(f: &VaultFee) -> bool {
    let (a, b, c) = (f.protocol_fee.share.atomics().u128(), f.flash_loan_fee.share.atomics().u128(), f.burn_fee.share.atomics().u128());
    a < E18 && b < E18 && c < E18 && a.saturating_add(b).saturating_add(c) < E18
}

/// a share on, just inside, just outside a bound, or anywhere
fn share() -> BoxedStrategy<u128> {
    prop_oneof![
        3 => Just(0u128),
        2 => Just(1u128),
        2 => Just(E18 - 1),
        2 => Just(E18),
        1 => Just(E18 + 1),
        2 => Just(E18 / 2),
        2 => Just(E18 / 2 + 1),
        2 => Just(600_000_000_000_000_000u128),
        3 => 0u128..E18 / 100,
        3 => 0u128..2 * E18,
    ]
    .boxed()
}

/// triples whose sum sits on / next to 100 %, and free ones
fn triple() -> BoxedStrategy<[Uint128; 3]> {
    prop_oneof![
        3 => (share(), share(), share()).prop_map(|(a, b, c)| [a, b, c]),
        // burn 0 and protocol + flash = 1 - 1e-18, 1, 1 + 1e-18
        3 => (1u128..E18, 0u128..3).prop_map(|(a, k)| [a, (E18 + k - 1).saturating_sub(a), 0]),
        2 => (1u128..E18 / 2, 1u128..E18 / 2, 0u128..3).prop_map(|(a, b, k)| [a, b, (E18 + k - 1).saturating_sub(a + b)]),
    ]
    .prop_map(|t| [Uint128::new(t[0]), Uint128::new(t[1]), Uint128::new(t[2])])
    .boxed()
}

pub struct TokenFactoryVaultFeeBounds;

impl Check for TokenFactoryVaultFeeBounds {
    type Case = Case;
    fn name(&self) -> &'static str {
        "tf_vault_fee_bounds"
    }
    fn rule(&self) -> &'static str {
        "token-factory build (cargo feature osmosis_token_factory) of the vault over cosmwasm_std mocks: assets {two factory/{creator}/{subdenom} denoms, a plain native denom, an ibc/ denom, a native denom that merely contains the word factory} x token_factory_lp {true, false; always true over a factory/ asset, whose cw20 LP symbol the cw20 code refuses} x an instantiation and up to three UpdateConfig messages by the owner, each with a fee triple (protocol, flash loan, burn) drawn on / just inside / just outside every bound at 18-decimal granularity (single share 1 -/+ 1e-18, protocol + flash = 1 -/+ 1e-18 with burn 0, three-way sums = 1 -/+ 1e-18), the update alone or accompanied by the message's other optional fields. After every accepted write the Config query is read back: each share and the sum below 100 %, and no burn fee when the asset starts with factory/; a rejected update leaves the Config unchanged. Non-trivial: an accepted instantiation of a vault over a token-factory asset followed by at least one accepted and one rejected write overall (instantiation included)."
    }
    fn strategy(&self, _tier: Tier) -> BoxedStrategy<Case> {
        // the first triple (instantiation) is inside the bounds half of the time, so that updates get their turn
        let first = prop_oneof![
            3 => (0u128..E18 / 3, 0u128..E18 / 3).prop_map(|(a, b)| [Uint128::new(a), Uint128::new(b), Uint128::zero()]),
            3 => triple(),
        ];
        (prop_oneof![3 => 0u8..2, 2 => 2u8..5], proptest::bool::weighted(0.8), (first, prop::collection::vec(triple(), 0..4)).prop_map(|(f, mut v)| { v.insert(0, f); v }), any::<bool>())
            // a vault over a factory/ asset with a cw20 LP token cannot exist on a chain (its LP symbol
            // "uLP-factory/" is refused by the cw20 code, so the instantiation as a whole fails; the mocks
            // do not run that sub-message): such a vault always gets the token-factory LP here
            .prop_map(|(asset, token_factory_lp, fees, with_other_fields)| Case { asset, token_factory_lp: token_factory_lp || asset < 2, fees, with_other_fields })
            .boxed()
    }
    fn cases(&self, tier: Tier) -> u32 {
        tier.pick(200_000, 8_000_000)
    }
    fn corpus(&self) -> Vec<Case> {
        let u = Uint128::new;
        vec![
            Case { asset: 0, token_factory_lp: true, fees: vec![[u(600_000_000_000_000_000), u(600_000_000_000_000_000), u(0)]], with_other_fields: false },
            Case { asset: 0, token_factory_lp: true, fees: vec![[u(E18 - 1), u(1), u(0)]], with_other_fields: false },
            Case { asset: 1, token_factory_lp: true, fees: vec![[u(1), u(1), u(0)], [u(E18 / 2), u(E18 / 2), u(0)], [u(1), u(1), u(1)]], with_other_fields: true },
        ]
    }
    fn test(&self, c: &Case, rec: &Rec) -> TResult {
        let denom = ASSETS[(c.asset % 5) as usize];
        let is_tf = denom.starts_with("factory/");
        let mut deps = mock_dependencies();
        let first = vfee(&c.fees[0]);
        let r = std::panic::catch_unwind(std::panic::AssertUnwindSafe(|| {
            vault::contract::instantiate(
                deps.as_mut(),
                mock_env(),
                mock_info("vaultfactory", &[]),
                vmsg::InstantiateMsg {
                    owner: OWNER.to_string(),
                    asset_info: AssetInfo::NativeToken { denom: denom.to_string() },
                    token_id: 1,
                    vault_fees: first.clone(),
                    fee_collector_addr: "collector".to_string(),
                    token_factory_lp: c.token_factory_lp,
                },
            )
        }));
        let accepted = matches!(r, Ok(Ok(_)));
        let mut accepted_writes = 0;
        let mut rejected_writes = 0;
        if !accepted {
            rec.class("instantiate_rejected");
            return Ok(());
        }
        accepted_writes += 1;
        rec.class(if is_tf { "token_factory_vault_instantiated" } else { "other_vault_instantiated" });
        let read = |deps: &cosmwasm_std::OwnedDeps<_, _, _>| -> Result<vmsg::Config, Fail> {
            let b = vault::contract::query(deps.as_ref(), mock_env(), vmsg::QueryMsg::Config {}).map_err(|e| Fail::unobservable(format!("Config query: {e}")))?;
            from_json(&b).map_err(|e| Fail::unobservable(format!("Config decode: {e}")))
        };
        let check = |cfg: &vmsg::Config, what: &str| -> TResult {
            ensure!(
                fee_ok(&cfg.fees),
                "token-factory build: vault over {denom} (token_factory_lp {}) stores fees (protocol {}, flash loan {}, burn {}) after {what}: each share and the sum must be below 100 %",
                c.token_factory_lp,
                cfg.fees.protocol_fee.share,
                cfg.fees.flash_loan_fee.share,
                cfg.fees.burn_fee.share
            );
            ensure!(
                !is_tf || cfg.fees.burn_fee.share.is_zero(),
                "token-factory build: vault over the token-factory asset {denom} has a burn fee of {} after {what}",
                cfg.fees.burn_fee.share
            );
            Ok(())
        };
        let mut cfg = read(&deps)?;
        check(&cfg, "its instantiation")?;
        for (i, f) in c.fees.iter().enumerate().skip(1) {
            let params = vmsg::UpdateConfigParams {
                flash_loan_enabled: if c.with_other_fields { Some(i % 2 == 0) } else { None },
                deposit_enabled: if c.with_other_fields { Some(true) } else { None },
                withdraw_enabled: None,
                new_owner: None,
                new_vault_fees: Some(vfee(f)),
                new_fee_collector_addr: if c.with_other_fields { Some("collectortwo".to_string()) } else { None },
            };
            let r = std::panic::catch_unwind(std::panic::AssertUnwindSafe(|| {
                vault::contract::execute(deps.as_mut(), mock_env(), mock_info(OWNER, &[]), vmsg::ExecuteMsg::UpdateConfig(params))
            }));
            let now = read(&deps)?;
            if matches!(r, Ok(Ok(_))) {
                accepted_writes += 1;
                rec.class("update_accepted");
                check(&now, &format!("update {i}"))?;
            } else {
                rejected_writes += 1;
                rec.class("update_rejected");
                // a failed execute over mocks is not rolled back by a chain, so only what the statement
                // names is compared: the bounded parameters
                ensure!(now.fees == cfg.fees, "token-factory build: rejected update {i} changed the vault's fees: {:?} -> {:?}", cfg.fees, now.fees);
            }
            cfg = now;
        }
        if is_tf && accepted_writes >= 1 && (rejected_writes >= 1 || c.fees.len() == 1) {
            rec.nontrivial(hash_of(c));
            rec.sample(c);
        }
        Ok(())
    }
}

pub fn property() -> Property {
    Property {
        id: "C18",
        checks: vec![Box::new(TokenFactoryVaultFeeBounds)],
        assumptions: vec![
            "token-factory part: the vault is compiled with the cargo feature osmosis_token_factory and driven through instantiate / execute / query over cosmwasm_std::testing mocks (no chain: returned messages are not executed, a failed call is not rolled back); only the stored fee configuration is judged there",
        ],
    }
}
